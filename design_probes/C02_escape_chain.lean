abbrev Str := List Nat
abbrev Table := List (Nat × Str)      -- ordered escape table: single code point ↦ replacement

/-- model of Python `s.replace(chr(c), v)` for a one-character pattern -/
def repl1 (c : Nat) (v : Str) : Str → Str
  | [] => []
  | x :: xs => if x = c then v ++ repl1 c v xs else x :: repl1 c v xs

/-- what html_escape's loop computes: replacements applied in table order -/
def chain : Table → Str → Str
  | [], s => s
  | (c, v) :: t, s => chain t (repl1 c v s)

def lookup : Table → Nat → Option Str
  | [], _ => none
  | (c, v) :: t, x => if x = c then some v else lookup t x

/-- the property-level mapping: each character independently -/
def escChar (t : Table) (x : Nat) : Str := (lookup t x).getD [x]
def esc (t : Table) (s : Str) : Str := s.flatMap (escChar t)

/-- table side condition: no later key occurs in an earlier (or its own) replacement text -/
def keysFresh : Table → Prop
  | [] => True
  | (_, v) :: t => (∀ k ∈ t.map Prod.fst, k ∉ v) ∧ keysFresh t

theorem repl1_append (c v a b) : repl1 c v (a ++ b) = repl1 c v a ++ repl1 c v b := by
  induction a with
  | nil => simp [repl1]
  | cons x xs ih => simp only [List.cons_append, repl1]; split <;> simp [ih]

theorem chain_append (t : Table) (a b : Str) : chain t (a ++ b) = chain t a ++ chain t b := by
  induction t generalizing a b with
  | nil => simp [chain]
  | cons p t ih => obtain ⟨c, v⟩ := p; simp [chain, repl1_append, ih]

theorem repl1_noop (c v) (s : Str) (h : c ∉ s) : repl1 c v s = s := by
  induction s with
  | nil => simp [repl1]
  | cons x xs ih =>
    simp only [List.mem_cons, not_or] at h
    simp [repl1, ih h.2, Ne.symm h.1]

theorem chain_noop (t : Table) (s : Str) (h : ∀ k ∈ t.map Prod.fst, k ∉ s) : chain t s = s := by
  induction t generalizing s with
  | nil => simp [chain]
  | cons p t ih =>
    obtain ⟨c, v⟩ := p
    simp only [List.map_cons, List.mem_cons, forall_eq_or_imp] at h
    simp [chain, repl1_noop c v s h.1, ih s h.2]

theorem chain_single (t : Table) (hf : keysFresh t) (x : Nat) : chain t [x] = escChar t x := by
  induction t with
  | nil => simp [chain, escChar, lookup]
  | cons p t ih =>
    obtain ⟨c, v⟩ := p
    simp only [keysFresh] at hf
    simp only [chain, repl1, escChar, lookup]
    split
    · simp [chain_noop t v hf.1]
    · rename_i hne
      have := ih hf.2
      simp [escChar] at this
      simpa [hne] using this

/-- html_escape's replace loop equals the per-character map, for ANY table satisfying the side condition -/
theorem chain_eq_esc (t : Table) (hf : keysFresh t) (s : Str) : chain t s = esc t s := by
  induction s with
  | nil => simp [esc, chain_noop]
  | cons x xs ih =>
    have : x :: xs = [x] ++ xs := rfl
    rw [this, chain_append, chain_single t hf, ih]; simp [esc]

-- the concrete table as it would be emitted from /repo's dict literal on each run
def TEXT : Table := [(38, [38,97,109,112,59]), (62, [38,103,116,59]), (60, [38,108,116,59])]
theorem TEXT_fresh : keysFresh TEXT := by simp [keysFresh, TEXT]
#print axioms chain_eq_esc
