abbrev Str := List Nat

mutual
inductive Node where
  | txt : Str → Node
  | raw  : Str → Node
  | md : Node
  | rp : Str → Node
  | el   : Str → Bool → Str → NodeList → Node
inductive NodeList where
  | nil : NodeList
  | cons : Node → NodeList → NodeList
end
open Node NodeList

structure St where
  html : Str
  first : Bool
  prev : Bool

def ind : Nat → Str
  | 0 => []
  | n+1 => [32,32] ++ ind n

def isMeta : Node → Bool | .md => true | _ => false
def isWs : Node → Bool | .el _ ws _ _ => ws | _ => false

def nonMeta : NodeList → NodeList
  | .nil => .nil
  | .cons c r => if isMeta c then nonMeta r else .cons c (nonMeta r)

def closeT (n : Str) : Str := [60,47] ++ n ++ [62]

structure Cfg where
  esc : Str → Str
  isVoid : Str → Bool
  noEsc : Str → Bool

/-- non-recursive frame of Tag.get_html_string; `inner` is the rendering of the child list -/
def tagFrame (cfg : Cfg) (n : Str) (ws : Bool) (attrs : Str) (ks : NodeList) (inner : Str) (i : Nat) (eol : Str) : Str :=
  let open_ := ind i ++ [60] ++ n ++ attrs
  match ks with
  | .nil => if cfg.isVoid n then open_ ++ [47,62] else open_ ++ [62] ++ closeT n
  | .cons (.txt s) .nil => open_ ++ [62] ++ (if cfg.noEsc n then s else cfg.esc s) ++ closeT n
  | .cons (.raw s) .nil => open_ ++ [62] ++ s ++ closeT n
  | _ => open_ ++ [62] ++ (if ws then eol else []) ++ inner ++ (if ws then eol ++ ind i else []) ++ closeT n

/-- non-recursive loop body of TagList.get_html_string; rtI / rt0 are the child's renderings at (i,eol) and (0,"") -/
def step (cfg : Cfg) (st : St) (c : Node) (rtI rt0 : Str) (i : Nat) (eol : Str) (e : Bool) : St :=
  let sep (p : Bool) : Str := if st.first then [] else if p then eol else []
  match c with
  | .md => st
  | .el _ ws _ _ => let p := st.prev || ws; ⟨st.html ++ sep p ++ (if p then rtI else rt0), false, ws⟩
  | .rp s => ⟨st.html ++ sep st.prev ++ (if st.prev then ind i else []) ++ s, false, false⟩
  | .raw s => ⟨st.html ++ sep st.prev ++ (if st.prev then ind i else []) ++ s, false, false⟩
  | .txt s => ⟨st.html ++ sep st.prev ++ (if st.prev then ind i else []) ++ (if e then cfg.esc s else s), false, false⟩

mutual
def rtag (cfg : Cfg) : Node → Nat → Str → Str
  | .el n ws attrs kids, i, eol =>
      tagFrame cfg n ws attrs (nonMeta kids) (rlist cfg kids ⟨[], true, ws⟩ (i+1) eol (!cfg.noEsc n)).html i eol
  | _, _, _ => []
def rlist (cfg : Cfg) : NodeList → St → Nat → Str → Bool → St
  | .nil, st, _, _, _ => st
  | .cons c r, st, i, eol, e => rlist cfg r (step cfg st c (rtag cfg c i eol) (rtag cfg c 0 []) i eol e) i eol e
end

mutual
def strip : Node → Node
  | .el n ws a kids => .el n ws a (stripL kids)
  | .txt s => .txt s
  | .raw s => .raw s
  | .rp s => .rp s
  | .md => .md
def stripL : NodeList → NodeList
  | .nil => .nil
  | .cons c r => if isMeta c then stripL r else .cons (strip c) (stripL r)
end

theorem rlist_nil (cfg) (st : St) (i : Nat) (eol : Str) (e : Bool) : rlist cfg .nil st i eol e = st := by rw [rlist]
theorem rlist_cons (cfg) (c r) (st : St) (i : Nat) (eol : Str) (e : Bool) :
  rlist cfg (.cons c r) st i eol e = rlist cfg r (step cfg st c (rtag cfg c i eol) (rtag cfg c 0 []) i eol e) i eol e := by rw [rlist]
theorem rtag_el (cfg) (n ws attrs kids) (i : Nat) (eol : Str) :
  rtag cfg (.el n ws attrs kids) i eol =
    tagFrame cfg n ws attrs (nonMeta kids) (rlist cfg kids ⟨[], true, ws⟩ (i+1) eol (!cfg.noEsc n)).html i eol := by rw [rtag]

theorem isMeta_strip (c : Node) : isMeta (strip c) = isMeta c := by
  cases c <;> simp [strip, isMeta]

/-- nonMeta commutes with strip on lists, up to mapping strip -/
def mapStrip : NodeList → NodeList
  | .nil => .nil
  | .cons c r => .cons (strip c) (mapStrip r)

theorem nonMeta_stripL : (l : NodeList) → nonMeta (stripL l) = mapStrip (nonMeta l)
  | .nil => by simp [stripL, nonMeta, mapStrip]
  | .cons c r => by
    have ih := nonMeta_stripL r
    simp only [stripL, nonMeta]
    split
    · exact ih
    · rename_i h; simp [nonMeta, isMeta_strip, h, mapStrip, ih]

/-- tagFrame only looks at the shape of ks that strip preserves -/
theorem tagFrame_mapStrip (cfg n ws attrs) (ks : NodeList) (inner i eol) :
    tagFrame cfg n ws attrs (mapStrip ks) inner i eol = tagFrame cfg n ws attrs ks inner i eol := by
  cases ks with
  | nil => simp [mapStrip, tagFrame]
  | cons c r =>
    cases r with
    | nil => cases c <;> simp [mapStrip, strip, tagFrame]
    | cons c2 r2 => cases c <;> simp [mapStrip, strip, tagFrame]

theorem step_strip (cfg st c a b i eol e) (h : isMeta c = false) :
    step cfg st (strip c) a b i eol e = step cfg st c a b i eol e := by
  cases c <;> simp_all [strip, step, isMeta]

mutual
theorem rtag_strip (cfg : Cfg) : (t : Node) → (i : Nat) → (eol : Str) → rtag cfg (strip t) i eol = rtag cfg t i eol
  | .txt s, i, eol => by simp [strip]
  | .raw s, i, eol => by simp [strip]
  | .rp s, i, eol => by simp [strip]
  | .md, i, eol => by simp [strip]
  | .el n ws a kids, i, eol => by
    simp only [strip, rtag_el, nonMeta_stripL, tagFrame_mapStrip, rlist_strip cfg kids]
theorem rlist_strip (cfg : Cfg) : (l : NodeList) → (st : St) → (i : Nat) → (eol : Str) → (e : Bool) →
    rlist cfg (stripL l) st i eol e = rlist cfg l st i eol e
  | .nil, st, i, eol, e => by simp [stripL]
  | .cons c r, st, i, eol, e => by
    simp only [stripL]
    split
    · rename_i h
      have : c = .md := by cases c <;> simp_all [isMeta]
      subst this
      simp only [rlist_cons, step]
      exact rlist_strip cfg r st i eol e
    · rename_i h
      simp only [rlist_cons, rtag_strip cfg c, step_strip cfg _ _ _ _ _ _ _ (by simpa using h)]
      exact rlist_strip cfg r _ i eol e
end

#print axioms rtag_strip
