import random, sys, ast, re, html as htmlmod
from html.parser import HTMLParser
import htmltools
from htmltools import *
from htmltools import tags, svg
from htmltools._core import _VOID_TAG_NAMES
random.seed(int(sys.argv[1]) if len(sys.argv)>1 else 0)

# ---------- C19 exhaustive
src = open('/repo/scripts/generate_tags.py').read()
mod = ast.parse(src)
inline = None
for n in mod.body:
    if isinstance(n, ast.Assign) and n.targets[0].id == '_INLINE_TAG_NAMES':
        inline = ast.literal_eval(n.value)
bad = []
for m in (tags, svg):
    for nm, f in vars(m).items():
        if callable(f) and getattr(f, '__module__', None) == m.__name__:
            t = f()
            if t.name != nm or t.add_ws != (nm not in inline): bad.append((m.__name__, nm, t.name, t.add_ws))
print("C19 mismatches:", bad)
for nm in ["a","br","code","div","em","h1","h2","h3","h4","h5","h6","hr","img","p","pre","span","strong"]:
    assert getattr(htmltools, nm) is getattr(tags, nm)

# ---------- random trees
BLOCK = ["div","p","ul","section","hr","meta","link","h1","html","body","head"]
INL = ["span","a","b","i","br","img","input","wbr","em"]
TEXTS = ["a", "<x>", "&amp;", " sp ", "\n", "a\nb", "", "é ", "]]>", "<!--", "&lt", '"q\'']
class R:
    def __init__(s,t): s.t=t
    def _repr_html_(s): return s.t
def rtree(d, valid=True, plain=False):
    k = random.random()
    if d<=0 or k<0.35:
        r = random.random()
        if plain or r<0.6: return random.choice(TEXTS) if random.random()<0.8 else random.choice([1,2.5,True])
        if r<0.75: return HTML(random.choice(["<b>r</b>","&raw;",""]))
        if r<0.9: return MetadataNode()
        return R("<r/>")
    blk = random.random()<0.5
    name = random.choice(BLOCK if blk else INL)
    n = random.choice([0,0,1,1,2,3,4])
    kids = [rtree(d-1, valid, plain) for _ in range(n)]
    at = {}
    for _ in range(random.choice([0,0,1,2,3])):
        at[random.choice(["id","class","data-x","x_y","z_"])] = random.choice(TEXTS+[True,None,False,3,HTML("&h;")])
    return Tag(name, *kids, at, _add_ws=blk)

# ---------- C01 parse-back with html.parser
class P(HTMLParser):
    def __init__(s): super().__init__(convert_charrefs=True); s.ev=[]
    def handle_starttag(s,t,a): s.ev.append(("S",t,a))
    def handle_startendtag(s,t,a): s.ev.append(("V",t,a))
    def handle_endtag(s,t): s.ev.append(("E",t))
    def handle_data(s,d): s.ev.append(("T",d))
def events(x):
    out=[]
    def go(n):
        if isinstance(n, Tag):
            kids=[k for k in n.children if not isinstance(k, MetadataNode)]
            at=[(k, str(v)) for k,v in n.attrs.items()]
            if not kids and n.name in _VOID_TAG_NAMES: out.append(("V",n.name,at)); return
            out.append(("S",n.name,at))
            for k in n.children: go(k)
            out.append(("E",n.name))
        elif isinstance(n,str): out.append(("T",n))
    go(x); return out
def norm(ev):
    res=[]
    for e in ev:
        if e[0]=="T" and res and res[-1][0]=="T": res[-1]=("T",res[-1][1]+e[1])
        else: res.append(e)
    return [e if e[0]!="T" else ("T", e[1].strip()) for e in res if not (e[0]=="T" and e[1].strip()=="")]
fails=0
for it in range(4000):
    t = rtree(4, plain=True)
    if not isinstance(t, Tag): continue
    # only plain str attrs for C01
    s = t.get_html_string(indent=random.choice([0,1,3]), eol=random.choice(["\n","\r\n","", " "]))
    p=P(); p.feed(s); p.close()
    if norm(p.ev)!=norm(events(t)):
        fails+=1
        if fails<4: print("C01 FAIL", repr(s), norm(p.ev), norm(events(t)))
print("C01 fails", fails)
