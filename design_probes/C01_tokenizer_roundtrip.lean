abbrev Str := List Nat

inductive Tok where
  | text : Str → Tok
  | opn : Str → List (Str × Str) → Tok      -- <name k="v" ...>
  | void : Str → List (Str × Str) → Tok     -- <name k="v" .../>
  | close : Str → Tok                        -- </name>
  | err : Tok
deriving DecidableEq, Repr

/-- longest prefix whose elements satisfy p, and the rest -/
def spanP (p : Nat → Bool) : Str → Str × Str
  | [] => ([], [])
  | x :: xs => if p x then ((x :: (spanP p xs).1), (spanP p xs).2) else ([], x :: xs)

theorem spanP_stop (p : Nat → Bool) (a : Str) (c : Nat) (b : Str) (ha : ∀ x ∈ a, p x = true) (hc : p c = false) :
    spanP p (a ++ c :: b) = (a, c :: b) := by
  induction a with
  | nil => simp [spanP, hc]
  | cons x xs ih =>
    have hx : p x = true := ha x (by simp)
    have := ih (fun y hy => ha y (by simp [hy]))
    simp [spanP, hx, this]

theorem spanP_len (p : Nat → Bool) (s : Str) : (spanP p s).2.length ≤ s.length := by
  induction s with
  | nil => simp [spanP]
  | cons x xs ih => simp only [spanP]; split <;> simp <;> omega

def attrStr : List (Str × Str) → Str
  | [] => []
  | (k, v) :: r => [32] ++ k ++ [61, 34] ++ v ++ [34] ++ attrStr r

def tokStr : Tok → Str
  | .text t => t
  | .opn n as => [60] ++ n ++ attrStr as ++ [62]
  | .void n as => [60] ++ n ++ attrStr as ++ [47, 62]
  | .close n => [60, 47] ++ n ++ [62]
  | .err => []

def flatten : List Tok → Str
  | [] => []
  | t :: r => tokStr t ++ flatten r

def nameCh (x : Nat) : Bool := x != 32 && x != 62 && x != 47     -- tag-name state ends at space, '>' or '/'
def akeyCh (x : Nat) : Bool := x != 61                             -- attribute name ends at '='
def avalCh (x : Nat) : Bool := x != 34                             -- double-quoted value ends at '"'
def textCh (x : Nat) : Bool := x != 60                             -- data state ends at '<'
def closeCh (x : Nat) : Bool := x != 62

/-- attributes: (" " key "=\"" value "\"")*  -/
def lexAttrs : Nat → Str → List (Str × Str) × Str
  | 0, s => ([], s)
  | f+1, 32 :: r =>
    let k := (spanP akeyCh r).1
    match (spanP akeyCh r).2 with
    | 61 :: 34 :: r2 =>
      let v := (spanP avalCh r2).1
      match (spanP avalCh r2).2 with
      | 34 :: r4 => ((k, v) :: (lexAttrs f r4).1, (lexAttrs f r4).2)
      | _ => ([], 32 :: r)
    | _ => ([], 32 :: r)
  | _, s => ([], s)

def lexOpen (nm : Str) (as : List (Str × Str)) (r2 : Str) (k : Str → List Tok) : List Tok :=
  match r2 with
  | 47 :: 62 :: r3 => .void nm as :: k r3
  | 62 :: r3 => .opn nm as :: k r3
  | _ => [.err]

def lexClose (nm : Str) (r : Str) (k : Str → List Tok) : List Tok :=
  match r with
  | 62 :: r' => .close nm :: k r'
  | _ => [.err]

def lexF : Nat → Str → List Tok
  | 0, _ => []
  | _, [] => []
  | f+1, x :: xs =>
    if x = 60 then
      if xs.head? = some 47 then
        lexClose (spanP closeCh xs.tail).1 (spanP closeCh xs.tail).2 (lexF f)
      else
        lexOpen (spanP nameCh xs).1 (lexAttrs f (spanP nameCh xs).2).1 (lexAttrs f (spanP nameCh xs).2).2 (lexF f)
    else .text (spanP textCh (x :: xs)).1 :: lexF f (spanP textCh (x :: xs)).2

#eval lexF 100 (flatten [.opn [100,105,118] [([105,100],[120])], .text [104,105], .void [98,114] [], .close [100,105,118]])

theorem spanP_all (p : Nat → Bool) (a : Str) (ha : ∀ x ∈ a, p x = true) : spanP p a = (a, []) := by
  induction a with
  | nil => simp [spanP]
  | cons x xs ih =>
    have hx : p x = true := ha x (by simp)
    have := ih (fun y hy => ha y (by simp [hy]))
    simp [spanP, hx, this]

def wfAttr (kv : Str × Str) : Prop := (∀ x ∈ kv.1, x ≠ 61) ∧ (∀ x ∈ kv.2, x ≠ 34)
def wfName (n : Str) : Prop := (∃ y n', n = y :: n' ∧ y ≠ 47) ∧ ∀ x ∈ n, nameCh x = true

def wfTok : Tok → Prop
  | .text t => t ≠ [] ∧ ∀ x ∈ t, x ≠ 60
  | .opn n as => wfName n ∧ ∀ kv ∈ as, wfAttr kv
  | .void n as => wfName n ∧ ∀ kv ∈ as, wfAttr kv
  | .close n => ∀ x ∈ n, x ≠ 62
  | .err => False

def isText : Tok → Bool | .text _ => true | _ => false

def noAdj : List Tok → Prop
  | [] => True
  | [_] => True
  | a :: b :: r => (isText a = true → isText b = false) ∧ noAdj (b :: r)

theorem lexAttrs_ok : (as : List (Str × Str)) → (∀ kv ∈ as, wfAttr kv) → (f : Nat) → as.length ≤ f →
    (rest : Str) → (∀ r, rest ≠ 32 :: r) → lexAttrs f (attrStr as ++ rest) = (as, rest)
  | [], _, f, _, rest, hr => by
    cases f with
    | zero => simp [lexAttrs, attrStr]
    | succ f =>
      simp only [attrStr, List.nil_append]
      cases rest with
      | nil => simp [lexAttrs]
      | cons x xs =>
        by_cases hx : x = 32
        · exact absurd (by rw [hx]) (hr xs)
        · unfold lexAttrs; split <;> simp_all
  | (k, v) :: as, hw, f, hf, rest, hr => by
    cases f with
    | zero => simp at hf
    | succ f =>
      have hkv := hw (k, v) (by simp)
      have ih := lexAttrs_ok as (fun kv h => hw kv (by simp [h])) f (by simp at hf; omega) rest hr
      have hk : spanP akeyCh (k ++ 61 :: (34 :: (v ++ 34 :: (attrStr as ++ rest)))) = (k, 61 :: (34 :: (v ++ 34 :: (attrStr as ++ rest)))) :=
        spanP_stop akeyCh k 61 _ (fun x hx => by simp [akeyCh, hkv.1 x hx]) (by simp [akeyCh])
      have hv : spanP avalCh (v ++ 34 :: (attrStr as ++ rest)) = (v, 34 :: (attrStr as ++ rest)) :=
        spanP_stop avalCh v 34 _ (fun x hx => by simp [avalCh, hkv.2 x hx]) (by simp [avalCh])
      simp only [attrStr, List.append_assoc, List.cons_append, List.nil_append, lexAttrs, hk, hv, ih]

theorem tokStr_nontext_head (t : Tok) (hw : wfTok t) (ht : isText t = false) : ∃ s, tokStr t = 60 :: s := by
  cases t with
  | text _ => simp [isText] at ht
  | opn n as => exact ⟨n ++ attrStr as ++ [62], by simp [tokStr]⟩
  | void n as => exact ⟨n ++ attrStr as ++ [47, 62], by simp [tokStr]⟩
  | close n => exact ⟨47 :: n ++ [62], by simp [tokStr]⟩
  | err => exact absurd hw (by simp [wfTok])

theorem tokStr_len_pos (t : Tok) (hw : wfTok t) : 0 < (tokStr t).length := by
  cases t with
  | text s => cases s with
    | nil => simp [wfTok] at hw
    | cons _ _ => simp [tokStr]
  | opn n as => simp [tokStr]
  | void n as => simp [tokStr]
  | close n => simp [tokStr]
  | err => exact absurd hw (by simp [wfTok])

/-- what follows a text token is either the end or a '<' -/
theorem after_text (r : List Tok) (hw : ∀ t ∈ r, wfTok t) (h : ∀ b r', r = b :: r' → isText b = false) :
    flatten r = [] ∨ ∃ s, flatten r = 60 :: s := by
  cases r with
  | nil => left; simp [flatten]
  | cons b r' =>
    right
    obtain ⟨s, hs⟩ := tokStr_nontext_head b (hw b (by simp)) (h b r' rfl)
    exact ⟨s ++ flatten r', by simp [flatten, hs]⟩

theorem lexF_text (f : Nat) (x : Nat) (xs : Str) (hx : x ≠ 60) :
    lexF (f+1) (x :: xs) = .text (spanP textCh (x :: xs)).1 :: lexF f (spanP textCh (x :: xs)).2 := by
  rw [lexF]; simp [hx]

theorem lexF_close (f : Nat) (rest : Str) :
    lexF (f+1) (60 :: 47 :: rest) = lexClose (spanP closeCh rest).1 (spanP closeCh rest).2 (lexF f) := by
  rw [lexF]; simp

theorem lexF_open (f : Nat) (y : Nat) (rest : Str) (hy : y ≠ 47) :
    lexF (f+1) (60 :: y :: rest) =
      lexOpen (spanP nameCh (y :: rest)).1 (lexAttrs f (spanP nameCh (y :: rest)).2).1
        (lexAttrs f (spanP nameCh (y :: rest)).2).2 (lexF f) := by
  rw [lexF]; simp [hy]

theorem nameCh_stop32 : nameCh 32 = false := by decide
theorem nameCh_stop62 : nameCh 62 = false := by decide
theorem nameCh_stop47 : nameCh 47 = false := by decide

/-- after the tag name comes a space (attributes), '>' or '/' -/
theorem span_name (n : Str) (as : List (Str × Str)) (tail : Str) (c : Nat) (hn : ∀ x ∈ n, nameCh x = true)
    (hc : nameCh c = false) :
    spanP nameCh (n ++ (attrStr as ++ c :: tail)) = (n, attrStr as ++ c :: tail) := by
  cases as with
  | nil => simpa [attrStr] using spanP_stop nameCh n c tail hn hc
  | cons kv as =>
    obtain ⟨k, v⟩ := kv
    have := spanP_stop nameCh n 32 (k ++ [61, 34] ++ v ++ [34] ++ attrStr as ++ c :: tail) hn nameCh_stop32
    simpa [attrStr, List.append_assoc] using this

theorem attrStr_len : (as : List (Str × Str)) → as.length ≤ (attrStr as).length
  | [] => by simp
  | (k, v) :: as => by have := attrStr_len as; simp [attrStr]; omega

theorem lex_flatten : (ts : List Tok) → (∀ t ∈ ts, wfTok t) → noAdj ts →
    (f : Nat) → (flatten ts).length ≤ f → lexF f (flatten ts) = ts
  | [], _, _, f, _ => by cases f <;> simp [flatten, lexF]
  | t :: r, hw, hadj, f, hf => by
    have hwt := hw t (by simp)
    have hwr : ∀ t ∈ r, wfTok t := fun t h => hw t (by simp [h])
    have hadjr : noAdj r := by
      cases r with
      | nil => simp [noAdj]
      | cons b r' => exact hadj.2
    have hpos := tokStr_len_pos t hwt
    simp only [flatten, List.length_append] at hf
    cases f with
    | zero => omega
    | succ f =>
      have ih := lex_flatten r hwr hadjr f (by omega)
      cases t with
      | err => exact absurd hwt (by simp [wfTok])
      | close n =>
        have hsp : spanP closeCh (n ++ 62 :: flatten r) = (n, 62 :: flatten r) :=
          spanP_stop closeCh n 62 _ (fun x hx => by simp [closeCh, hwt x hx]) (by simp [closeCh])
        simp only [flatten, tokStr, List.cons_append, List.nil_append, List.append_assoc]
        rw [lexF_close, hsp]; simp [lexClose, ih]
      | text s =>
        obtain ⟨hne, hs⟩ := hwt
        cases s with
        | nil => exact absurd rfl hne
        | cons x xs =>
          have hx : x ≠ 60 := hs x (by simp)
          have hafter := after_text r hwr (fun b r' hr => by
            subst hr
            cases hb : isText b with
            | false => rfl
            | true => have := hadj.1 rfl; simp [hb] at this)
          have hsp : spanP textCh ((x :: xs) ++ flatten r) = (x :: xs, flatten r) := by
            cases hafter with
            | inl h0 => rw [h0, List.append_nil]; exact spanP_all textCh _ (fun y hy => by simp [textCh, hs y hy])
            | inr h1 =>
              obtain ⟨s', hs'⟩ := h1
              rw [hs']; exact spanP_stop textCh _ 60 s' (fun y hy => by simp [textCh, hs y hy]) (by simp [textCh])
          simp only [flatten, tokStr]
          simp only [List.cons_append] at hsp ⊢
          rw [lexF_text f x _ hx, hsp]; simp [ih]
      | opn n as =>
        obtain ⟨⟨⟨y, n', hn, hy⟩, hnc⟩, hwa⟩ := hwt
        have hsp := span_name n as (flatten r) 62 hnc nameCh_stop62
        have hla := lexAttrs_ok as hwa f (by
            simp only [tokStr, List.length_append, List.length_cons] at hf
            have := attrStr_len as
            omega) (62 :: flatten r) (by simp)
        simp only [flatten, tokStr, List.cons_append, List.nil_append, List.append_assoc] at hsp ⊢
        subst hn
        simp only [List.cons_append] at hsp ⊢
        rw [lexF_open f y _ hy, hsp]; simp only []
        rw [hla]; simp [lexOpen, ih]
      | void n as =>
        obtain ⟨⟨⟨y, n', hn, hy⟩, hnc⟩, hwa⟩ := hwt
        have hsp := span_name n as (62 :: flatten r) 47 hnc nameCh_stop47
        have hla := lexAttrs_ok as hwa f (by
            simp only [tokStr, List.length_append, List.length_cons] at hf
            have := attrStr_len as
            omega) (47 :: 62 :: flatten r) (by simp)
        simp only [flatten, tokStr, List.cons_append, List.nil_append, List.append_assoc] at hsp ⊢
        subst hn
        simp only [List.cons_append] at hsp ⊢
        rw [lexF_open f y _ hy, hsp]; simp only []
        rw [hla]; simp [lexOpen, ih]
#print axioms lex_flatten
