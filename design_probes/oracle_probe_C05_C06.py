import random, sys
import htmltools
from htmltools import *
from htmltools import tags, svg
from htmltools._core import _VOID_TAG_NAMES
exec(open("rnd.py").read().split("# ---------- C01 parse-back")[0].split("# ---------- random trees")[1])
from htmltools._core import _NO_ESCAPE_TAG_NAMES
from htmltools._util import html_escape
random.seed(int(sys.argv[1]) if len(sys.argv)>1 else 0)
def esc(s): return s.replace("&","&amp;").replace("<","&lt;").replace(">","&gt;")
def esca(s): return esc(s).replace('"',"&quot;").replace("'","&apos;").replace("\r","&#13;").replace("\n","&#10;")
def opent(t): return "<"+t.name+"".join(f' {k}="{v if isinstance(v,HTML) else esca(v)}"' for k,v in t.attrs.items())
def kids(t): return [k for k in t.children if not isinstance(k, MetadataNode)]
def flat(n):
    if isinstance(n, Tag):
        ks = kids(n)
        if not ks and n.name in _VOID_TAG_NAMES: return opent(n)+"/>"
        return opent(n)+">"+"".join(flat(k) for k in ks)+"</"+n.name+">"
    if isinstance(n, HTML): return str(n)
    if isinstance(n, str): return esc(n)
    return n._repr_html_()
def isblock(n): return isinstance(n, Tag) and n.add_ws
def valid(n):  # inline tags contain no block tags
    if not isinstance(n, Tag): return True
    ks = kids(n)
    if not n.add_ws and any(hasblock(k) for k in ks): return False
    return all(valid(k) for k in ks)
def hasblock(n): return isinstance(n, Tag) and (n.add_ws or any(hasblock(k) for k in kids(n)))
def sib_lines(ks, lvl):
    out=[]; run=[]
    for k in ks:
        if isblock(k):
            if run: out.append("  "*lvl+"".join(flat(r) for r in run)); run=[]
            out += lines(k, lvl)
        else: run.append(k)
    if run: out.append("  "*lvl+"".join(flat(r) for r in run))
    return out
def lines(t, lvl):
    ks = kids(t); I="  "*lvl
    if not t.add_ws: return [I+flat(t)]
    if not ks or (len(ks)==1 and isinstance(ks[0], (str, HTML))): return [I+flat(t)]
    return [I+opent(t)+">"] + sib_lines(ks, lvl+1) + [I+"</"+t.name+">"]
f6=0; n6=0
for it in range(20000):
    t = rtree(4)
    if not isinstance(t, Tag) or not valid(t): continue
    n6+=1
    ind=random.choice([0,1,2,5]); eol=random.choice(["\n","\r\n","<EOL>",""])
    got=t.get_html_string(indent=ind, eol=eol); exp=eol.join(lines(t, ind))
    if got!=exp:
        f6+=1
        if f6<4: print("C06 FAIL\n", repr(got), "\n", repr(exp))
print("C06 valid trees", n6, "fails", f6)
# top-level TagList sibling rule
f6b=0
for it in range(5000):
    ks=[rtree(3) for _ in range(random.choice([0,1,2,3,4]))]
    tl=TagList(*ks)
    if not all(valid(k) for k in tl): continue
    ind=random.choice([0,1,2]); eol="\n"
    got=tl.get_html_string(indent=ind, eol=eol); exp=eol.join(sib_lines(kids_:=[k for k in tl if not isinstance(k,MetadataNode)], ind))
    if got!=exp:
        f6b+=1
        if f6b<4: print("C06b FAIL\n", repr(got), "\n", repr(exp), [type(k).__name__ for k in tl])
print("C06b fails", f6b)
# C05: all-inline subtree flat & contiguous anywhere
def allinline(n): return (not isinstance(n,Tag)) or (not n.add_ws and all(allinline(k) for k in kids(n)))
f5=0;n5=0
def subs(n):
    yield n
    if isinstance(n,Tag):
        for k in kids(n): yield from subs(k)
for it in range(6000):
    t = rtree(4)
    if not isinstance(t, Tag): continue
    s=t.get_html_string(indent=random.choice([0,2]), eol=random.choice(["\n","@@"]))
    for u in subs(t):
        if isinstance(u,Tag) and allinline(u):
            n5+=1
            if flat(u) not in s: f5+=1; print("C05 FAIL", repr(s), repr(flat(u)))
    # adjacent inline siblings
print("C05 checked", n5, "fails", f5)
