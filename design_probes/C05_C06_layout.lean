abbrev Str := List Nat

mutual
inductive Node where
  | txt : Str → Node
  | raw  : Str → Node
  | md : Node
  | rp : Str → Node
  | el   : Str → Bool → Str → NodeList → Node
inductive NodeList where
  | nil : NodeList
  | cons : Node → NodeList → NodeList
end
open Node NodeList

structure St where
  html : Str
  first : Bool
  prev : Bool

def ind : Nat → Str
  | 0 => []
  | n+1 => [32,32] ++ ind n

def isMeta : Node → Bool | .md => true | _ => false
def isWs : Node → Bool | .el _ ws _ _ => ws | _ => false

def nonMeta : NodeList → NodeList
  | .nil => .nil
  | .cons c r => if isMeta c then nonMeta r else .cons c (nonMeta r)

def closeT (n : Str) : Str := [60,47] ++ n ++ [62]

structure Cfg where
  esc : Str → Str
  isVoid : Str → Bool
  noEsc : Str → Bool

/-- non-recursive frame of Tag.get_html_string; `inner` is the rendering of the child list -/
def tagFrame (cfg : Cfg) (n : Str) (ws : Bool) (attrs : Str) (ks : NodeList) (inner : Str) (i : Nat) (eol : Str) : Str :=
  let open_ := ind i ++ [60] ++ n ++ attrs
  match ks with
  | .nil => if cfg.isVoid n then open_ ++ [47,62] else open_ ++ [62] ++ closeT n
  | .cons (.txt s) .nil => open_ ++ [62] ++ (if cfg.noEsc n then s else cfg.esc s) ++ closeT n
  | .cons (.raw s) .nil => open_ ++ [62] ++ s ++ closeT n
  | _ => open_ ++ [62] ++ (if ws then eol else []) ++ inner ++ (if ws then eol ++ ind i else []) ++ closeT n

/-- non-recursive loop body of TagList.get_html_string; rtI / rt0 are the child's renderings at (i,eol) and (0,"") -/
def step (cfg : Cfg) (st : St) (c : Node) (rtI rt0 : Str) (i : Nat) (eol : Str) (e : Bool) : St :=
  let sep (p : Bool) : Str := if st.first then [] else if p then eol else []
  match c with
  | .md => st
  | .el _ ws _ _ => let p := st.prev || ws; ⟨st.html ++ sep p ++ (if p then rtI else rt0), false, ws⟩
  | .rp s => ⟨st.html ++ sep st.prev ++ (if st.prev then ind i else []) ++ s, false, false⟩
  | .raw s => ⟨st.html ++ sep st.prev ++ (if st.prev then ind i else []) ++ s, false, false⟩
  | .txt s => ⟨st.html ++ sep st.prev ++ (if st.prev then ind i else []) ++ (if e then cfg.esc s else s), false, false⟩

mutual
def rtag (cfg : Cfg) : Node → Nat → Str → Str
  | .el n ws attrs kids, i, eol =>
      tagFrame cfg n ws attrs (nonMeta kids) (rlist cfg kids ⟨[], true, ws⟩ (i+1) eol (!cfg.noEsc n)).html i eol
  | _, _, _ => []
def rlist (cfg : Cfg) : NodeList → St → Nat → Str → Bool → St
  | .nil, st, _, _, _ => st
  | .cons c r, st, i, eol, e => rlist cfg r (step cfg st c (rtag cfg c i eol) (rtag cfg c 0 []) i eol e) i eol e
end


theorem rlist_nil (cfg) (st : St) (i : Nat) (eol : Str) (e : Bool) : rlist cfg .nil st i eol e = st := by rw [rlist]
theorem rlist_cons (cfg) (c r) (st : St) (i : Nat) (eol : Str) (e : Bool) :
  rlist cfg (.cons c r) st i eol e = rlist cfg r (step cfg st c (rtag cfg c i eol) (rtag cfg c 0 []) i eol e) i eol e := by rw [rlist]
theorem rtag_el (cfg) (n ws attrs kids) (i : Nat) (eol : Str) :
  rtag cfg (.el n ws attrs kids) i eol =
    tagFrame cfg n ws attrs (nonMeta kids) (rlist cfg kids ⟨[], true, ws⟩ (i+1) eol (!cfg.noEsc n)).html i eol := by rw [rtag]

/-! ## declarative side -/
def opn (n attrs : Str) : Str := [60] ++ n ++ attrs

/-- content of an element given the flat rendering of its children -/
def flatFrame (cfg : Cfg) (n attrs : Str) (ks : NodeList) (inner : Str) : Str :=
  match ks with
  | .nil => if cfg.isVoid n then opn n attrs ++ [47,62] else opn n attrs ++ [62] ++ closeT n
  | _ => opn n attrs ++ [62] ++ inner ++ closeT n

mutual
def flat (cfg : Cfg) : Bool → Node → Str
  | e, .txt s => if e then cfg.esc s else s
  | _, .raw s => s
  | _, .rp s => s
  | _, .md => []
  | _, .el n _ a kids => flatFrame cfg n a (nonMeta kids) (flatL cfg (!cfg.noEsc n) kids)
def flatL (cfg : Cfg) : Bool → NodeList → Str
  | _, .nil => []
  | e, .cons c r => flat cfg e c ++ flatL cfg e r
end

mutual
def allInline : Node → Bool
  | .el _ ws _ kids => !ws && allInlineL kids
  | _ => true
def allInlineL : NodeList → Bool
  | .nil => true
  | .cons c r => allInline c && allInlineL r
end

theorem flat_el (cfg e n ws a kids) : flat cfg e (.el n ws a kids) = flatFrame cfg n a (nonMeta kids) (flatL cfg (!cfg.noEsc n) kids) := by rw [flat]
theorem flatL_cons (cfg e c r) : flatL cfg e (.cons c r) = flat cfg e c ++ flatL cfg e r := by rw [flatL]
theorem flatL_nil (cfg e) : flatL cfg e .nil = [] := by rw [flatL]


def isElB : Node → Bool | .el _ _ _ _ => true | _ => false

theorem flatL_nonMeta (cfg : Cfg) (e : Bool) : (l : NodeList) → flatL cfg e (nonMeta l) = flatL cfg e l
  | .nil => by simp [nonMeta]
  | .cons c r => by
    have ih := flatL_nonMeta cfg e r
    simp only [nonMeta]
    split
    · rename_i h
      have : c = .md := by cases c <;> simp_all [isMeta]
      subst this; simp [flatL_cons, flat, ih]
    · simp [flatL_cons, ih]

theorem allInlineL_nonMeta : (l : NodeList) → allInlineL l = true → allInlineL (nonMeta l) = true
  | .nil, _ => by simp [nonMeta, allInlineL]
  | .cons c r, h => by
    simp only [allInlineL, Bool.and_eq_true] at h
    have ih := allInlineL_nonMeta r h.2
    simp only [nonMeta]; split
    · exact ih
    · simp [allInlineL, h.1, ih]

theorem tagFrame_inline (cfg : Cfg) (n a : Str) (ks : NodeList) (i : Nat) (eol : Str) :
    tagFrame cfg n false a ks (flatL cfg (!cfg.noEsc n) ks) i eol = ind i ++ flatFrame cfg n a ks (flatL cfg (!cfg.noEsc n) ks) := by
  cases ks with
  | nil => simp only [tagFrame, flatFrame, opn]; split <;> simp [List.append_assoc]
  | cons c r =>
    cases r with
    | nil =>
      cases c <;> simp [tagFrame, flatFrame, opn, flatL_cons, flatL_nil, flat, List.append_assoc]
      cases cfg.noEsc n <;> simp
    | cons c2 r2 =>
      cases c <;> simp [tagFrame, flatFrame, opn, List.append_assoc]

mutual
theorem flat_inline_tag (cfg : Cfg) : (t : Node) → (i : Nat) → (eol : Str) →
    isElB t = true → allInline t = true → rtag cfg t i eol = ind i ++ flat cfg true t
  | .el n ws a kids, i, eol, _, h => by
    simp only [allInline, Bool.and_eq_true, Bool.not_eq_true'] at h
    obtain ⟨hws, hk⟩ := h
    subst hws
    have hl := flat_inline_list cfg kids ⟨[], true, false⟩ (i+1) eol (!cfg.noEsc n) hk rfl
    rw [rtag_el, hl, flat_el]
    simp only [List.nil_append]
    rw [← flatL_nonMeta cfg _ kids]
    exact tagFrame_inline cfg n a (nonMeta kids) i eol
  | .txt _, _, _, h, _ => by simp [isElB] at h
  | .raw _, _, _, h, _ => by simp [isElB] at h
  | .rp _, _, _, h, _ => by simp [isElB] at h
  | .md, _, _, h, _ => by simp [isElB] at h
theorem flat_inline_list (cfg : Cfg) : (l : NodeList) → (st : St) → (i : Nat) → (eol : Str) → (e : Bool) →
    allInlineL l = true → st.prev = false → (rlist cfg l st i eol e).html = st.html ++ flatL cfg e l
  | .nil, st, i, eol, e, _, _ => by simp [rlist_nil, flatL_nil]
  | .cons c r, st, i, eol, e, h, hp => by
    simp only [allInlineL, Bool.and_eq_true] at h
    rw [rlist_cons, flatL_cons]
    match c, h with
    | .md, h =>
      simp only [step]
      rw [flat_inline_list cfg r st i eol e h.2 hp]; simp [flat]
    | .txt s, h =>
      rw [flat_inline_list cfg r _ i eol e h.2 (by simp [step])]
      simp [step, hp, flat, List.append_assoc]
    | .raw s, h =>
      rw [flat_inline_list cfg r _ i eol e h.2 (by simp [step])]
      simp [step, hp, flat, List.append_assoc]
    | .rp s, h =>
      rw [flat_inline_list cfg r _ i eol e h.2 (by simp [step])]
      simp [step, hp, flat, List.append_assoc]
    | .el n ws a kids, h =>
      have hws : ws = false := by
        have := h.1; simp only [allInline, Bool.and_eq_true, Bool.not_eq_true'] at this; exact this.1
      have ht := flat_inline_tag cfg (.el n ws a kids) 0 [] rfl h.1
      rw [flat_inline_list cfg r _ i eol e h.2 (by simp [step, hws])]
      simp only [ind, List.nil_append] at ht
      rw [hws] at ht
      simp [step, hp, hws, List.append_assoc]
      rw [ht, flat_el, flat_el]
end

/-! ## C06: declarative line layout -/
def joinL (eol : Str) : List Str → Str
  | [] => []
  | [x] => x
  | x :: y :: r => x ++ eol ++ joinL eol (y :: r)

def isBlock : Node → Bool | .el _ ws _ _ => ws | _ => false

mutual
def valid : Node → Bool
  | .el _ ws _ kids => (ws || allInlineL kids) && validL kids
  | _ => true
def validL : NodeList → Bool
  | .nil => true
  | .cons c r => valid c && validL r
end

def linesFrame (n : Str) (ws : Bool) (a : Str) (ks : NodeList) (flatSelf : Str) (sib : List Str) (k : Nat) : List Str :=
  if ws then
    match ks with
    | .nil => [ind k ++ flatSelf]
    | .cons (.txt _) .nil => [ind k ++ flatSelf]
    | .cons (.raw _) .nil => [ind k ++ flatSelf]
    | _ => [ind k ++ opn n a ++ [62]] ++ sib ++ [ind k ++ closeT n]
  else [ind k ++ flatSelf]

def optL : Option Str → List Str | none => [] | some r => [r]

mutual
def lines (cfg : Cfg) : Node → Nat → List Str
  | .el n ws a kids, k =>
      linesFrame n ws a (nonMeta kids) (flatFrame cfg n a (nonMeta kids) (flatL cfg (!cfg.noEsc n) kids))
        (sibLines cfg (!cfg.noEsc n) kids (k+1) none) k
  | _, _ => []
def sibLines (cfg : Cfg) : Bool → NodeList → Nat → Option Str → List Str
  | _, .nil, _, run => optL run
  | e, .cons c rest, k, run =>
    if isMeta c then sibLines cfg e rest k run
    else if isBlock c then optL run ++ lines cfg c k ++ sibLines cfg e rest k none
    else sibLines cfg e rest k (some (run.getD (ind k) ++ flat cfg e c))
end

theorem lines_el (cfg n ws a kids k) : lines cfg (.el n ws a kids) k =
   linesFrame n ws a (nonMeta kids) (flatFrame cfg n a (nonMeta kids) (flatL cfg (!cfg.noEsc n) kids))
        (sibLines cfg (!cfg.noEsc n) kids (k+1) none) k := by rw [lines]
theorem sibLines_nil (cfg e k run) : sibLines cfg e .nil k run = optL run := by rw [sibLines]
theorem sibLines_cons (cfg e c rest k run) : sibLines cfg e (.cons c rest) k run =
    (if isMeta c then sibLines cfg e rest k run
    else if isBlock c then optL run ++ lines cfg c k ++ sibLines cfg e rest k none
    else sibLines cfg e rest k (some (run.getD (ind k) ++ flat cfg e c))) := by rw [sibLines]

/-! ### joinL lemmas -/
theorem joinL_append' (eol : Str) : (a b : List Str) → b ≠ [] →
    joinL eol (a ++ b) = joinL eol a ++ (if a.isEmpty then [] else eol) ++ joinL eol b
  | [], b, _ => by simp [joinL]
  | [x], b, hb => by
    cases b with
    | nil => exact absurd rfl hb
    | cons y r => simp [joinL, List.append_assoc]
  | x :: y :: r, b, hb => by
    have ih := joinL_append' eol (y :: r) b hb
    simp only [List.cons_append] at ih ⊢
    simp [joinL, ih, List.append_assoc]

theorem joinL_snoc_append (eol : Str) : (ls : List Str) → (r x : Str) →
    joinL eol (ls ++ [r ++ x]) = joinL eol (ls ++ [r]) ++ x
  | [], r, x => by simp [joinL]
  | [y], r, x => by simp [joinL, List.append_assoc]
  | y :: z :: t, r, x => by
    have ih := joinL_snoc_append eol (z :: t) r x
    simp only [List.cons_append] at ih ⊢
    simp [joinL, ih, List.append_assoc]

/-! ### frames -/
def isSimple : NodeList → Bool
  | .nil => true
  | .cons (.txt _) .nil => true
  | .cons (.raw _) .nil => true
  | _ => false

theorem tagFrame_simple (cfg : Cfg) (n : Str) (ws : Bool) (a : Str) (ks : NodeList) (inner : Str) (i : Nat) (eol : Str)
    (h : isSimple ks = true) :
    tagFrame cfg n ws a ks inner i eol = ind i ++ flatFrame cfg n a ks (flatL cfg (!cfg.noEsc n) ks) := by
  cases ks with
  | nil => simp only [tagFrame, flatFrame, opn]; split <;> simp [List.append_assoc]
  | cons c r =>
    cases r with
    | nil =>
      cases c <;> simp_all [isSimple, tagFrame, flatFrame, opn, flatL_cons, flatL_nil, flat, List.append_assoc]
      cases cfg.noEsc n <;> simp
    | cons c2 r2 => cases c <;> simp [isSimple] at h

theorem tagFrame_general (cfg : Cfg) (n : Str) (ws : Bool) (a : Str) (ks : NodeList) (inner : Str) (i : Nat) (eol : Str)
    (h : isSimple ks = false) :
    tagFrame cfg n ws a ks inner i eol =
      ind i ++ opn n a ++ [62] ++ (if ws then eol else []) ++ inner ++ (if ws then eol ++ ind i else []) ++ closeT n := by
  cases ks with
  | nil => simp [isSimple] at h
  | cons c r =>
    cases r with
    | nil => cases c <;> simp_all [isSimple, tagFrame, opn, List.append_assoc]
    | cons c2 r2 => cases c <;> simp [tagFrame, opn, List.append_assoc]

theorem linesFrame_simple (n : Str) (ws : Bool) (a : Str) (ks : NodeList) (f : Str) (sib : List Str) (k : Nat)
    (h : isSimple ks = true) : linesFrame n ws a ks f sib k = [ind k ++ f] := by
  cases ws <;> simp only [linesFrame] <;> try rfl
  cases ks with
  | nil => simp
  | cons c r =>
    cases r with
    | nil => cases c <;> simp_all [isSimple]
    | cons c2 r2 => cases c <;> simp [isSimple] at h

theorem linesFrame_general (n : Str) (a : Str) (ks : NodeList) (f : Str) (sib : List Str) (k : Nat)
    (h : isSimple ks = false) :
    linesFrame n true a ks f sib k = [ind k ++ opn n a ++ [62]] ++ sib ++ [ind k ++ closeT n] := by
  simp only [linesFrame]
  cases ks with
  | nil => simp [isSimple] at h
  | cons c r =>
    cases r with
    | nil => cases c <;> simp_all [isSimple]
    | cons c2 r2 => cases c <;> simp

theorem lines_ne (cfg : Cfg) (n ws a kids k) : lines cfg (.el n ws a kids) k ≠ [] := by
  rw [lines_el]; unfold linesFrame
  split
  · split <;> simp
  · simp

theorem optL_ne (r : Str) : optL (some r) ≠ [] := by simp [optL]

theorem sibLines_ne (cfg : Cfg) (e : Bool) : (l : NodeList) → (k : Nat) → (run : Option Str) →
    (run.isSome = true ∨ nonMeta l ≠ .nil) → sibLines cfg e l k run ≠ []
  | .nil, k, run, h => by
    rw [sibLines_nil]
    cases run with
    | none => simp [nonMeta] at h
    | some r => simp [optL]
  | .cons c rest, k, run, h => by
    rw [sibLines_cons]
    split
    · rename_i hm
      apply sibLines_ne cfg e rest k run
      cases h with
      | inl h => exact Or.inl h
      | inr h => right; simpa [nonMeta, hm] using h
    · split
      · rename_i _ hb
        cases c with
        | el n ws a kids =>
          have := lines_ne cfg n ws a kids k
          intro h1
          simp only [List.append_eq_nil_iff] at h1
          exact this h1.1.2
        | txt _ => simp [isBlock] at hb
        | raw _ => simp [isBlock] at hb
        | rp _ => simp [isBlock] at hb
        | md => simp [isBlock] at hb
      · exact sibLines_ne cfg e rest k _ (Or.inl rfl)

structure LInv (eol H : Str) (st : St) (done : List Str) (run : Option Str) : Prop where
  html_eq : st.html = H ++ joinL eol (done ++ optL run)
  first_eq : st.first = (done.isEmpty && run.isNone)
  prev_eq : st.prev = run.isNone

/-- one inline (non-block, non-metadata) item with flat rendering `piece`:
    the new state after appending `sep ++ lead ++ piece` satisfies LInv with the extended run -/
theorem inv_inline (eol H : Str) (st : St) (done : List Str) (run : Option Str) (k : Nat) (piece : Str)
    (h : LInv eol H st done run) :
    LInv eol H
      ⟨st.html ++ (if st.first then [] else if st.prev then eol else []) ++ (if st.prev then ind k else []) ++ piece, false, false⟩
      done (some (run.getD (ind k) ++ piece)) := by
  obtain ⟨h1, h2, h3⟩ := h
  refine ⟨?_, by simp, by simp⟩
  cases run with
  | none =>
    simp only [Option.isNone_none, Bool.and_true] at h2 h3
    simp only [h1, h2, h3, optL, List.append_nil, Option.getD_none, if_true]
    rw [joinL_append' eol done [ind k ++ piece] (by simp)]
    cases done <;> simp [joinL, List.append_assoc]
  | some r =>
    simp only [Option.isNone_some, Bool.and_false] at h2 h3
    simp only [h1, h2, h3, optL, Option.getD_some]
    rw [joinL_snoc_append]; simp [List.append_assoc]

mutual
theorem layout_tag (cfg : Cfg) : (t : Node) → (k : Nat) → (eol : Str) →
    isElB t = true → valid t = true → rtag cfg t k eol = joinL eol (lines cfg t k)
  | .el n ws a kids, k, eol, _, hv => by
    simp only [valid, Bool.and_eq_true, Bool.or_eq_true] at hv
    obtain ⟨hws, hk⟩ := hv
    cases ws with
    | false =>
      have hin : allInline (.el n false a kids) = true := by
        simp only [allInline, Bool.not_false, Bool.true_and]; simpa using hws
      rw [flat_inline_tag cfg _ k eol rfl hin, lines_el, flat_el]
      simp [linesFrame, joinL]
    | true =>
      rw [rtag_el, lines_el]
      cases hs : isSimple (nonMeta kids) with
      | true =>
        rw [tagFrame_simple cfg n true a _ _ k eol hs, linesFrame_simple n true a _ _ _ k hs, flatL_nonMeta]
        simp [joinL]
      | false =>
        have hl := layout_list cfg kids ⟨[], true, true⟩ (k+1) eol (!cfg.noEsc n) [] [] none hk
          ⟨by simp [optL, joinL], by simp, by simp⟩
        have hne : sibLines cfg (!cfg.noEsc n) kids (k+1) none ≠ [] := by
          apply sibLines_ne; right; intro h0; rw [h0] at hs; simp [isSimple] at hs
        rw [tagFrame_general cfg n true a _ _ k eol hs, linesFrame_general n a _ _ _ k hs, hl]
        simp only [List.nil_append, if_true]
        rw [joinL_append' eol _ _ (by simp), joinL_append' eol [_] _ hne]
        simp [joinL, List.append_assoc]
  | .txt _, _, _, h, _ => by simp [isElB] at h
  | .raw _, _, _, h, _ => by simp [isElB] at h
  | .rp _, _, _, h, _ => by simp [isElB] at h
  | .md, _, _, h, _ => by simp [isElB] at h
theorem layout_list (cfg : Cfg) : (l : NodeList) → (st : St) → (k : Nat) → (eol : Str) → (e : Bool) →
    (H : Str) → (done : List Str) → (run : Option Str) → validL l = true → LInv eol H st done run →
    (rlist cfg l st k eol e).html = H ++ joinL eol (done ++ sibLines cfg e l k run)
  | .nil, st, k, eol, e, H, done, run, _, hi => by
    rw [rlist_nil, sibLines_nil]; exact hi.html_eq
  | .cons c rest, st, k, eol, e, H, done, run, hv, hi => by
    simp only [validL, Bool.and_eq_true] at hv
    rw [rlist_cons, sibLines_cons]
    match c, hv with
    | .md, hv =>
      simp only [step, isMeta, if_true]
      exact layout_list cfg rest st k eol e H done run hv.2 hi
    | .txt s, hv =>
      simp only [step, isMeta, isBlock, flat]
      exact layout_list cfg rest _ k eol e H done _ hv.2 (inv_inline eol H st done run k _ hi)
    | .raw s, hv =>
      simp only [step, isMeta, isBlock, flat]
      exact layout_list cfg rest _ k eol e H done _ hv.2 (inv_inline eol H st done run k _ hi)
    | .rp s, hv =>
      simp only [step, isMeta, isBlock, flat]
      exact layout_list cfg rest _ k eol e H done _ hv.2 (inv_inline eol H st done run k _ hi)
    | .el n ws a kids, hv =>
      have ht := layout_tag cfg (.el n ws a kids) k eol rfl hv.1
      have hvc := hv.1
      simp only [valid, Bool.and_eq_true, Bool.or_eq_true] at hvc
      cases ws with
      | true =>
        simp only [step, isMeta, isBlock, Bool.or_true, if_true, Bool.false_eq_true, if_false]
        have hne := lines_ne cfg n true a kids k
        have hinv : LInv eol H ⟨st.html ++ (if st.first then [] else eol) ++ rtag cfg (.el n true a kids) k eol, false, true⟩
            (done ++ optL run ++ lines cfg (.el n true a kids) k) none := by
          refine ⟨?_, ?_, by simp⟩
          · rw [ht, hi.html_eq, hi.first_eq]
            simp only [show optL (none : Option Str) = [] from rfl, List.append_nil]
            rw [joinL_append' eol (done ++ optL run) _ hne]
            cases run <;> cases done <;> simp [optL, List.append_assoc]
          · cases hl : lines cfg (.el n true a kids) k with
            | nil => exact absurd hl hne
            | cons x xs => simp
        have := layout_list cfg rest _ k eol e H _ none hv.2 hinv
        rw [this]; simp [List.append_assoc]
      | false =>
        have hin : allInline (.el n false a kids) = true := by
          simp only [allInline, Bool.not_false, Bool.true_and]; simpa using hvc.1
        have h0 := flat_inline_tag cfg (.el n false a kids) 0 [] rfl hin
        have hk := flat_inline_tag cfg (.el n false a kids) k eol rfl hin
        simp only [ind, List.nil_append] at h0
        have hinv := inv_inline eol H st done run k (flat cfg e (.el n false a kids)) hi
        have hst : step cfg st (.el n false a kids) (rtag cfg (.el n false a kids) k eol) (rtag cfg (.el n false a kids) 0 []) k eol e
            = ⟨st.html ++ (if st.first then [] else if st.prev then eol else []) ++ (if st.prev then ind k else []) ++ flat cfg e (.el n false a kids), false, false⟩ := by
          simp only [step, Bool.or_false, h0, hk, flat_el]
          cases st.prev <;> simp [List.append_assoc]
        simp only [isMeta, isBlock, Bool.false_eq_true, if_false]
        rw [hst]
        exact layout_list cfg rest _ k eol e H done _ hv.2 hinv
end
#print axioms layout_tag
