/-! C10: _resolve_dependencies as a fold over an insertion-ordered dict (overwrite keeps position). -/
structure Dep where
  name : Nat          -- abstract name
  ver  : Nat          -- stand-in for packaging.Version: only a strict order `>` is used
  tag  : Nat          -- identity / remaining content
deriving DecidableEq, Repr

abbrev OMap := List (Nat × Dep)     -- Python dict: insertion ordered, unique keys

/-- `if name not in map: map[name] = dep  elif dep.version > map[name].version: map[name] = dep` -/
def upd : OMap → Dep → OMap
  | [], d => [(d.name, d)]
  | (k, e) :: r, d => if k = d.name then (if d.ver > e.ver then (k, d) :: r else (k, e) :: r) else (k, e) :: upd r d

def resolveM (deps : List Dep) : OMap := deps.foldl upd []
def resolve (deps : List Dep) : List Dep := (resolveM deps).map Prod.snd

def keys (m : OMap) : List Nat := m.map Prod.fst
def wfMap (m : OMap) : Prop := (keys m).Nodup ∧ ∀ p ∈ m, p.1 = p.2.name

theorem keys_upd (m : OMap) (d : Dep) : keys (upd m d) = if d.name ∈ keys m then keys m else keys m ++ [d.name] := by
  induction m with
  | nil => simp [upd, keys]
  | cons p r ih =>
    obtain ⟨k, e⟩ := p
    simp only [upd]
    by_cases hk : k = d.name
    · subst hk; simp only [if_true]; split <;> simp [keys]
    · simp only [hk, if_false]
      simp only [keys, List.map_cons] at ih ⊢
      rw [ih]
      have : (d.name = k) = False := by simp [Ne.symm hk]
      by_cases hm : d.name ∈ List.map Prod.fst r <;> simp [hm, Ne.symm hk]

theorem wf_upd (m : OMap) (d : Dep) (h : wfMap m) : wfMap (upd m d) := by
  constructor
  · rw [keys_upd]; split
    · exact h.1
    · rename_i hn; exact List.nodup_append.mpr ⟨h.1, by simp, by
        intro a ha b hb hab; simp at hb; subst hb; subst hab; exact hn ha⟩
  · induction m with
    | nil => simp [upd]
    | cons p r ih =>
      obtain ⟨k, e⟩ := p
      have hr : wfMap r := ⟨(List.nodup_cons.mp h.1).2, fun q hq => h.2 q (by simp [hq])⟩
      have hke := h.2 (k, e) (by simp)
      simp only [upd]
      by_cases hk : k = d.name
      · simp only [hk, if_true]; split
        · intro q hq; simp at hq; cases hq with
          | inl h1 => simp [h1]
          | inr h1 => exact h.2 q (by simp [h1])
        · intro q hq; simp at hq; cases hq with
          | inl h1 => rw [h1]; simpa using hke ▸ hk ▸ rfl
          | inr h1 => exact h.2 q (by simp [h1])
      · simp only [hk, if_false]
        intro q hq; simp at hq; cases hq with
        | inl h1 => rw [h1]; exact hke
        | inr h1 => exact ih hr q h1

theorem wf_foldl (deps : List Dep) (m : OMap) (h : wfMap m) : wfMap (deps.foldl upd m) := by
  induction deps generalizing m with
  | nil => simpa
  | cons d r ih => exact ih _ (wf_upd m d h)

/-- each name appears once in the resolved list -/
theorem resolve_names_nodup (deps : List Dep) : ((resolve deps).map Dep.name).Nodup := by
  have h := wf_foldl deps [] ⟨by simp [keys], by simp⟩
  have : (resolve deps).map Dep.name = keys (resolveM deps) := by
    simp only [resolve, keys, List.map_map]
    apply List.map_congr_left
    intro p hp; exact (h.2 p hp).symm
  rw [this]; exact h.1

/-- on a list whose names are already distinct, resolution changes nothing (⇒ idempotence) -/
theorem upd_fresh (m : OMap) (d : Dep) (h : d.name ∉ keys m) : upd m d = m ++ [(d.name, d)] := by
  induction m with
  | nil => simp [upd]
  | cons p r ih =>
    obtain ⟨k, e⟩ := p
    simp only [keys, List.map_cons, List.mem_cons, not_or] at h
    simp [upd, Ne.symm h.1, ih (by simpa [keys] using h.2)]

theorem foldl_nodup (l : List Dep) (m : OMap) (h : (keys m ++ l.map Dep.name).Nodup) :
    l.foldl upd m = m ++ l.map (fun d => (d.name, d)) := by
  induction l generalizing m with
  | nil => simp
  | cons d r ih =>
    have hd : d.name ∉ keys m := by
      intro hm
      have := List.nodup_append.mp h
      exact this.2.2 _ hm _ (by simp) rfl
    simp only [List.foldl_cons, upd_fresh m d hd]
    rw [ih]
    · simp
    · simpa [keys, List.append_assoc] using h

theorem resolve_idem (deps : List Dep) : resolve (resolve deps) = resolve deps := by
  have hn := resolve_names_nodup deps
  have := foldl_nodup (resolve deps) [] (by simpa [keys] using hn)
  simp only [resolve, resolveM] at this ⊢
  rw [this]; simp [List.map_map, Function.comp_def]
#print axioms resolve_idem
