abbrev Str := List Nat
abbrev Table := List (Nat × Str)      -- ordered escape table: single code point ↦ replacement

/-- model of Python `s.replace(chr(c), v)` for a one-character pattern -/
def repl1 (c : Nat) (v : Str) : Str → Str
  | [] => []
  | x :: xs => if x = c then v ++ repl1 c v xs else x :: repl1 c v xs

/-- what html_escape's loop computes: replacements applied in table order -/
def chain : Table → Str → Str
  | [], s => s
  | (c, v) :: t, s => chain t (repl1 c v s)

def lookup : Table → Nat → Option Str
  | [], _ => none
  | (c, v) :: t, x => if x = c then some v else lookup t x

/-- the property-level mapping: each character independently -/
def escChar (t : Table) (x : Nat) : Str := (lookup t x).getD [x]
def esc (t : Table) (s : Str) : Str := s.flatMap (escChar t)

/-- table side condition: no later key occurs in an earlier (or its own) replacement text -/
def keysFresh : Table → Prop
  | [] => True
  | (_, v) :: t => (∀ k ∈ t.map Prod.fst, k ∉ v) ∧ keysFresh t

theorem repl1_append (c v a b) : repl1 c v (a ++ b) = repl1 c v a ++ repl1 c v b := by
  induction a with
  | nil => simp [repl1]
  | cons x xs ih => simp only [List.cons_append, repl1]; split <;> simp [ih]

theorem chain_append (t : Table) (a b : Str) : chain t (a ++ b) = chain t a ++ chain t b := by
  induction t generalizing a b with
  | nil => simp [chain]
  | cons p t ih => obtain ⟨c, v⟩ := p; simp [chain, repl1_append, ih]

theorem repl1_noop (c v) (s : Str) (h : c ∉ s) : repl1 c v s = s := by
  induction s with
  | nil => simp [repl1]
  | cons x xs ih =>
    simp only [List.mem_cons, not_or] at h
    simp [repl1, ih h.2, Ne.symm h.1]

theorem chain_noop (t : Table) (s : Str) (h : ∀ k ∈ t.map Prod.fst, k ∉ s) : chain t s = s := by
  induction t generalizing s with
  | nil => simp [chain]
  | cons p t ih =>
    obtain ⟨c, v⟩ := p
    simp only [List.map_cons, List.mem_cons, forall_eq_or_imp] at h
    simp [chain, repl1_noop c v s h.1, ih s h.2]

theorem chain_single (t : Table) (hf : keysFresh t) (x : Nat) : chain t [x] = escChar t x := by
  induction t with
  | nil => simp [chain, escChar, lookup]
  | cons p t ih =>
    obtain ⟨c, v⟩ := p
    simp only [keysFresh] at hf
    simp only [chain, repl1, escChar, lookup]
    split
    · simp [chain_noop t v hf.1]
    · rename_i hne
      have := ih hf.2
      simp [escChar] at this
      simpa [hne] using this

/-- html_escape's replace loop equals the per-character map, for ANY table satisfying the side condition -/
theorem chain_eq_esc (t : Table) (hf : keysFresh t) (s : Str) : chain t s = esc t s := by
  induction s with
  | nil => simp [esc, chain_noop]
  | cons x xs ih =>
    have : x :: xs = [x] ++ xs := rfl
    rw [this, chain_append, chain_single t hf, ih]; simp [esc]


/-! ## decoding -/
def stripPre : Str → Str → Option Str      -- stripPre v s = some rest  iff  s = v ++ rest
  | [], s => some s
  | _ :: _, [] => none
  | a :: v, b :: s => if a = b then stripPre v s else none

theorem stripPre_append (v r : Str) : stripPre v (v ++ r) = some r := by
  induction v with
  | nil => simp [stripPre]
  | cons a v ih => simp [stripPre, ih]

theorem stripPre_some (v s r : Str) (h : stripPre v s = some r) : s = v ++ r := by
  induction v generalizing s with
  | nil => simp [stripPre] at h; simp [h]
  | cons a v ih =>
    cases s with
    | nil => simp [stripPre] at h
    | cons b s =>
      simp only [stripPre] at h
      split at h
      · rename_i hab; subst hab; simp [ih s h]
      · simp at h

theorem stripPre_len (v s r : Str) (h : stripPre v s = some r) : r.length + v.length = s.length := by
  have := stripPre_some v s r h; subst this; simp [Nat.add_comm]

/-- first table entry whose replacement text is a prefix of the input -/
def matchRef : Table → Str → Option (Nat × Str)
  | [], _ => none
  | (c, v) :: t, s => match stripPre v s with
    | some r => some (c, r)
    | none => matchRef t s

/-- reference decoder: at each position, a table reference decodes to its key, anything else is literal -/
def decodeF (T : Table) : Nat → Str → Str
  | 0, _ => []
  | _, [] => []
  | f+1, x :: xs => match matchRef T (x :: xs) with
    | some (c, r) => c :: decodeF T f r
    | none => x :: decodeF T f xs

/-- side conditions on the table (finite, checked on the real table each run) -/
def startsAmp (T : Table) : Prop := ∀ p ∈ T, ∃ w, p.2 = 38 :: w
def ampIsKey (T : Table) : Prop := (lookup T 38).isSome
def prefixFree (T : Table) : Prop :=
  ∀ p ∈ T, ∀ q ∈ T, ∀ r, stripPre p.2 (q.2 ++ r) ≠ none → p = q

theorem matchRef_none_of_ne_amp (T : Table) (hs : startsAmp T) (x : Nat) (xs : Str) (hx : x ≠ 38) :
    matchRef T (x :: xs) = none := by
  induction T with
  | nil => simp [matchRef]
  | cons p t ih =>
    obtain ⟨c, v⟩ := p
    obtain ⟨w, hw⟩ := hs (c, v) (by simp)
    simp only at hw; subst hw
    have : stripPre (38 :: w) (x :: xs) = none := by simp [stripPre, Ne.symm hx]
    simp only [matchRef, this]
    exact ih (fun p hp => hs p (by simp [hp]))

theorem lookup_mem (T : Table) (x : Nat) (v : Str) (h : lookup T x = some v) : (x, v) ∈ T := by
  induction T with
  | nil => simp [lookup] at h
  | cons p t ih =>
    obtain ⟨c, w⟩ := p
    simp only [lookup] at h
    split at h
    · rename_i hc; simp at h; simp [hc, h]
    · simp [ih h]

theorem matchRef_hit (T : Table) (hp : prefixFree T) (x : Nat) (v r : Str)
    (hl : lookup T x = some v) : matchRef T (v ++ r) = some (x, r) := by
  have hmem := lookup_mem T x v hl
  -- generalise over a suffix T' of T while keeping membership facts in T
  suffices ∀ T', (∀ p ∈ T', p ∈ T) → lookup T' x = some v → matchRef T' (v ++ r) = some (x, r) from
    this T (fun _ h => h) hl
  intro T' hsub hl'
  induction T' with
  | nil => simp [lookup] at hl'
  | cons p t ih =>
    obtain ⟨c, w⟩ := p
    simp only [lookup] at hl'
    simp only [matchRef]
    split at hl'
    · rename_i hc; simp at hl'; subst hc; subst hl'; simp [stripPre_append]
    · rename_i hc
      cases hw : stripPre w (v ++ r) with
      | none => simp only []; exact ih (fun p hp => hsub p (by simp [hp])) hl'
      | some r' =>
        have := hp (c, w) (hsub _ (by simp)) (x, v) hmem r (by simp [hw])
        simp at this; exact absurd this.1.symm hc

theorem decode_esc (T : Table) (hs : startsAmp T) (ha : ampIsKey T) (hp : prefixFree T) (s : Str) :
    ∀ f, (esc T s).length ≤ f → decodeF T f (esc T s) = s := by
  induction s with
  | nil => intro f _; cases f <;> simp [esc, decodeF]
  | cons x xs ih =>
    intro f hf
    have hcons : esc T (x :: xs) = escChar T x ++ esc T xs := by simp [esc]
    rw [hcons] at hf ⊢
    cases hl : lookup T x with
    | none =>
      have hx : x ≠ 38 := by
        intro h; subst h; simp [ampIsKey, hl] at ha
      simp only [escChar, hl, Option.getD_none, List.singleton_append, List.length_cons] at hf ⊢
      cases f with
      | zero => omega
      | succ f =>
        simp only [decodeF, matchRef_none_of_ne_amp T hs x _ hx]
        rw [ih f (by omega)]
    | some v =>
      obtain ⟨w, hw⟩ := hs (x, v) (lookup_mem T x v hl)
      simp only at hw; subst hw
      simp only [escChar, hl, Option.getD_some, List.cons_append, List.length_cons, List.length_append] at hf ⊢
      cases f with
      | zero => omega
      | succ f =>
        have := matchRef_hit T hp x (38 :: w) (esc T xs) hl
        simp only [List.cons_append] at this
        simp only [decodeF, this]
        rw [ih f (by omega)]

/-! decidable form of the side conditions, for the per-run `Consts.lean` -/
def comparableB : Str → Str → Bool
  | [], _ => true
  | _, [] => true
  | a :: v, b :: w => a == b && comparableB v w

theorem stripPre_comparable (v w r : Str) (h : stripPre v (w ++ r) ≠ none) : comparableB v w = true := by
  induction v generalizing w with
  | nil => simp [comparableB]
  | cons a v ih =>
    cases w with
    | nil => simp [comparableB]
    | cons b w =>
      simp only [List.cons_append, stripPre] at h
      split at h
      · rename_i hab; simp [comparableB, hab, ih w h]
      · simp at h

def prefixFreeB (T : Table) : Bool := T.all fun p => T.all fun q => !(comparableB p.2 q.2) || (p == q)
def startsAmpB (T : Table) : Bool := T.all fun p => p.2.head? == some 38

theorem prefixFree_of_B (T : Table) (h : prefixFreeB T = true) : prefixFree T := by
  intro p hp q hq r hne
  have hc := stripPre_comparable p.2 q.2 r hne
  simp only [prefixFreeB, List.all_eq_true] at h
  have := h p hp q hq
  simp [hc] at this; exact this

theorem startsAmp_of_B (T : Table) (h : startsAmpB T = true) : startsAmp T := by
  intro p hp
  simp only [startsAmpB, List.all_eq_true] at h
  have := h p hp
  cases hv : p.2 with
  | nil => simp [hv] at this
  | cons a w => simp [hv] at this; exact ⟨w, by simp [this]⟩

-- what Consts.lean would contain, generated from HTML_ATTRS_ESCAPE_TABLE in /repo on this run
def ATTR : Table := [(38, [38,97,109,112,59]), (62, [38,103,116,59]), (60, [38,108,116,59]),
  (34, [38,113,117,111,116,59]), (39, [38,97,112,111,115,59]), (13, [38,35,49,51,59]), (10, [38,35,49,48,59])]
theorem ATTR_fresh : keysFresh ATTR := by simp [keysFresh, ATTR]
theorem ATTR_pf : prefixFreeB ATTR = true := by decide
theorem ATTR_amp : startsAmpB ATTR = true := by decide
theorem ATTR_key : ampIsKey ATTR := by simp [ampIsKey, ATTR, lookup]

/-- end-to-end for the real attribute table: the replace loop's output decodes to the input -/
theorem ATTR_roundtrip (s : Str) : decodeF ATTR (chain ATTR s).length (chain ATTR s) = s := by
  rw [chain_eq_esc ATTR ATTR_fresh]
  exact decode_esc ATTR (startsAmp_of_B _ ATTR_amp) ATTR_key (prefixFree_of_B _ ATTR_pf) s _ (Nat.le_refl _)
#print axioms ATTR_roundtrip
