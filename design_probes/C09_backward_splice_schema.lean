/-! Soundness of the "backward splice" loop schema used for TagList.tagify (DESIGN §3.4):
    for i in reversed(range(len(cp))):  child = cp[i];  cp[i:i+1] = repl(child)     (cp[i] = x is repl = [x])
    computes  flatMap repl cp0. -/
variable {α : Type} [Inhabited α]

def spliceAt (l : List α) (i : Nat) (r : List α) : List α := l.take i ++ r ++ l.drop (i+1)

/-- the loop, processing indices k-1, …, 0 (range(len(cp)) is evaluated once, before the loop) -/
def spliceLoop (repl : α → List α) : Nat → List α → List α
  | 0, l => l
  | k+1, l => spliceLoop repl k (spliceAt l k (repl (l[k]!)))

theorem spliceLoop_spec (repl : α → List α) : ∀ (k : Nat) (l : List α), k ≤ l.length →
    spliceLoop repl k l = (l.take k).flatMap repl ++ l.drop k
  | 0, l, _ => by simp [spliceLoop]
  | k+1, l, hk => by
    have hk' : k < l.length := by omega
    have hlen : (l.take k).length = k := by simp [List.length_take]; omega
    have ih := spliceLoop_spec repl k (spliceAt l k (repl (l[k]!))) (by
      simp [spliceAt, List.length_take]; omega)
    rw [spliceLoop, ih]
    have htake : (spliceAt l k (repl (l[k]!))).take k = l.take k := by
      simp only [spliceAt, List.append_assoc]
      rw [List.take_append_of_le_length (by omega)]
      rw [List.take_of_length_le (by omega)]
    have hdrop : (spliceAt l k (repl (l[k]!))).drop k = repl (l[k]!) ++ l.drop (k+1) := by
      simp only [spliceAt, List.append_assoc]
      rw [List.drop_append_of_le_length (by omega)]
      rw [List.drop_of_length_le (by omega)]; simp
    rw [htake, hdrop]
    have hk1 : l.take (k+1) = l.take k ++ [l[k]!] := by
      rw [List.take_succ]; simp [List.getElem?_eq_getElem hk', getElem!_pos l k hk']
    rw [hk1]; simp [List.flatMap_append]

theorem spliceLoop_all (repl : α → List α) (l : List α) : spliceLoop repl l.length l = l.flatMap repl := by
  have := spliceLoop_spec repl l.length l (Nat.le_refl _)
  simpa using this
#print axioms spliceLoop_all
