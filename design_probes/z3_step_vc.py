import time
from z3 import *
# Universe
Node = Datatype('Node'); NodeList = Datatype('NodeList')
Node.declare('Str', ('s', StringSort()))
Node.declare('Html', ('h', StringSort()))
Node.declare('Meta', ('mid', IntSort()))
Node.declare('Repr', ('r', StringSort()))
Node.declare('Tagif', ('tid', IntSort()))
Node.declare('TagN', ('name', StringSort()), ('ws', BoolSort()), ('attrs', StringSort()), ('kids', NodeList))
NodeList.declare('nil'); NodeList.declare('cons', ('hd', Node), ('tl', NodeList))
Node, NodeList = CreateDatatypes(Node, NodeList)
S = StringSort(); I = IntSort(); B = BoolSort()
ind = RecFunction('ind', I, S)
n = Int('n')
RecAddDefinition(ind, [n], If(n <= 0, StringVal(""), Concat(StringVal("  "), ind(n-1))))
esc = Function('esc', S, S)   # abstract here
# fold state: (html, first, prev)
St = Datatype('St'); St.declare('mk', ('html', S), ('first', B), ('prev', B)); St = St.create()
rtag = RecFunction('rtag', Node, I, S, S)
step = RecFunction('step', St, Node, I, S, B, St)
rlist = RecFunction('rlist', St, NodeList, I, S, B, St)
st = Const('st', St); c = Const('c', Node); eol = String('eol'); e = Bool('e'); l = Const('l', NodeList); i = Int('i')
pocaw = Or(St.prev(st), And(Node.is_TagN(c), Node.ws(c)))
sep = If(St.first(st), StringVal(""), If(pocaw, eol, StringVal("")))
body = If(Node.is_Meta(c), st,
  If(Node.is_TagN(c), St.mk(Concat(St.html(st), sep, If(pocaw, rtag(c, i, eol), rtag(c, 0, StringVal("")))), False, Node.ws(c)),
  If(Or(Node.is_Repr(c), Node.is_Html(c)), St.mk(Concat(St.html(st), sep, If(St.prev(st), ind(i), StringVal("")), If(Node.is_Repr(c), Node.r(c), Node.h(c))), False, False),
     St.mk(Concat(St.html(st), sep, If(St.prev(st), ind(i), StringVal("")), If(e, esc(Node.s(c)), Node.s(c))), False, False))))
RecAddDefinition(step, [st, c, i, eol, e], body)
RecAddDefinition(rlist, [st, l, i, eol, e], If(NodeList.is_nil(l), st, rlist(step(st, NodeList.hd(l), i, eol, e), NodeList.tl(l), i, eol, e)))
t = Const('t', Node)
RecAddDefinition(rtag, [t, i, eol], Concat(ind(i), StringVal("<"), Node.name(t), Node.attrs(t), StringVal(">"),
    St.html(rlist(St.mk(StringVal(""), True, Node.ws(t)), Node.kids(t), i+1, eol, True)), StringVal("</"), Node.name(t), StringVal(">")))

# VC: the loop body of the real code, executed symbolically on state (h, f, p) and child c, equals step
h = String('h'); f = Bool('f'); p = Bool('p')
# "code" path: child is a plain string, escape on
s = Solver(); s.set("timeout", 20000)
code_html = Concat(h, If(f, StringVal(""), If(Or(p, And(Node.is_TagN(c), Node.ws(c))), eol, StringVal(""))), If(p, ind(i), StringVal("")), esc(Node.s(c)))
s.add(Node.is_Str(c), e)
s.add(Not(step(St.mk(h, f, p), c, i, eol, e) == St.mk(code_html, False, False)))
t0=time.time(); print("step-eq str branch:", s.check(), time.time()-t0)
# mutated code: forgets indent
s = Solver(); s.set("timeout", 20000)
code_html2 = Concat(h, If(f, StringVal(""), If(p, eol, StringVal(""))), esc(Node.s(c)))
s.add(Node.is_Str(c), e, i >= 0)
s.add(Not(step(St.mk(h, f, p), c, i, eol, e) == St.mk(code_html2, False, False)))
t0=time.time(); r = s.check(); print("mutant:", r, time.time()-t0)
if r == sat: print(s.model())
