"""Scratch probe: symbolic summary of the REAL loop body of TagList.get_html_string, read with ast
from the source file given as argv[1], compared against a hand-written L1 step in z3."""
import ast, sys, time
from z3 import *
SRC = sys.argv[1] if len(sys.argv) > 1 else "/repo/htmltools/_core.py"
mod = ast.parse(open(SRC).read())
cls = next(n for n in mod.body if isinstance(n, ast.ClassDef) and n.name == "TagList")
fn = next(n for n in cls.body if isinstance(n, ast.FunctionDef) and n.name == "get_html_string")
loop = next(n for n in fn.body if isinstance(n, ast.For))
assert ast.unparse(loop.iter) == "self" and loop.target.id == "child"

S, I, B = StringSort(), IntSort(), BoolSort()
Node = Datatype('Node'); NL = Datatype('NL')
Node.declare('Text', ('s', S)); Node.declare('Raw', ('h', S)); Node.declare('Meta', ('mid', I))
Node.declare('Obj', ('oid', I), ('hasRepr', B), ('repr', S), ('hasTagify', B))
Node.declare('El', ('name', S), ('ws', B), ('attrs', S), ('kids', NL))
NL.declare('nil'); NL.declare('cons', ('hd', Node), ('tl', NL))
Node, NL = CreateDatatypes(Node, NL)
rtag = Function('rtag', Node, I, S, S)          # callee contract of Tag.get_html_string
ind = Function('ind', I, S)                      # model of "  " * n
esc = Function('esc', S, S)                      # callee contract of html_escape(., attr=False)
def ntext(c): return If(Node.is_Raw(c), Node.h(c), esc(Node.s(c)))   # contract of _normalize_text
ISA = {  # assumption A2
 'MetadataNode': lambda c: Node.is_Meta(c), 'Tag': lambda c: Node.is_El(c),
 'ReprHtml': lambda c: Or(Node.is_El(c), Node.is_Raw(c), And(Node.is_Obj(c), Node.hasRepr(c))),
 'Tagifiable': lambda c: Or(Node.is_El(c), And(Node.is_Obj(c), Node.hasTagify(c))),
}
class SX:
    def __init__(self, env): self.env = dict(env); self.live = BoolVal(True); self.exc = BoolVal(False)
    def ev(self, e):
        if isinstance(e, ast.Constant):
            v = e.value
            return BoolVal(v) if isinstance(v, bool) else IntVal(v) if isinstance(v, int) else StringVal(v)
        if isinstance(e, ast.Name): return self.env[e.id]
        if isinstance(e, ast.BoolOp):
            vs = [self.ev(x) for x in e.values]; return (And if isinstance(e.op, ast.And) else Or)(*vs)
        if isinstance(e, ast.UnaryOp) and isinstance(e.op, ast.Not): return Not(self.ev(e.operand))
        if isinstance(e, ast.BinOp) and isinstance(e.op, ast.Mult) and ast.unparse(e.left) == "'  '": return ind(self.ev(e.right))
        if isinstance(e, ast.Attribute) and e.attr == 'add_ws': return Node.ws(self.ev(e.value))
        if isinstance(e, ast.Call):
            f = ast.unparse(e.func)
            if f == 'isinstance': return ISA[ast.unparse(e.args[1])](self.ev(e.args[0]))
            if f == 'child.get_html_string': return rtag(self.env['child'], self.ev(e.args[0]), self.ev(e.args[1]))
            if f == 'child._repr_html_':
                c = self.env['child']; return If(Node.is_Raw(c), Node.h(c), Node.repr(c))   # HTML._repr_html_ contract / A5
            if f == '_normalize_text': return ntext(self.ev(e.args[0]))
        raise NotImplementedError(ast.dump(e))
    def assign(self, name, val):
        old = self.env[name]
        if name == 'html_' and is_string(val) is False: raise TypeError
        self.env[name] = If(self.live, val, old)
    def run(self, stmts):
        for st in stmts:
            if isinstance(st, ast.If):
                c = self.ev(st.test); a = SX(self.env); b = SX(self.env)
                a.live = And(self.live, c); b.live = And(self.live, Not(c)); a.exc = b.exc = self.exc
                a.run(st.body); b.run(st.orelse)
                for k in self.env: self.env[k] = If(c, a.env[k], b.env[k])
                self.exc = If(c, a.exc, b.exc)
                # statement continues only where the taken branch is still live
                self.live = If(c, a.live, b.live)
            elif isinstance(st, ast.Assign): self.assign(st.targets[0].id, self.ev(st.value))
            elif isinstance(st, ast.AugAssign):
                v = self.ev(st.value)
                if ast.unparse(st.value) == 'child': v = Node.s(v)       # str child appended as is
                self.assign(st.target.id, Concat(self.env[st.target.id], v))
            elif isinstance(st, ast.Continue): self.live = BoolVal(False)
            elif isinstance(st, ast.Raise): self.exc = Or(self.exc, self.live); self.live = BoolVal(False)
            else: raise NotImplementedError(ast.dump(st))
h, f, p, e, eol = String('h'), Bool('f'), Bool('p'), Bool('e'), String('eol'); i = Int('i'); c = Const('c', Node)
sx = SX({'html_': h, 'first_child': f, 'prev_was_add_ws': p, 'child': c, 'indent': i, 'eol': eol, '_escape_strings': e,
         'prev_or_current_add_ws': BoolVal(False)})
sx.run(loop.body)
code = (sx.env['html_'], sx.env['first_child'], sx.env['prev_was_add_ws'], sx.exc)

# hand-written L1 step (what hv.spec would emit)
def step(h, f, p, c, i, eol, e):
    isrepr = Or(Node.is_Raw(c), And(Node.is_Obj(c), Node.hasRepr(c)))
    unexp = And(Node.is_Obj(c), Not(Node.hasRepr(c)), Node.hasTagify(c))
    pc = Or(p, And(Node.is_El(c), Node.ws(c)))
    sep = lambda q: If(f, StringVal(""), If(q, eol, StringVal("")))
    lead = If(p, ind(i), StringVal(""))
    return (If(Node.is_Meta(c), h,
              If(Node.is_El(c), Concat(h, sep(pc), If(pc, rtag(c, i, eol), rtag(c, 0, StringVal("")))),
              If(isrepr, Concat(h, sep(p), lead, If(Node.is_Raw(c), Node.h(c), Node.repr(c))),
              If(unexp, Concat(h, sep(p)), Concat(h, sep(p), lead, If(e, esc(Node.s(c)), Node.s(c))))))),
            If(Node.is_Meta(c), f, BoolVal(False)),
            If(Node.is_Meta(c), p, If(Node.is_El(c), Node.ws(c), If(unexp, p, BoolVal(False)))),
            unexp)
spec = step(h, f, p, c, i, eol, e)
wellformed = Implies(Node.is_Obj(c), Or(Node.hasRepr(c), Node.hasTagify(c)))   # is_tag_node invariant of stored children (C14)
names = ['html_', 'first_child', 'prev_was_add_ws', 'raises']
ok = True
for nm, a, b in zip(names, code, spec):
    s = Solver(); s.set('timeout', 20000); s.add(wellformed)
    # after a raise the other components are irrelevant
    s.add(Not(a == b) if nm == 'raises' else And(Not(spec[3]), Not(a == b)))
    t0 = time.time(); r = s.check()
    print(f"R:TagList.get_html_string:loop0.body.{nm}: {'discharged' if r==unsat else r} ({time.time()-t0:.2f}s)")
    if r == sat:
        ok = False; m = s.model(); print("   countermodel:", {str(d): m[d] for d in m.decls() if str(d) in ('c','f','p','e','i','eol','h')})
sys.exit(0 if ok else 1)
