#!/usr/bin/env python3
"""Seeded-defect workflow (see the brief): confirm a candidate change in a scratch worktree, run the
checks against it in /repo (apply, run, undo straight afterwards), keep it under /verif/seeded/<id>/.

  seed.py confirm <diff> <demo.py>          tests pass with the change; demo fails with it and passes without
  seed.py run <diff> <prop> [<prop>...]     apply to /repo, run the quick checks, undo; prints one line per check
  seed.py keep <name> <prop> <diff> <demo> <notes>   store under seeded/<name>/ with meta.json (after confirm+run)
"""
import json, os, subprocess, sys, shutil, tempfile, time

ROOT = os.path.dirname(os.path.dirname(os.path.abspath(__file__)))
PY = "/venv/bin/python"


def sh(cmd, cwd=None, env=None, timeout=1800):
    p = subprocess.run(cmd, shell=True, cwd=cwd, capture_output=True, text=True, env=env, timeout=timeout)
    return p.returncode, (p.stdout or "") + (p.stderr or "")


def confirm(diff, demo):
    wt = tempfile.mkdtemp(prefix="seedwt-", dir="/tmp")
    os.rmdir(wt)
    rc, out = sh(f"git -C /repo worktree add -q {wt} HEAD")
    res = {}
    try:
        rc, out = sh(f"git apply --check {diff} && git apply {diff}", cwd=wt)
        res["applies"] = rc == 0
        if rc != 0:
            res["apply_output"] = out[-500:]
            return res
        rc, out = sh(f"{PY} -m pytest -q -p no:cacheprovider", cwd=wt)
        res["tests_pass_with_change"] = rc == 0 and "77 passed" in out
        res["tests_tail"] = out.strip().splitlines()[-1] if out.strip() else ""
        # a demonstration may locate the library relative to the working directory (run it at the root) or relative to its own
        # file as <root>/out/demoN.py (run it there): try the root first, then out/
        os.makedirs(os.path.join(wt, "out"), exist_ok=True)
        shutil.copy(demo, os.path.join(wt, "_demo.py"))
        shutil.copy(demo, os.path.join(wt, "out", "_demo.py"))
        for loc in ("_demo.py", "out/_demo.py"):
            rc, out = sh(f"{PY} {loc}", cwd=wt)
            res["demo_location"] = loc
            res["demo_fails_with_change"] = rc != 0
            res["demo_with_change_tail"] = out.strip()[-300:]
            if rc != 0:
                break
        sh("git checkout -- .", cwd=wt)
        rc, out = sh(f"{PY} {res['demo_location']}", cwd=wt)
        res["demo_passes_without_change"] = rc == 0
    finally:
        sh(f"git -C /repo worktree remove --force {wt}")
    res["confirmed"] = all(res.get(k) for k in ("applies", "tests_pass_with_change", "demo_fails_with_change", "demo_passes_without_change"))
    return res


def run(diff, props, tier="quick"):
    rc, out = sh("git -C /repo status --porcelain")
    if out.strip():
        return {"error": "/repo is not clean: " + out}
    rc, out = sh(f"git -C /repo apply {diff}")
    if rc != 0:
        return {"error": "cannot apply: " + out}
    results = {}
    try:
        for p in props:
            t0 = time.time()
            # evidence and replay files of runs against a seeded change go to scratch directories: /verif/evidence describes the unchanged tree only
            env = dict(os.environ, HV_EVIDENCE_DIR="/tmp/seed-evidence", HV_REPLAY_DIR="/tmp/seed-replays")
            os.makedirs("/tmp/seed-evidence", exist_ok=True)
            rc, out = sh(f"python3-vt -m hv check {p} --tier {tier}", cwd=ROOT, env=env)
            lines = [l for l in out.splitlines() if l.startswith(("VIOLATION", "UNDECIDED", "KNOWN-FINDING", "CHECKER-CRASH", "CROSSCHECK")) or l.startswith(p + ":")]
            results[p] = {"exit": rc, "seconds": round(time.time() - t0, 1), "lines": [l[:300] for l in lines[:8]]}
    finally:
        sh("git -C /repo checkout -- .")
    return results


def run_scratch(diff, props, tier="quick"):
    """development mode: same as run() but on a scratch worktree selected with HV_REPO (does not touch /repo)"""
    wt = tempfile.mkdtemp(prefix="seedrun-", dir="/tmp")
    os.rmdir(wt)
    sh(f"git -C /repo worktree add -q {wt} HEAD")
    results = {}
    try:
        rc, out = sh(f"git apply {diff}", cwd=wt)
        if rc != 0:
            return {"error": out}
        env = dict(os.environ, HV_REPO=wt, HV_EVIDENCE_DIR="/tmp/seed-evidence", HV_REPLAY_DIR="/tmp/seed-replays")
        os.makedirs("/tmp/seed-evidence", exist_ok=True)
        for p in props:
            t0 = time.time()
            rc, out = sh(f"python3-vt -m hv check {p} --tier {tier}", cwd=ROOT, env=env)
            lines = [l for l in out.splitlines() if l.startswith(("VIOLATION", "KNOWN-FINDING", "CHECKER-CRASH")) or l.startswith(p + ":")]
            results[p] = {"exit": rc, "seconds": round(time.time() - t0, 1), "lines": [l[:200] for l in lines[:4]]}
    finally:
        sh(f"git -C /repo worktree remove --force {wt}")
    return results


def main():
    cmd = sys.argv[1]
    if cmd == "scratch":
        r = run_scratch(sys.argv[2], sys.argv[3:])
        print(os.path.basename(os.path.dirname(os.path.dirname(sys.argv[2]))) + "/" + os.path.basename(sys.argv[2]), " ".join(f"{p}:{x.get('exit')}" for p, x in r.items() if isinstance(x, dict)))
        return
    if cmd == "confirm":
        print(json.dumps(confirm(sys.argv[2], sys.argv[3]), indent=1))
    elif cmd == "run":
        print(json.dumps(run(sys.argv[2], sys.argv[3:]), indent=1))
    elif cmd == "keep":
        name, prop, diff, demo, notes = sys.argv[2:7]
        d = os.path.join(ROOT, "seeded", name)
        os.makedirs(d, exist_ok=True)
        shutil.copy(diff, os.path.join(d, "patch.diff"))
        shutil.copy(demo, os.path.join(d, "demo.py"))
        c = confirm(diff, demo)
        allprops = sys.argv[7:] or [prop]
        r = run(diff, allprops)
        meta = {"breaks_property": prop, "needs_to_manifest": open(notes).read().strip() if os.path.exists(notes) else notes,
                "confirmation": c, "checks_run": r, "detected_by": [p for p, x in r.items() if isinstance(x, dict) and x.get("exit") == 1],
                "false_alarms": [p for p, x in r.items() if isinstance(x, dict) and x.get("exit") == 1 and p != prop],
                "how_run": "git -C /repo apply patch.diff; python3-vt -m hv check <id> --tier quick; git -C /repo checkout -- ."}
        json.dump(meta, open(os.path.join(d, "meta.json"), "w"), indent=1)
        print(f"{name}: confirmed={c.get('confirmed')} target={prop} detected_by={meta['detected_by']} exits=" + " ".join(f"{p}:{x.get('exit')}" for p, x in r.items() if isinstance(x, dict)))
        for p, x in r.items():
            if isinstance(x, dict) and x.get("exit") not in (0,):
                for l in x.get("lines", [])[:2]:
                    print("    ", p, l[:230])


if __name__ == "__main__":
    main()
