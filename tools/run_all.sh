#!/bin/sh
# Run every registered quick (or $1=thorough) check against /repo and validate manifest + evidence.
cd "$(dirname "$0")/.."
TIER=${1:-quick}
python3-vt -m hv.manifest || exit 1
rc=0
for id in $(python3-vt -c "import json;print(' '.join(c['property_id'] for c in json.load(open('MANIFEST.json'))['checks']))"); do
  python3-vt -m hv check $id --tier $TIER || rc=1
done
python3-vt - <<'PY'
import json, jsonschema, glob
m = json.load(open('MANIFEST.json')); jsonschema.validate(m, json.load(open('/root/.vp/MANIFEST.schema.json')))
es = json.load(open('/root/.vp/EVIDENCE.schema.json'))
for c in m['checks']:
    e = json.load(open(c['evidence_file'])); jsonschema.validate(e, es)
    ok = e['level'] == c['level_claimed']['category'] and (e['level'] != 'proof' or e['coverage']['obligations'] == e['coverage']['discharged'])
    print(c['property_id'], e['level'], e['coverage'].get('obligations'), e['coverage'].get('discharged'), 'OK' if ok else 'MISMATCH')
PY
exit $rc
