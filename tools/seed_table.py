#!/usr/bin/env python3
"""Print the markdown table `seeded change -> checks that catch it` from seeded/*/meta.json (used for DESIGN.md §13.4)."""
import json, glob, os, re
ROOT = os.path.dirname(os.path.dirname(os.path.abspath(__file__)))
rows = []
for d in sorted(glob.glob(os.path.join(ROOT, "seeded", "*"))):
    mp = os.path.join(d, "meta.json")
    if not os.path.exists(mp):
        continue
    m = json.load(open(mp))
    name = os.path.basename(d)
    what = re.sub(r"\s+", " ", m.get("needs_to_manifest", "")).strip()
    what = re.sub(r"^#+\s*\S+\s*", "", what)[:230]
    how = []
    for p, x in m.get("checks_run", {}).items():
        if not isinstance(x, dict):
            continue
        first = next((l for l in x.get("lines", []) if l.startswith("VIOLATION")), "")
        ob = re.search(r"replay=\S*/([^/]+?)-[0-9a-f]{10}\.json( no-failing-input-found)?", first)
        how.append(f"{p}:{'**caught**' if x.get('exit') == 1 else 'quiet'}" + (f" (`{ob.group(1)[:60]}`{' nfi' if ob.group(2) else ''})" if ob else ""))
    rows.append((name, m.get("breaks_property"), what, "; ".join(how), m.get("confirmation", {}).get("confirmed")))
print("| change | breaks | what it is / what it needs | checks run against it |")
print("|---|---|---|---|")
for name, prop, what, how, conf in rows:
    print(f"| {name} | {prop} | {what} | {how} |")
