#!/bin/sh
# Run every check on the unchanged tree under several VERIF_SEED values (oracle generators are seeded): a false alarm of an
# oracle shows up as exit 1 under some seed.  Evidence and replay files go to a scratch directory, /verif/evidence is untouched.
#   SEEDS="1 2 3" TIER=quick|thorough OUT=/some/scratch tools/seed_sweep.sh
cd "$(dirname "$0")/.."
OUT=${OUT:-/tmp/hv-sweep}
mkdir -p "$OUT/ev"
for s in ${SEEDS:-1 2 3 4 5 6}; do
 for p in C01 C02 C03 C04 C05 C06 C07 C08 C09 C10 C11 C12 C13 C14 C15 C16 C17 C18 C19 C20; do
  VERIF_SEED=$s HV_EVIDENCE_DIR=$OUT/ev HV_REPLAY_DIR=$OUT/rp-$s python3-vt -m hv check $p --tier ${TIER:-quick} > $OUT/$p-$s.log 2>&1
  echo "seed=$s $p exit=$? undecided=$(grep -c '^UNDECIDED' $OUT/$p-$s.log) $(tail -1 $OUT/$p-$s.log | cut -c1-110)"
 done
done
echo SWEEPDONE
