#!/usr/bin/env python3
"""Print the per-property status table of DESIGN.md §13.8 from hv/plans.py and evidence/*.json."""
import json, os, sys
ROOT = os.path.dirname(os.path.dirname(os.path.abspath(__file__)))
sys.path.insert(0, ROOT)
from hv.plans import PLANS  # noqa: E402
print("| id | level | obligations (discharged) by kind | functions under contract | Lean theorems | bounded / assumed parts |")
print("|---|---|---|---|---|---|")
for pid in sorted(PLANS):
    p = PLANS[pid]
    ev = os.path.join(ROOT, "evidence", pid + ".json")
    e = json.load(open(ev)) if os.path.exists(ev) else None
    kinds = ""
    if e:
        bk = e["coverage"].get("by_kind", {})
        kinds = ", ".join(f"{k}:{v['discharged']}/{v['obligations']}" for k, v in sorted(bk.items()))
    fns = sorted({q.replace("htmltools._core.", "").replace("htmltools._util.", "_util.").replace("htmltools._jsx.", "_jsx.") for q in p.contracts})
    nthm = sum(len(v) for v in p.lean.values())
    mods = ", ".join(sorted(m.replace("HV.", "") for m in p.lean))
    b = "; ".join(x.split(":", 2)[-1][:110] for x in p.bounded) or "oracle as regression only"
    print(f"| {pid} | {e['level'] if e else p.level} | {kinds} | {', '.join(fns)[:400]} | {nthm} ({mods}) | {b} |")
