"""Path-wise symbolic execution of the real function bodies (DESIGN §2, §3).

The interpreter walks the `ast` of a function read from /repo on this run.  Values are typed wrappers
around z3 terms of the L1 sorts; branching on symbolic conditions forks the path (decision-replay
exploration); calls to functions under contract use the callee's contract, never its body; loops are
cut by the rules of §3.4 (fold, constant unrolling, in-place map, backward splice, find-first).
A statement or expression form that is not modelled raises `Unsupported`: the function *leaves the
subset* and the obligation is reported as undecided, never skipped.
"""
from __future__ import annotations
import ast, itertools
from dataclasses import dataclass, field
from typing import Optional
import z3

from .extract import Sources, strip_docstring, is_static, OrderedSet
from .speceval import Val


class Unsupported(Exception):
    pass


class PathAbort(Exception):
    """Infeasible path (both sides of a forced branch unsat)"""


# =====================================================================================================
# symbolic values
# =====================================================================================================
class SV:
    fresh = False


@dataclass
class SStr(SV):
    t: object


@dataclass
class SBool(SV):
    t: object


@dataclass
class SInt(SV):
    t: object
    nat: bool = False


@dataclass
class SNone(SV):
    pass


@dataclass
class SEllipsis(SV):
    pass


@dataclass
class SAdt(SV):
    sort: str
    t: object
    fresh: bool = False
    pyclass: Optional[str] = None      # how Python sees this value when the sort is ambiguous


@dataclass
class PyConst(SV):
    v: object          # concrete python literal container from module constants (dict / OrderedSet / ...)
    name: str = ""


@dataclass
class PySeq(SV):
    items: list
    kind: str = "list"   # list | tuple
    fresh: bool = True


@dataclass
class PyDict(SV):
    items: list          # [(key SV, value SV)]
    fresh: bool = True


@dataclass
class PyRec(SV):
    cls: str
    fields: dict
    fresh: bool = True


@dataclass
class SClass(SV):
    name: str


@dataclass
class SFunc(SV):
    qualname: str
    bound: Optional[SV] = None


@dataclass
class SBuiltin(SV):
    name: str
    bound: Optional[SV] = None


@dataclass
class SExc(SV):
    name: str
    args: list


@dataclass
class SOpaque(SV):
    what: str


@dataclass
class SModule(SV):
    name: str


# control flow
class _Return(Exception):
    def __init__(self, v):
        self.v = v


class _Raise(Exception):
    def __init__(self, exc: SExc, line=None):
        self.exc = exc
        self.line = line


class _Break(Exception):
    pass


class _Continue(Exception):
    pass


# =====================================================================================================
# exploration by decision replay
# =====================================================================================================
class Trace:
    def __init__(self, script):
        self.script = list(script)
        self.pos = 0
        self.decisions = []
        self.alternatives = []

    def decide(self, options_fn):
        """options_fn() -> list of feasible option indices (only called for new decisions)."""
        if self.pos < len(self.script):
            d = self.script[self.pos]
        else:
            opts = options_fn()
            if not opts:
                raise PathAbort()
            d = opts[0]
            for o in opts[1:]:
                self.alternatives.append(self.decisions + [o])
        self.decisions.append(d)
        self.pos += 1
        return d


@dataclass
class Obligation:
    name: str
    hyps: list
    goal: object
    where: str = ""
    kind: str = "R"
    note: str = ""
    vars: dict = field(default_factory=dict)   # name -> z3 const, for model reporting


@dataclass
class PathResult:
    decisions: list
    pc: list
    outcome: str           # 'return' | 'raise'
    value: object = None   # SV for return, SExc for raise
    env: dict = None
    line: int = None


class State:
    def __init__(self):
        self.env = {}
        self.pc = []
        self.fresh_slots = set()   # source text of container slots that were assigned a newly allocated object in this activation
        self.aliases = {}      # local name -> AST of the container element / attribute it was read from (write-through on mutation)


# =====================================================================================================
# the interpreter
# =====================================================================================================
class Interp:
    def __init__(self, world, sources: Sources, contracts, models=None, budget_ms=1000):
        self.w = world
        self.src = sources
        self.contracts = contracts          # ContractDB
        self.obligations = []
        self.counter = itertools.count()
        self.feas = z3.Solver()
        self.feas.set("timeout", budget_ms)
        self.stats = {"paths": 0, "feas_checks": 0, "unknown_feas": 0}
        self.module = None
        self.fn_qual = None
        self.trace = None
        self.st = None
        self.path_tag = ""
        self.axioms = []                    # background axioms (imported lemmas, constant bindings)
        self.nat_consts = []

    # ------------------------------------------------------------------ helpers
    def fresh(self, sort, hint="v"):
        n = next(self.counter)
        c = z3.Const(f"{hint}!{n}", self.w.sort(sort))
        if sort == "Nat":
            self.nat_consts.append(c)
        return c

    def wrap(self, sort, term, fresh=False) -> SV:
        if sort == "Str":
            return SStr(term)
        if sort == "Bool":
            return SBool(term)
        if sort in ("Int", "Nat"):
            return SInt(term, nat=(sort == "Nat"))
        return SAdt(sort, term, fresh=fresh)

    def to_val(self, v: SV) -> Val:
        if isinstance(v, SStr):
            return Val("Str", v.t)
        if isinstance(v, SBool):
            return Val("Bool", v.t)
        if isinstance(v, SInt):
            return Val("Nat" if v.nat else "Int", v.t)
        if isinstance(v, SAdt):
            return Val(v.sort, v.t)
        raise Unsupported(f"value {v!r} has no L1 sort")

    def from_val(self, v: Val) -> SV:
        return self.wrap(v.sort, v.v)

    def check(self, *conds):
        """sat / unsat / unknown of pc ∧ axioms ∧ conds"""
        self.stats["feas_checks"] += 1
        self.feas.push()
        try:
            for a in self.axioms:
                self.feas.add(a)
            for c in self.nat_consts:
                self.feas.add(c >= 0)
            for c in self.st.pc:
                self.feas.add(c)
            for c in conds:
                self.feas.add(c)
            r = self.feas.check()
        finally:
            self.feas.pop()
        if r == z3.unknown:
            self.stats["unknown_feas"] += 1
        return r

    def branch(self, cond) -> bool:
        """Fork on a symbolic condition; returns the side taken on this path and extends pc."""
        cond = z3.simplify(cond)
        if z3.is_true(cond):
            return True
        if z3.is_false(cond):
            return False

        def opts():
            o = []
            if self.check(cond) != z3.unsat:
                o.append(1)
            if self.check(z3.Not(cond)) != z3.unsat:
                o.append(0)
            return o
        d = self.trace.decide(opts)
        self.st.pc.append(cond if d else z3.Not(cond))
        return bool(d)

    def implied(self, cond) -> bool:
        return self.check(z3.Not(cond)) == z3.unsat

    def choose(self, conds):
        """Fork over mutually exclusive alternatives; returns index taken."""
        def opts():
            return [i for i, c in enumerate(conds) if self.check(c) != z3.unsat]
        d = self.trace.decide(opts)
        self.st.pc.append(conds[d])
        return d

    def oblige(self, name, goal, kind="R", where="", note=""):
        self.obligations.append(Obligation(name=name, hyps=list(self.st.pc), goal=goal, where=where, kind=kind, note=note))

    def raise_(self, name, node=None, args=None):
        raise _Raise(SExc(name, args or []), getattr(node, "lineno", None))

    # ------------------------------------------------------------------ type tests (A2)
    def ctor(self, name):
        return self.w.reg.ctors[name]

    def is_c(self, cname, t):
        return self.w.is_ctor(self.ctor(cname), t)

    def acc(self, cname, f, t):
        return self.w.acc(self.ctor(cname), f, t)

    def isinstance_term(self, v: SV, cls: str):
        """z3 Bool for isinstance(v, cls) (assumption A2)."""
        T, F = z3.BoolVal(True), z3.BoolVal(False)
        if isinstance(v, SAdt) and v.sort == "Node":
            t = v.t
            tbl = {
                "Tag": lambda: self.is_c("El", t),
                "MetadataNode": lambda: self.is_c("Md", t),
                "HTMLDependency": lambda: z3.And(self.is_c("Md", t), self.w.acc(self.ctor("Dep"), "isdep", self.acc("Md", "d", t))),
                "str": lambda: self.is_c("Txt", t),
                "HTML": lambda: self.is_c("Raw", t),
                "ReprHtml": lambda: z3.Or(self.is_c("El", t), self.is_c("Raw", t), self.is_c("Rp", t)),
                "Tagifiable": lambda: z3.Or(self.is_c("El", t), self.is_c("Ob", t),
                                            z3.And(self.is_c("Rp", t), self.w.funcs["hasTagify"](self.acc("Rp", "oid", t)))
                                            if "hasTagify" in self.w.funcs else F),
                "TagList": lambda: F, "dict": lambda: F, "list": lambda: F, "tuple": lambda: F,
                "int": lambda: F, "float": lambda: F, "bool": lambda: F,
            }
            if cls in tbl:
                return tbl[cls]()
        if isinstance(v, SAdt) and v.sort == "AttrVal":
            if cls == "HTML":
                return self.is_c("RawV", v.t)
            if cls == "str":
                return self.is_c("Plain", v.t)
            if cls in ("int", "float", "bool", "dict", "list", "tuple"):
                return F
        if isinstance(v, SAdt) and v.sort == "NodeList":
            return T if cls in ("TagList", "Tagifiable", "ReprHtml", "Sequence", "UserList") else F if cls in ("str", "HTML", "Tag", "dict", "list", "tuple", "MetadataNode", "int", "float") else None
        if isinstance(v, SStr):
            return T if cls in ("str", "Sequence") else F
        if isinstance(v, SBool):
            return T if cls in ("bool", "int") else F
        if isinstance(v, SInt):
            return T if cls in ("int",) else F
        if isinstance(v, SNone):
            return F
        if isinstance(v, PySeq):
            return T if cls in (v.kind, "Sequence") else F
        if isinstance(v, PyDict):
            return T if cls in ("dict", "Mapping") else F
        if isinstance(v, PyRec):
            return T if cls in self.mro(v.cls) else F
        hook = getattr(self, "isinstance_hook", None)
        if hook:
            r = hook(v, cls)
            if r is not None:
                return r
        raise Unsupported(f"isinstance({v!r}, {cls})")

    def mro(self, cls):
        return {"Tag": ["Tag", "Tagifiable", "ReprHtml"], "TagList": ["TagList", "Tagifiable", "ReprHtml", "UserList", "Sequence"],
                "HTML": ["HTML", "UserString", "ReprHtml", "Sequence"], "HTMLDependency": ["HTMLDependency", "MetadataNode"],
                "TagAttrDict": ["TagAttrDict", "dict", "Mapping"]}.get(cls, [cls])

    # ------------------------------------------------------------------ conversions
    def truth(self, v: SV):
        if isinstance(v, SBool):
            return v.t
        if isinstance(v, SStr):
            return v.t != z3.StringVal("")
        if isinstance(v, SInt):
            return v.t != 0
        if isinstance(v, SNone):
            return z3.BoolVal(False)
        if isinstance(v, (PySeq, PyDict)):
            return z3.BoolVal(len(v.items) > 0)
        if isinstance(v, PyConst):
            return z3.BoolVal(bool(v.v))
        if isinstance(v, SAdt) and v.sort == "AttrVal":   # str | HTML : non-empty
            return z3.If(self.is_c("Plain", v.t), self.acc("Plain", "s", v.t), self.acc("RawV", "s", v.t)) != z3.StringVal("")
        hook = getattr(self, "truth_hook", None)
        if hook:
            r = hook(v)
            if r is not None:
                return r
        if isinstance(v, (PyRec, SFunc, SBuiltin, SClass)):
            return z3.BoolVal(True)
        raise Unsupported(f"truth value of {v!r}")

    def as_str(self, v: SV, node=None, what="operand") -> SStr:
        """Use v where Python needs an actual `str` (concatenation operand)."""
        if isinstance(v, SStr):
            return v
        if isinstance(v, SAdt) and v.sort == "Node":
            if self.branch(self.is_c("Txt", v.t)):
                return SStr(self.acc("Txt", "s", v.t))
            self.raise_("TypeError", node)
        if isinstance(v, SAdt) and v.sort == "AttrVal":
            if self.branch(self.is_c("Plain", v.t)):
                return SStr(self.acc("Plain", "s", v.t))
            raise Unsupported("HTML object used as str operand (goes through HTML.__radd__)")
        raise Unsupported(f"{what} {v!r} is not a str")

    def str_of(self, v: SV, node=None) -> SStr:
        """str(v) / format(v, '')"""
        if isinstance(v, SStr):
            return v
        if isinstance(v, SAdt) and v.sort == "Node":
            i = self.choose([self.is_c("Txt", v.t), self.is_c("Raw", v.t), z3.Not(z3.Or(self.is_c("Txt", v.t), self.is_c("Raw", v.t)))])
            if i == 0:
                return SStr(self.acc("Txt", "s", v.t))
            if i == 1:
                return SStr(self.acc("Raw", "s", v.t))      # HTML.__str__ = as_string (contract)
            raise Unsupported("str() of a non-text node")
        if isinstance(v, SAdt) and v.sort == "AttrVal":
            return SStr(z3.If(self.is_c("Plain", v.t), self.acc("Plain", "s", v.t), self.acc("RawV", "s", v.t)))
        if isinstance(v, SInt):
            return SStr(z3.IntToStr(v.t)) if False else SStr(self.w.funcs["strOfInt"](v.t)) if "strOfInt" in self.w.funcs else (_ for _ in ()).throw(Unsupported("str(int)"))
        hook = getattr(self, "str_hook", None)
        if hook:
            r = hook(v)
            if r is not None:
                return r
        raise Unsupported(f"str({v!r})")

    def coerce_param(self, v: SV, sort: str, node=None) -> SV:
        """Pass v to a callee parameter declared with L1 sort `sort`."""
        if sort == "Any":
            return v
        if sort == "Str":
            if isinstance(v, SStr):
                return v
            if isinstance(v, SAdt) and v.sort in ("AttrVal", "Node"):
                return self.as_str(v, node)
        if sort == "Bool" and isinstance(v, SBool):
            return v
        if sort in ("Int", "Nat") and isinstance(v, SInt):
            return v
        if isinstance(v, SAdt) and v.sort == sort:
            return v
        hook = getattr(self, "coerce_hook", None)
        if hook:
            r = hook(v, sort)
            if r is not None:
                return r
        raise Unsupported(f"cannot pass {v!r} as {sort}")

    # ------------------------------------------------------------------ running a function
    def explore(self, run):
        """Run `run()` once per feasible path; returns list of PathResult"""
        results = []
        work = [[]]
        outer = (self.trace, self.st)
        while work:
            script = work.pop()
            self.trace = Trace(script)
            self.st = State()
            if outer[1] is not None:
                self.st.pc = list(outer[1].pc)
            try:
                try:
                    v = run()
                    res = PathResult(self.trace.decisions, list(self.st.pc), "return", v, dict(self.st.env))
                except _Return as r:
                    res = PathResult(self.trace.decisions, list(self.st.pc), "return", r.v, dict(self.st.env))
                except _Raise as r:
                    res = PathResult(self.trace.decisions, list(self.st.pc), "raise", r.exc, dict(self.st.env), r.line)
                results.append(res)
                self.stats["paths"] += 1
            except PathAbort:
                pass
            work.extend(self.trace.alternatives)
            if len(results) > 4000:
                raise Unsupported("path explosion (>4000 paths)")
        self.trace, self.st = outer
        return results

    def at_path(self, p):
        """context manager: evaluate coercions under the path condition of a finished path (no new forks)"""
        interp = self

        class _NoFork(Trace):
            def decide(self, options_fn):
                opts = options_fn()
                if len(opts) == 1:
                    return opts[0]
                raise Unsupported("value of ambiguous kind at function exit")

        class _Ctx:
            def __enter__(self_):
                self_.saved = (interp.trace, interp.st)
                interp.trace = _NoFork([])
                interp.st = State()
                interp.st.pc = list(p.pc)
                interp.st.env = dict(p.env or {})
                return interp

            def __exit__(self_, *a):
                interp.trace, interp.st = self_.saved
                return False
        return _Ctx()

    def run_function(self, qualname, args: dict, pre=()):
        """Symbolically execute the body of `qualname` on the given argument values under `pre`."""
        fn = self.src.find(qualname)
        module, _ = self.src.split(qualname)
        saved = (self.module, self.fn_qual)
        self.module, self.fn_qual = module, qualname

        def run():
            self.st.env = dict(args)
            self.st.pc.extend(pre)
            self.loop_ordinal = 0
            self.comp_ordinal = 0
            self.exec_block(strip_docstring(fn.body))
            return SNone()
        try:
            return self.explore(run)
        finally:
            self.module, self.fn_qual = saved

    # ------------------------------------------------------------------ statements
    def exec_block(self, stmts):
        for s in stmts:
            self.exec_stmt(s)

    def exec_stmt(self, s):
        m = getattr(self, "stmt_" + type(s).__name__, None)
        if m is None:
            raise Unsupported(f"statement {type(s).__name__} at line {s.lineno}")
        return m(s)

    def stmt_Expr(self, s):
        if isinstance(s.value, ast.Constant):
            return
        self.eval(s.value)

    def stmt_Pass(self, s):
        return

    def stmt_Return(self, s):
        raise _Return(self.eval(s.value) if s.value is not None else SNone())

    def stmt_Assign(self, s):
        v = self.eval(s.value)
        for tgt in s.targets:
            self.assign(tgt, v)
        # `x = container[i]` / `x = obj.attr` (possibly through cast): x is another name for that mutable element
        if len(s.targets) == 1 and isinstance(s.targets[0], ast.Name) and isinstance(v, SAdt) and v.sort in ("Node", "NodeList", "AttrList"):
            src = s.value
            if isinstance(src, ast.Call) and isinstance(src.func, ast.Name) and src.func.id == "cast" and len(src.args) == 2:
                src = src.args[1]
            if isinstance(src, (ast.Subscript, ast.Attribute)) and not (isinstance(src, ast.Subscript) and isinstance(src.slice, ast.Slice)):
                self.st.aliases[s.targets[0].id] = src

    def stmt_AnnAssign(self, s):
        if s.value is None:
            return
        self.assign(s.target, self.eval(s.value))

    def stmt_AugAssign(self, s):
        cur = self.eval(_load(s.target))
        rhs = self.eval(s.value)
        if isinstance(s.op, ast.Add):
            v = self.aug_add(cur, rhs, s)
        else:
            v = self.binop(s.op, cur, rhs, s)
        self.assign(s.target, v)

    def aug_add(self, cur, rhs, node):
        # A4: x += y without __iadd__ is x = x + y.  list.__iadd__ is extend (in place).
        if isinstance(cur, PySeq) and cur.kind == "list":
            if not cur.fresh:
                self.oblige_frame(node, "list += on a non-local list")
            cur.items.extend(self.iter_concrete(rhs, node))
            return cur
        return self.binop(ast.Add(), cur, rhs, node)

    def stmt_If(self, s):
        c = self.truth(self.eval(s.test))
        if self.branch(c):
            self.exec_block(s.body)
        else:
            self.exec_block(s.orelse)

    def stmt_Raise(self, s):
        if s.exc is None:
            raise Unsupported("bare raise")
        e = self.eval(s.exc)
        if isinstance(e, SClass):
            e = SExc(e.name, [])
        if not isinstance(e, SExc):
            raise Unsupported(f"raise of {e!r}")
        raise _Raise(e, s.lineno)

    def stmt_Continue(self, s):
        raise _Continue()

    def stmt_Break(self, s):
        raise _Break()

    def stmt_ImportFrom(self, s):
        # function-local `from . import x` / `from ._core import TagList`: resolved lazily by name
        for a in s.names:
            self.st.env[a.asname or a.name] = self.resolve_import(s.module, a.name, s.level)

    def resolve_import(self, module, name, level):
        base = "htmltools" if level else ""
        full = (base + ("." + module if module else "")) if level else module
        return self.global_name(name, module_hint=full)

    def stmt_For(self, s):
        self.exec_for(s)

    def stmt_Assert(self, s):
        return

    # ------------------------------------------------------------------ assignment
    def assign(self, tgt, v):
        if isinstance(tgt, ast.Name):
            self.st.env[tgt.id] = v
            self.st.aliases.pop(tgt.id, None)
            self.st.fresh_slots = {x for x in self.st.fresh_slots if not (x.startswith(tgt.id + ".") or x.startswith(tgt.id + "["))}
            return
        if isinstance(tgt, (ast.Tuple, ast.List)):
            items = self.iter_concrete(v, tgt)
            if len(items) != len(tgt.elts):
                raise Unsupported("unpacking arity")
            for t, x in zip(tgt.elts, items):
                self.assign(t, x)
            return
        if isinstance(tgt, ast.Attribute):
            obj = self.eval(tgt.value)
            return self.set_attr(obj, tgt.attr, v, tgt)
        if isinstance(tgt, ast.Subscript):
            obj = self.eval(tgt.value)
            r = self.set_item(obj, tgt.slice, v, tgt)
            if getattr(v, "fresh", False) and not isinstance(tgt.slice, ast.Slice):
                self.st.fresh_slots.add(ast.unparse(tgt))
            return r
        raise Unsupported(f"assignment target {type(tgt).__name__}")

    def set_attr(self, obj, attr, v, node):
        if isinstance(obj, PyRec):
            if not obj.fresh:
                self.oblige_frame(node, f"attribute write .{attr} on a non-local object")
            obj.fields[attr] = v
            return
        hook = getattr(self, "set_attr_hook", None)
        if hook and hook(obj, attr, v, node):
            return
        raise Unsupported(f"attribute assignment on {obj!r}")

    def set_item(self, obj, sl, v, node):
        hook = getattr(self, "set_item_hook", None)
        if hook and hook(obj, sl, v, node):
            return
        if isinstance(obj, PyDict):
            if not obj.fresh:
                self.oblige_frame(node, "item write on a non-local dict")
            k = self.eval(sl)
            self.dict_set(obj, k, v)
            return
        if isinstance(obj, PySeq) and obj.kind == "list":
            if not obj.fresh:
                self.oblige_frame(node, "item write on a non-local list")
            k = self.eval(sl)
            if isinstance(k, SInt) and z3.is_int_value(z3.simplify(k.t)):
                obj.items[z3.simplify(k.t).as_long()] = v
                return
        raise Unsupported(f"item assignment on {obj!r}")

    def oblige_frame(self, node, msg):
        self.oblige(f"F:{self.short()}:L{getattr(node, 'lineno', '?')}:frame", z3.BoolVal(False), kind="F",
                    where=self.src.line(self.module, node), note=msg)

    def short(self):
        return self.fn_qual.replace("htmltools.", "")

    # ------------------------------------------------------------------ dict helpers (concrete key structure)
    def key_eq(self, a: SV, b: SV):
        if isinstance(a, SStr) and isinstance(b, SStr):
            return a.t == b.t
        raise Unsupported("dict key comparison")

    def dict_lookup(self, d: PyDict, k: SV):
        """returns index of the entry whose key equals k on this path, or None (forks)"""
        for i, (kk, _) in enumerate(d.items):
            if self.branch(self.key_eq(kk, k)):
                return i
        return None

    def dict_set(self, d: PyDict, k, v):
        i = self.dict_lookup(d, k)
        if i is None:
            d.items.append((k, v))
        else:
            d.items[i] = (d.items[i][0], v)

    # ------------------------------------------------------------------ expressions
    def eval(self, e) -> SV:
        m = getattr(self, "expr_" + type(e).__name__, None)
        if m is None:
            raise Unsupported(f"expression {type(e).__name__} at line {getattr(e, 'lineno', '?')}")
        return m(e)

    def expr_Constant(self, e):
        return self.const(e.value)

    def const(self, c):
        if isinstance(c, bool):
            return SBool(z3.BoolVal(c))
        if isinstance(c, int):
            return SInt(z3.IntVal(c))
        if isinstance(c, str):
            return SStr(z3.StringVal(c))
        if c is None:
            return SNone()
        if c is Ellipsis:
            return SEllipsis()
        if isinstance(c, (dict, OrderedSet, list, tuple)):
            return PyConst(c)
        raise Unsupported(f"constant {c!r}")

    def expr_Name(self, e):
        if e.id in self.st.env:
            return self.st.env[e.id]
        return self.global_name(e.id)

    CLASSES = {"Tag", "TagList", "HTML", "MetadataNode", "HTMLDependency", "Tagifiable", "ReprHtml", "TagAttrDict",
               "str", "int", "float", "bool", "dict", "list", "tuple", "Sequence", "Mapping", "JSXTag", "jsx",
               "RuntimeError", "TypeError", "ValueError", "KeyError", "Exception", "NotImplementedError", "ImportError",
               "HTMLDocument", "Version", "Path", "set", "object", "UserList", "UserString", "type"}
    MODULES = {"re", "json", "os", "posixpath", "urllib", "sys", "copy", "shutil", "hashlib", "importlib", "tempfile"}
    BUILTINS = {"isinstance", "len", "str", "cast", "copy", "deepcopy", "reversed", "range", "enumerate", "list", "dict",
                "tuple", "getattr", "type", "super", "repr", "sorted", "set", "hasattr", "print", "open", "any", "all"}

    def global_name(self, name, module_hint=None):
        if name in self.BUILTINS:
            return SBuiltin(name)
        if name in self.CLASSES:
            return SClass(name)
        if name in self.MODULES:
            return SModule(name)
        # function under contract or known in this module?
        for mod in ([module_hint] if module_hint else []) + [self.module, "htmltools._core", "htmltools._util", "htmltools._jsx"]:
            if mod is None:
                continue
            q = f"{mod}.{name}"
            if self.contracts.has(q):
                return SFunc(q)
        # module-level constant of the current module
        for mod in ([module_hint] if module_hint else []) + [self.module]:
            try:
                cv = self.src.const(mod, name)
            except Exception:
                continue
            # a module-level scalar constant (a hoisted literal) is the literal itself
            if isinstance(cv, (bool, int, str)) or cv is None:
                return self.const(cv)
            return PyConst(cv, name=name)
        for mod in [self.module, "htmltools._core", "htmltools._util", "htmltools._jsx"]:
            q = f"{mod}.{name}"
            if self.src.has(q):
                return SFunc(q)
        hook = getattr(self, "global_hook", None)
        if hook:
            r = hook(name)
            if r is not None:
                return r
        raise Unsupported(f"global name {name}")

    def expr_JoinedStr(self, e):
        parts = []
        for p in e.values:
            if isinstance(p, ast.Constant):
                parts.append(z3.StringVal(p.value))
            elif isinstance(p, ast.FormattedValue):
                if p.format_spec is not None or p.conversion not in (-1, 115):
                    raise Unsupported("format spec / conversion in f-string")
                parts.append(self.str_of(self.eval(p.value), p).t)
            else:
                raise Unsupported("f-string part")
        return SStr(_concat(parts))

    def expr_BoolOp(self, e):
        # short-circuit; value semantics of and/or on non-bools is kept (returns the operand)
        is_and = isinstance(e.op, ast.And)
        vals = e.values
        cur = self.eval(vals[0])
        for nxt in vals[1:]:
            if isinstance(cur, SBool):
                t = cur.t
                if self.branch(t) == is_and:
                    cur = self.eval(nxt)
                else:
                    return cur if not isinstance(cur, SBool) else SBool(z3.BoolVal(not is_and))
            else:
                t = self.truth(cur)
                if self.branch(t) == is_and:
                    cur = self.eval(nxt)
                else:
                    return cur
        return cur

    def expr_UnaryOp(self, e):
        v = self.eval(e.operand)
        if isinstance(e.op, ast.Not):
            return SBool(z3.Not(self.truth(v)))
        if isinstance(e.op, ast.USub) and isinstance(v, SInt):
            return SInt(-v.t)
        raise Unsupported("unary op")

    def expr_IfExp(self, e):
        c = self.truth(self.eval(e.test))
        return self.eval(e.body) if self.branch(c) else self.eval(e.orelse)

    def expr_BinOp(self, e):
        a = self.eval(e.left)
        b = self.eval(e.right)
        return self.binop(e.op, a, b, e)

    def binop(self, op, a, b, node):
        if isinstance(op, ast.Add):
            hook = getattr(self, "add_hook", None)
            if hook:
                r = hook(a, b, node)
                if r is not None:
                    return r
            if isinstance(a, SInt) and isinstance(b, SInt):
                return SInt(a.t + b.t, nat=a.nat and b.nat)
            if isinstance(a, PySeq) and isinstance(b, PySeq) and a.kind == b.kind:
                return PySeq(a.items + b.items, a.kind, True)
            if isinstance(a, SStr) or isinstance(b, SStr) or (isinstance(a, SAdt) and a.sort in ("Node", "AttrVal")):
                return SStr(z3.Concat(self.as_str(a, node).t, self.as_str(b, node).t))
            raise Unsupported(f"+ on {a!r}, {b!r}")
        if isinstance(op, ast.Sub) and isinstance(a, SInt) and isinstance(b, SInt):
            return SInt(a.t - b.t)
        if isinstance(op, ast.Mult):
            if isinstance(a, SStr) and isinstance(b, SInt):
                return SStr(self.w.funcs["rep"](a.t, b.t))
            if isinstance(a, SInt) and isinstance(b, SInt):
                return SInt(a.t * b.t)
        raise Unsupported(f"binary operator {type(op).__name__} on {a!r}, {b!r}")

    def expr_Compare(self, e):
        if len(e.ops) != 1:
            raise Unsupported("chained comparison")
        op = e.ops[0]
        # len(x) <op> k on symbolic lists: shape predicates
        if isinstance(e.left, ast.Call) and isinstance(e.left.func, ast.Name) and e.left.func.id == "len" and "len" not in self.st.env:
            x = self.eval(e.left.args[0])
            k = self.eval(e.comparators[0])
            if isinstance(x, SAdt) and isinstance(k, SInt) and z3.is_int_value(z3.simplify(k.t)):
                r = self.len_cmp(x, op, z3.simplify(k.t).as_long())
                if r is not None:
                    return SBool(r)
            return self.compare(op, self.len_of(x, e.left), k, e)
        a = self.eval(e.left)
        b = self.eval(e.comparators[0])
        return self.compare(op, a, b, e)

    def list_shape(self, x: SAdt):
        return {"NodeList": ("NNil", "NCons", "tl"), "AttrList": ("ANil", "ACons", "tl")}.get(x.sort) or getattr(self, "extra_list_shapes", {}).get(x.sort)

    def len_cmp(self, x: SAdt, op, k: int):
        sh = self.list_shape(x)
        if sh is None:
            return None
        nil, cons, tl = sh

        def len_is(t, n):
            if n == 0:
                return self.is_c(nil, t)
            return z3.And(self.is_c(cons, t), len_is(self.acc(cons, tl, t), n - 1))

        def len_ge(t, n):
            if n == 0:
                return z3.BoolVal(True)
            return z3.And(self.is_c(cons, t), len_ge(self.acc(cons, tl, t), n - 1))
        if isinstance(op, ast.Eq):
            return len_is(x.t, k)
        if isinstance(op, ast.NotEq):
            return z3.Not(len_is(x.t, k))
        if isinstance(op, ast.Gt):
            return len_ge(x.t, k + 1)
        if isinstance(op, ast.GtE):
            return len_ge(x.t, k)
        if isinstance(op, ast.Lt):
            return z3.Not(len_ge(x.t, k))
        if isinstance(op, ast.LtE):
            return z3.Not(len_ge(x.t, k + 1))
        return None

    def len_of(self, x, node):
        if isinstance(x, (PySeq, PyDict)):
            return SInt(z3.IntVal(len(x.items)), nat=True)
        if isinstance(x, SStr):
            return SInt(z3.Length(x.t), nat=True)
        hook = getattr(self, "len_hook", None)
        if hook:
            r = hook(x)
            if r is not None:
                return r
        raise Unsupported(f"len({x!r})")

    def compare(self, op, a, b, node):
        if isinstance(op, (ast.Is, ast.IsNot)):
            r = self.identical(a, b)
            return SBool(r if isinstance(op, ast.Is) else z3.Not(r))
        if isinstance(op, (ast.Eq, ast.NotEq)):
            r = self.equal(a, b, node)
            return SBool(r if isinstance(op, ast.Eq) else z3.Not(r))
        if isinstance(op, (ast.In, ast.NotIn)):
            r = self.contains(b, a, node)
            return SBool(r if isinstance(op, ast.In) else z3.Not(r))
        if isinstance(a, SInt) and isinstance(b, SInt):
            t = {ast.Lt: a.t < b.t, ast.LtE: a.t <= b.t, ast.Gt: a.t > b.t, ast.GtE: a.t >= b.t}[type(op)]
            return SBool(t)
        hook = getattr(self, "compare_hook", None)
        if hook:
            r = hook(op, a, b, node)
            if r is not None:
                return r
        raise Unsupported(f"comparison {type(op).__name__} on {a!r}, {b!r}")

    def identical(self, a, b):
        if isinstance(b, SNone):
            if isinstance(a, SNone):
                return z3.BoolVal(True)
            hook = getattr(self, "is_none_hook", None)
            if hook:
                r = hook(a)
                if r is not None:
                    return r
            return z3.BoolVal(False)
        if isinstance(b, SBool) and z3.is_true(b.t) or isinstance(b, SBool) and z3.is_false(b.t):
            if isinstance(a, SBool):
                return a.t == b.t
            hook = getattr(self, "is_bool_hook", None)
            if hook:
                r = hook(a, z3.is_true(b.t))
                if r is not None:
                    return r
            return z3.BoolVal(False)
        raise Unsupported(f"`is` on {a!r}, {b!r}")

    def equal(self, a, b, node):
        if isinstance(a, SStr) and isinstance(b, SStr):
            return a.t == b.t
        if isinstance(a, SInt) and isinstance(b, SInt):
            return a.t == b.t
        if isinstance(a, SBool) and isinstance(b, SBool):
            return a.t == b.t
        if isinstance(a, SNone) or isinstance(b, SNone):
            return z3.BoolVal(isinstance(a, SNone) and isinstance(b, SNone))
        if isinstance(a, SAdt) and isinstance(b, SStr) and a.sort == "AttrVal":
            return z3.And(self.is_c("Plain", a.t), self.acc("Plain", "s", a.t) == b.t)
        raise Unsupported(f"== on {a!r}, {b!r}")

    def contains(self, container, x, node):
        if isinstance(container, PyConst) and isinstance(container.v, (OrderedSet, list, tuple, dict)):
            xs = self.as_str(x, node) if not isinstance(x, SStr) else x
            keys = list(container.v)
            pred = self.contracts.const_pred(container.name) if container.name else None
            if pred is not None:
                return self.w.funcs[pred](xs.t) if pred in self.w.funcs else self.w.apply(pred, xs.t)
            return z3.Or(*[xs.t == z3.StringVal(k) for k in keys]) if keys else z3.BoolVal(False)
        if isinstance(container, PyDict):
            return z3.Or(*[self.key_eq(k, x) for k, _ in container.items]) if container.items else z3.BoolVal(False)
        if isinstance(container, PySeq):
            return z3.Or(*[self.equal(i, x, node) for i in container.items]) if container.items else z3.BoolVal(False)
        hook = getattr(self, "contains_hook", None)
        if hook:
            r = hook(container, x, node)
            if r is not None:
                return r
        raise Unsupported(f"`in` on {container!r}")

    def expr_Attribute(self, e):
        obj = self.eval(e.value)
        return self.get_attr(obj, e.attr, e)

    def get_attr(self, obj, attr, node):
        hook = getattr(self, "get_attr_hook", None)
        if hook:
            r = hook(obj, attr, node)
            if r is not None:
                return r
        if isinstance(obj, PyRec) and attr in obj.fields:
            return obj.fields[attr]
        if isinstance(obj, SModule):
            if obj.name in ("urllib", "os") and attr in ("parse", "path"):
                return SModule(obj.name + "." + attr)
            return SBuiltin(obj.name + "." + attr)
        if isinstance(obj, SAdt) and obj.sort == "Node":
            if attr in ("name", "add_ws", "attrs", "children"):
                if not self.implied(self.is_c("El", obj.t)):
                    raise Unsupported(f".{attr} on a node not known to be a Tag (line {node.lineno})")
                f = {"name": "name", "add_ws": "ws", "attrs": "attrs", "children": "kids"}[attr]
                s = {"name": "Str", "add_ws": "Bool", "attrs": "AttrList", "children": "NodeList"}[attr]
                return self.wrap(s, self.acc("El", f, obj.t), fresh=obj.fresh)
        # methods
        return SBuiltin(attr, bound=obj)

    def expr_Subscript(self, e):
        obj = self.eval(e.value)
        if isinstance(e.slice, ast.Slice):
            return self.get_slice(obj, e.slice, e)
        k = self.eval(e.slice)
        r = self.get_item(obj, k, e)
        if ast.unparse(e) in self.st.fresh_slots and isinstance(r, SAdt):
            r = SAdt(r.sort, r.t, fresh=True, pyclass=r.pyclass)     # this slot holds an object allocated in this activation
        return r

    def get_item(self, obj, k, node):
        if isinstance(obj, SAdt) and self.list_shape(obj) and isinstance(k, SInt) and z3.is_int_value(z3.simplify(k.t)):
            nil, cons, tl = self.list_shape(obj)
            idx = z3.simplify(k.t).as_long()
            if idx < 0:
                raise Unsupported("negative index on symbolic list")
            t = obj.t
            for _ in range(idx):
                if not self.implied(self.is_c(cons, t)):
                    if not self.branch(self.is_c(cons, t)):
                        self.raise_("IndexError", node)
                t = self.acc(cons, tl, t)
            if not self.implied(self.is_c(cons, t)):
                if not self.branch(self.is_c(cons, t)):
                    self.raise_("IndexError", node)
            c = self.ctor(cons)
            hd, hs = c.fields[0]
            return self.wrap(hs, self.acc(cons, hd, t))
        if isinstance(obj, PySeq) and isinstance(k, SInt) and z3.is_int_value(z3.simplify(k.t)):
            idx = z3.simplify(k.t).as_long()
            if -len(obj.items) <= idx < len(obj.items):
                return obj.items[idx]
            self.raise_("IndexError", node)
        if isinstance(obj, PyDict):
            i = self.dict_lookup(obj, k)
            if i is None:
                self.raise_("KeyError", node)
            return obj.items[i][1]
        if isinstance(obj, PyConst) and isinstance(obj.v, dict) and isinstance(k, SStr):
            for kk, vv in obj.v.items():
                if self.branch(k.t == z3.StringVal(kk)):
                    return self.const(vv)
            self.raise_("KeyError", node)
        hook = getattr(self, "get_item_hook", None)
        if hook:
            r = hook(obj, k, node)
            if r is not None:
                return r
        raise Unsupported(f"subscript on {obj!r}")

    def get_slice(self, obj, sl, node):
        hook = getattr(self, "get_slice_hook", None)
        if hook:
            r = hook(obj, sl, node)
            if r is not None:
                return r
        raise Unsupported("slice")

    def expr_Tuple(self, e):
        return PySeq(self.eval_elts(e.elts), "tuple", True)

    def expr_List(self, e):
        return PySeq(self.eval_elts(e.elts), "list", True)

    def eval_elts(self, elts):
        out = []
        for x in elts:
            if isinstance(x, ast.Starred):
                out.extend(self.iter_concrete(self.eval(x.value), x))
            else:
                out.append(self.eval(x))
        return out

    def expr_Dict(self, e):
        d = PyDict([], True)
        for k, v in zip(e.keys, e.values):
            if k is None:
                src = self.eval(v)
                for kk, vv in self.dict_items(src, e):
                    self.dict_set(d, kk, vv)
            else:
                self.dict_set(d, self.eval(k), self.eval(v))
        return d

    def dict_items(self, d, node):
        if isinstance(d, PyDict):
            return list(d.items)
        if isinstance(d, PyConst) and isinstance(d.v, dict):
            return [(self.const(k), self.const(v)) for k, v in d.v.items()]
        raise Unsupported(f"items of {d!r}")

    def iter_concrete(self, v, node):
        """items of a value whose length is concrete on this path"""
        if isinstance(v, PySeq):
            return list(v.items)
        if isinstance(v, PyDict):
            return [k for k, _ in v.items]
        if isinstance(v, PyConst):
            if isinstance(v.v, dict):
                return [self.const(k) for k in v.v]
            return [self.const(k) for k in v.v]
        hook = getattr(self, "iter_hook", None)
        if hook:
            r = hook(v, node)
            if r is not None:
                return r
        raise Unsupported(f"iteration over {v!r} needs a loop contract")

    def expr_ListComp(self, e):
        return self.comprehension(e)

    def expr_Call(self, e):
        from .calls import do_call
        return do_call(self, e)

    def expr_Starred(self, e):
        raise Unsupported("starred expression outside a call/list")

    def expr_Lambda(self, e):
        raise Unsupported("lambda")

    # ------------------------------------------------------------------ loops & comprehensions (in loops.py)
    def exec_for(self, s):
        from .loops import exec_for
        return exec_for(self, s)

    def comprehension(self, e):
        from .loops import comprehension
        return comprehension(self, e)


def _load(tgt):
    t = ast.parse(ast.unparse(tgt), mode="eval").body
    return t


def _concat(parts):
    parts = [p for p in parts]
    if not parts:
        return z3.StringVal("")
    if len(parts) == 1:
        return parts[0]
    return z3.Concat(*parts)
