"""Concrete side of the checker (DESIGN §5, §6): run the real code of the working tree (subprocess
under /venv/bin/python), compare with the executable L1 spec, search small inputs around a solver
counter-model, write replay files."""
from __future__ import annotations
import ast, json, os, random, subprocess, hashlib, time, itertools
from .speclang import REG
from .values import to_json, from_json, mk_list, un_list, default_value
from .extract import REPO

ROOT = os.path.dirname(os.path.dirname(os.path.abspath(__file__)))
REAL_PY = os.environ.get("HV_REAL_PY", "/venv/bin/python")


def run_real(jobs, repo=None, timeout=600):
    """Run jobs against the real code; returns list of results (same order)."""
    if not jobs:
        return []
    p = subprocess.run([REAL_PY, os.path.join(ROOT, "hv", "realrun.py"), repo or REPO], input=json.dumps(jobs),
                       capture_output=True, text=True, timeout=timeout, cwd="/")
    if p.returncode != 0:
        raise RuntimeError("realrun failed: " + p.stderr[-2000:])
    return json.loads(p.stdout)


# ---------------------------------------------------------------------------------------------------
# small-value generators per L1 sort
# ---------------------------------------------------------------------------------------------------
STRS = ["", "a", "b c", "&", "<", ">", '"', "'", "\n", "\r", "a&b", "<b>x</b>", "&amp;", "&lt;", " x ", "é", "\U0001F600", "-->", "</script>", "x_y", "  ", "x-", "x_", "x__", "a_b_", "-", "_", "data-x-", "<<<<<&&&&&>>>>><&>", "1<2, 2<3, 3<4, 4<5, 5<6, 6<7, 7<8, 8<9; <s>&</s>", "a\tb c", "x\ny"]
NAMES = ["div", "span", "p", "br", "img", "script", "style", "a", "x-y", "hr", "input", "custom"]
ATTRN = ["id", "class", "data-x", "style", "href"]


class Gen:
    def __init__(self, seed=0, atoms=None):
        self.r = random.Random(seed)
        self.atoms = atoms or {}

    def pick(self, sort, pool):
        extra = self.atoms.get(sort, [])
        if extra and self.r.random() < 0.4:
            return self.r.choice(extra)
        return self.r.choice(pool)

    def gen(self, sort, depth=2):
        r = self.r
        C = {n: c.pyclass for n, c in REG.ctors.items()}
        if sort == "Str":
            return self.pick("Str", STRS)
        if sort == "Bool":
            return r.random() < 0.5
        if sort == "Nat":
            return self.pick("Nat", [0, 1, 2, 3])
        if sort == "Int":
            return self.pick("Int", [-1, 0, 1, 2, 10])
        if sort == "AttrVal":
            return C["Plain"](self.gen("Str")) if r.random() < 0.7 else C["RawV"](self.gen("Str"))
        if sort == "AttrList":
            n = r.choice([0, 0, 1, 2, 3])
            keys = r.sample(ATTRN, n)
            return mk_list("AttrList", [(k, self.gen("AttrVal")) for k in keys])
        if sort == "Dep":
            return C["Dep"](r.random() < 0.7, r.choice(["a", "b", "c"]), r.choice([0, 1, 2, 10]), r.choice([0, 1, 2, 3]))
        if sort == "Node":
            extra = self.atoms.get("Node", [])
            if extra and r.random() < 0.3:
                return r.choice(extra)
            kinds = ["Txt", "Txt", "Raw", "Md", "Rp", "El", "El", "El"] if depth > 0 else ["Txt", "Raw", "Md", "Rp"]
            if self.atoms.get("allow_ob"):
                kinds.append("Ob")
            k = r.choice(kinds)
            if k == "Txt":
                return C["Txt"](self.gen("Str"))
            if k == "Raw":
                return C["Raw"](self.gen("Str"))
            if k == "Md":
                return C["Md"](self.gen("Dep"))
            if k == "Rp":
                return C["Rp"](self.gen("Str"), r.choice([100, 101, 102]))
            if k == "Ob":
                return C["Ob"](r.choice([200, 201]))
            return C["El"](self.pick("Name", NAMES), r.random() < 0.5, self.gen("AttrList"), self.gen("NodeList", depth - 1))
        if sort == "NodeList":
            n = r.choice([0, 1, 1, 2, 2, 3, 4])
            items = [self.gen("Node", depth) for _ in range(n)]
            if r.random() < 0.12:
                # a first child that renders to nothing (empty text / markup / _repr_html_), then a block tag: exercises "is this the first line?"
                items = [r.choice([C["Txt"](""), C["Raw"](""), C["Rp"]("", 100)]), C["El"]("div", True, mk_list("AttrList", []), mk_list("NodeList", [C["Txt"]("x")]))] + items[:2]
            return mk_list("NodeList", items)
        if sort == "St":
            return C["St"](self.gen("Str"), r.random() < 0.5, r.random() < 0.5)
        if sort == "AddArg":
            return C[r.choice(["APlain", "AHtml", "AObj"])](self.gen("Str"))
        if sort == "DepList":
            return mk_list("DepList", [C["Dep"](True, r.choice(["a", "b", "c"]), r.choice([0, 1, 2, 10]), r.choice([0, 1, 2, 3])) for _ in range(r.choice([0, 1, 2, 3, 5]))])
        if sort == "Child":
            k = r.choice(["CNone", "CInt", "CFloat", "CBoolC", "CNode", "CNode", "CNode", "CSeq", "CSeq", "CBad"] if depth > 0 else ["CNone", "CInt", "CBoolC", "CNode", "CNode", "CBad"])
            if k == "CNone":
                return C["CNone"]()
            if k == "CInt":
                return C["CInt"](r.choice([0, 1, -2, 10]))
            if k == "CFloat":
                return C["CFloat"](r.choice([0, 1, 2, 1234567, 31415926]))
            if k == "CBoolC":
                return C["CBoolC"](r.random() < 0.5)
            if k == "CNode":
                return C["CNode"](self.gen("Node", max(0, depth - 1)))
            if k == "CBad":
                return C["CBad"](r.choice([1, 2]))
            kind = r.choice([0, 1, 2])
            if kind == 2:   # a TagList argument holds stored nodes only
                return C["CSeq"](2, mk_list("ChildList", [C["CNode"](self.gen("Node", 0)) for _ in range(r.choice([0, 1, 2]))]))
            return C["CSeq"](kind, self.gen("ChildList", depth - 1))
        if sort == "ChildList":
            return mk_list("ChildList", [self.gen("Child", depth) for _ in range(r.choice([0, 1, 1, 2, 3]))])
        if sort == "AttrArg":
            k = r.choice(["VNone", "VBool", "VStr", "VStr", "VHtml", "VInt", "VFloat", "VOther"])
            return {"VNone": lambda: C["VNone"](), "VBool": lambda: C["VBool"](r.random() < 0.5), "VStr": lambda: C["VStr"](self.gen("Str")),
                    "VHtml": lambda: C["VHtml"](self.gen("Str")), "VInt": lambda: C["VInt"](r.choice([0, 3, -1])), "VFloat": lambda: C["VFloat"](r.choice([0, 1])),
                    "VOther": lambda: C["VOther"](1)}[k]()
        if sort == "OptStr":
            return C["NoStr"]() if r.random() < 0.3 else C["SomeStr"](r.choice(["lib", "x/y", "l"]))
        if sort == "ArgDict":
            keys = r.sample(["class", "class_", "id", "data_x", "x__", "style", "a-b", "a_b"], r.choice([0, 1, 2, 3]))
            return mk_list("ArgDict", [(k, self.gen("AttrArg")) for k in keys])
        if sort == "ArgDicts":
            return mk_list("ArgDicts", [self.gen("ArgDict") for _ in range(r.choice([0, 1, 2]))])
        if sort == "OptAV":
            return C["NoAV"]() if r.random() < 0.3 else C["SomeAV"](self.gen("AttrVal"))
        if sort == "TagArg":
            return C["TDict"](self.gen("ArgDict")) if r.random() < 0.35 else C["TChild"](self.gen("Child", depth))
        if sort == "TagArgs":
            return mk_list("TagArgs", [self.gen("TagArg", depth) for _ in range(r.choice([0, 1, 2, 3]))])
        if sort == "StrList":
            return mk_list("StrList", [r.choice(["a", "b", "c-d", "x"]) for _ in range(r.choice([0, 1, 2]))])
        if sort == "CssVal":
            k = r.choice(["CssNone", "CssStr", "CssStr", "CssInt", "CssList"])
            return {"CssNone": lambda: C["CssNone"](), "CssStr": lambda: C["CssStr"](r.choice(["12px", "red", "", "a b"])), "CssInt": lambda: C["CssInt"](r.choice([0, 5])),
                    "CssList": lambda: C["CssList"](self.gen("StrList"))}[k]()
        if sort == "CssArgs":
            keys = r.sample(["font_size", "backgroundColor", "color", "margin_top", "X", "a_B"], r.choice([0, 1, 2, 3]))
            return mk_list("CssArgs", [(k, self.gen("CssVal")) for k in keys])
        hook = GEN_HOOKS.get(sort)
        if hook:
            return hook(self, depth)
        raise ValueError(f"no generator for sort {sort}")


GEN_HOOKS = {}


def atoms_of(values):
    """harvest atoms (strings, ints, nodes) of spec values for directed search"""
    atoms = {"Str": [], "Nat": [], "Int": [], "Node": [], "Name": []}

    def walk(v):
        if isinstance(v, str):
            atoms["Str"].append(v)
        elif isinstance(v, bool):
            pass
        elif isinstance(v, int):
            atoms["Int"].append(v)
            if v >= 0:
                atoms["Nat"].append(v)
        elif hasattr(v, "__dataclass_fields__"):
            c = REG.ctors[type(v).__name__]
            if c.adt.name == "Node":
                atoms["Node"].append(v)
                if c.name == "El":
                    atoms["Name"].append(v.name)
            for f, _ in c.fields:
                walk(getattr(v, f))
    for v in values:
        walk(v)
    return atoms


# ---------------------------------------------------------------------------------------------------
# contract-level differential run: real function vs executable spec
# ---------------------------------------------------------------------------------------------------
def spec_namespace():
    ns = {}
    for n, f in REG.fns.items():
        ns[n] = f.pyfn
    for n, c in REG.ctors.items():
        ns[n] = c.pyclass
    return ns


def eval_spec(expr, env):
    ns = spec_namespace()
    ns.update(env)
    return eval(compile(ast.parse(expr, mode="eval"), "<contract>", "eval"), ns)


def call_job(src, c, argvals, snapshot=False, expansions=None):
    """job for realrun calling the contract's function with the given spec values"""
    fn = src.find(c.body_name(src))
    a = fn.args
    posnames = [x.arg for x in a.posonlyargs + a.args]
    kwonly = [x.arg for x in a.kwonlyargs]
    args, kwargs, sorts = [], {}, []
    star = starkw = None
    for p, s in c.params:
        v = to_json(argvals[p])
        if a.kwarg is not None and p == a.kwarg.arg:
            starkw = v
        elif p in kwonly:
            kwargs[p] = v
        else:
            if a.vararg is not None and p == a.vararg.arg:
                star = len(args)
            args.append(v)
            sorts.append(s)
    job = {"kind": "call", "fn": c.body_name(src), "args": args, "kwargs": kwargs, "snapshot": snapshot, "arg_sorts": sorts,
           "ret_sort": c.returns, "star": star, "starkw": starkw}
    if expansions:
        job["expansions"] = expansions
    return job


def real_args_after(src, c, r):
    """map the snapshot of the real call's arguments after the call back to parameter names"""
    fn = src.find(c.body_name(src))
    kwonly = [x.arg for x in fn.args.kwonlyargs]
    out, i = {}, 0
    for p, s in c.params:
        if p in kwonly or (fn.args.kwarg is not None and p == fn.args.kwarg.arg):
            continue
        if i < len(r["args_after"]):
            out[p] = r["args_after"][i]
        i += 1
    return out


def expected_outcome(c, argvals):
    """('raise', Exc) | ('return', value | None-if-not-functional) per the contract, evaluated in Python"""
    env = dict(argvals)
    for exc, cond in c.raises:
        if eval_spec(cond, env):
            return ("raise", exc)
    for en in c.ensures:
        t = ast.parse(en, mode="eval").body
        if isinstance(t, ast.Compare) and isinstance(t.left, ast.Name) and t.left.id == "result" and isinstance(t.ops[0], ast.Eq):
            return ("return", eval_spec(ast.unparse(t.comparators[0]), env))
    return ("return", None)


def canon(j, sort):
    """view-independent JSON form: a str|HTML result is compared on the AttrVal view"""
    if sort in ("AttrVal", "OptAV"):
        if isinstance(j, str):
            j = {"$": "Plain", "s": j}
        elif isinstance(j, dict) and j.get("$") == "Raw":
            j = {"$": "RawV", "s": j["s"]}
        if sort == "OptAV":
            if j is None:
                return {"$": "NoAV"}
            if isinstance(j, dict) and j.get("$") in ("Plain", "RawV"):
                return {"$": "SomeAV", "v": j}
    return j


def user_object_env():
    """a fixed interpretation of the user callbacks (Env): what the objects with identities 200, 201, 102 expand to.
    Returned as (python bindings for the executable spec, JSON table for realrun)."""
    C = {n: c.pyclass for n, c in REG.ctors.items()}
    dep = C["Md"](C["Dep"](True, "x", 1, 5))
    e200 = C["TgList"](mk_list("NodeList", [C["Txt"]("exp<&>"), dep, C["El"]("em", False, mk_list("AttrList", []), mk_list("NodeList", [C["Txt"]("i")]))]))
    e201 = C["TgNode"](C["El"]("section", True, mk_list("AttrList", [("id", C["Plain"]("s"))]), mk_list("NodeList", [C["Raw"]("<hr>")])))
    e102 = C["TgList"](mk_list("NodeList", []))
    table = {200: e200, 201: e201, 102: e102}
    py = {"tagifyOf": lambda oid: table.get(oid, C["TgList"](mk_list("NodeList", []))), "hasTagify": lambda oid: oid in table}
    js = {str(k): to_json(v.items if type(v).__name__ == "TgList" else v.node) for k, v in table.items()}
    return py, js


def bind_real_env():
    """interpret the abstract Env functions of the executable spec the way hv.realrun builds the corresponding real objects"""
    from .spec import tagify as _tg, document as _doc
    py_env, js_env = user_object_env()
    _tg.BIND_T.update(py_env)
    C = {n: c.pyclass for n, c in REG.ctors.items()}
    # realrun.dec builds HTMLDependency(name, version, head=TagList(HTML("<!--uid-->")) if uid else None): its as_html_tags() is that head
    _doc.BIND_D["depTags"] = lambda d, lp, iv: mk_list("NodeList", [C["Raw"](f"<!--{d.uid}-->")] if d.uid else [])
    _doc.BIND_D["verStr"] = lambda v: f"0.{v}" if v >= 0 else f"0.0.dev{1000000 + v}"
    return py_env, js_env


def differential_script(src, c, n=200, seed=0, atoms=None, repo=None, extra_requires=()):
    """differential replay of a harness contract through its DiffSpec: a realrun script builds the receiver and calls the real
    method; the last step's value is compared with the executable spec"""
    d = c.diff
    py_env, js_env = bind_real_env()
    g = Gen(seed, atoms)
    cases, tries = [], 0
    while len(cases) < n and tries < n * 20:
        tries += 1
        vals = d.gen(g) if d.gen else {p: g.gen(s, 2) for p, s in d.params}
        try:
            if all(eval_spec(r, dict(vals)) for r in list(d.requires) + list(extra_requires)):
                cases.append(vals)
        except RecursionError:
            continue
    jobs = [{"kind": "script", "steps": d.steps({k: to_json(v) for k, v in vals.items()}), "expansions": js_env, "stop_on_exc": True} for vals in cases]
    res = run_real(jobs, repo)
    mism = []
    for v, r in zip(cases, res):
        inp = {k: to_json(x) for k, x in v.items()}
        if "harness_error" in r:
            mism.append({"input": inp, "harness_error": r["harness_error"]})
            continue
        last = r["trace"][-1]          # the script stops at the first exception
        exp_exc = next((exc for exc, cond in d.raises if eval_spec(cond, dict(v))), None)
        if exp_exc is not None:
            if last.get("exc") != exp_exc:
                mism.append({"input": inp, "expected": f"raises {exp_exc}", "observed": {k: last[k] for k in last if k != "env"}})
            continue
        if "exc" in last:
            mism.append({"input": inp, "expected": "no exception", "observed": {k: last[k] for k in last if k != "env"}})
            continue
        if d.expected is not None:
            want = to_json(eval_spec(d.expected, dict(v)))
            if canon(last["ok"], d.ret_sort) != canon(want, d.ret_sort):
                mism.append({"input": inp, "expected": want, "observed": last["ok"]})
    return len(cases), mism


def exact_case(c, model, seed=0):
    """the solver's counter-model as one concrete input of contract c: {param: spec value}, or None when it cannot be rebuilt
    (a parameter of an engine-only sort, a value that does not convert).  Parameters the model leaves open get a generated value."""
    import re as _re
    g = Gen(seed, None)
    vals = {}
    hit = 0
    for p, s in c.params:
        if s == "Any":
            return None
        key = None
        for k in model:
            if k == p or _re.fullmatch(_re.escape(p) + r"!\d+", k):
                key = k
                break
        if key is None:
            vals[p] = g.gen(s, 1)
            continue
        try:
            vals[p] = from_json(model[key]) if isinstance(model[key], (dict, list)) else model[key]
            hit += 1
        except Exception:
            return None
    return vals if hit else None


def differential(src, c, n=200, seed=0, atoms=None, repo=None, depth=2, extra_requires=(), exact=None):
    if getattr(c, "diff", None) is not None:
        return differential_script(src, c, n, seed, atoms, repo, extra_requires)
    py_env, js_env = bind_real_env()
    """Run the real function of contract c on n generated inputs satisfying `requires` and compare with
    the executable spec.  Returns (tested, mismatches[list of dict]).  `exact`: run exactly these inputs instead."""
    g = Gen(seed, atoms)
    cases = []
    tries = 0
    if exact is not None:
        for vals in exact:
            try:
                if all(eval_spec(r, vals) for r in list(c.requires) + list(extra_requires)):
                    cases.append(vals)
            except Exception:
                pass
        n = 0
    while len(cases) < n and tries < n * 20:
        tries += 1
        vals = {p: g.gen(s, depth) for p, s in c.params}
        try:
            if all(eval_spec(r, vals) for r in list(c.requires) + list(extra_requires)):
                cases.append(vals)
        except RecursionError:
            continue
    jobs = [call_job(src, c, v, snapshot=bool(c.modifies), expansions=js_env) for v in cases]
    res = run_real(jobs, repo)
    mism = []
    pnames = [p for p, _ in c.params]
    for v, r in zip(cases, res):
        if "harness_error" in r:
            mism.append({"input": {k: to_json(x) for k, x in v.items()}, "harness_error": r["harness_error"]})
            continue
        kind, exp = expected_outcome(c, v)
        if c.modifies and "args_after" in r:
            after = real_args_after(src, c, r)
            for m in c.modifies:
                if kind == "raise" and m in c.unchanged_on_raise or kind == "return" and m in c.post:
                    want = v[m] if kind == "raise" else eval_spec(c.post[m], dict(v))
                    if m in after and canon(after[m], c.sort_of(m)) != canon(to_json(want), c.sort_of(m)) and r.get("exc") in (None, exp if kind == "raise" else None):
                        mism.append({"input": {k: to_json(x) for k, x in v.items()}, "expected": {"state of " + m: to_json(want)}, "observed": {"state of " + m: after[m], "outcome": {k2: r[k2] for k2 in r if k2 in ("ok", "exc")}}})
        if kind == "raise":
            if r.get("exc") != exp:
                mism.append({"input": {k: to_json(x) for k, x in v.items()}, "expected": f"raises {exp}", "observed": r})
        else:
            if "exc" in r:
                mism.append({"input": {k: to_json(x) for k, x in v.items()}, "expected": to_json(exp), "observed": r})
            elif exp is not None and canon(r["ok"], c.returns) != canon(to_json(exp), c.returns):
                mism.append({"input": {k: to_json(x) for k, x in v.items()}, "expected": to_json(exp), "observed": r["ok"]})
    return len(cases), mism


# ---------------------------------------------------------------------------------------------------
# replay files
# ---------------------------------------------------------------------------------------------------
def write_replay(prop, obligation, payload):
    d = os.path.join(os.environ.get("HV_REPLAY_DIR") or os.path.join(ROOT, "replays"), prop)
    os.makedirs(d, exist_ok=True)
    h = hashlib.sha1(json.dumps(payload, sort_keys=True, default=str).encode()).hexdigest()[:10]
    safe = "".join(ch if ch.isalnum() or ch in "._-" else "_" for ch in obligation)[:80]
    path = os.path.join(d, f"{safe}-{h}.json")
    payload = dict(payload, property=prop, obligation=obligation)
    with open(path, "w") as f:
        json.dump(payload, f, indent=1, default=str)
    return path
