"""Per-property verification plans (DESIGN §7): which functions are under contract, which Lean
theorems state the property, which finite side conditions and bounded parts belong to it."""
from __future__ import annotations
from dataclasses import dataclass, field

CORE = "htmltools._core."
UTIL = "htmltools._util."

RENDER_FNS = [UTIL + "html_escape", CORE + "_normalize_text", CORE + "Tag.get_html_string", CORE + "TagList.get_html_string"]


@dataclass
class Plan:
    id: str
    title: str
    level: str = "proof"                      # level written to evidence when everything is discharged
    contracts: list = field(default_factory=list)       # qualnames verified for this property
    lean: dict = field(default_factory=dict)            # module -> [theorem names that must compile] (P-obligations)
    gconds: list = field(default_factory=list)          # name prefixes of G-obligations that belong to the property
    oracle: str = ""                                    # hv/oracles/<name>.py executable reading of the statement
    own: object = None                                  # predicate(obligation name) -> the property's own clause?
    bounded: list = field(default_factory=list)         # labelled bounded stand-ins (never counted as proved)
    assumptions: list = field(default_factory=list)
    extra: object = None                                # callable(ctx) -> list[Verdict]  (F-obligations, special checks)
    design_ref: str = ""
    claim: str = ""                                     # MANIFEST level_claimed.text
    level_note: str = ""
    technique: str = ""
    relevance: dict = field(default_factory=dict)       # obligation-name pattern -> L1 feature expression (see hv.verify.relevance_check)


COMMON_ASSUMPTIONS = [
    "A1 abstraction: object graphs are finite acyclic trees mapped to Node/NodeList; distinct mutable parameters do not alias",
    "A2 isinstance is a predicate on constructors (Tag/str/HTML/MetadataNode/_repr_html_ object/tagify object)",
    "A3 library models: str.replace (1-char pattern) = repl1, re.search over literal single-char alternation = contains, str + and * as concat/rep, dict = insertion-ordered map",
    "A4 language semantics: left-to-right evaluation, for-loop over an unmodified list = left fold of its body, x += y without __iadd__ is x = x + y",
    "A5 user callbacks (_repr_html_, tagify) are pure functions of the object",
    "A6 the three emissions (Python / z3 / Lean) of an L1 spec function agree (cross-checked on samples each run)",
    "A7 termination of the recursive real functions (tree height) is not proved",
    "A8 machine integers treated as mathematical integers",
    "soundness of z3 / cvc5 and of the Lean kernel; the VC generator (hv.symexec) and spec emitters are cross-checked and mutation-tested, not verified",
]

PLANS: dict[str, Plan] = {}


def plan(p: Plan):
    PLANS[p.id] = p
    return p


plan(Plan(
    id="C07", title="Metadata nodes leave no trace in the markup",
    contracts=RENDER_FNS,
    lean={"HV.C07": ["rtag_strip", "rlist_strip", "hasObT_strip", "hasObL_strip", "C07_metadata_invisible", "C07_metadata_invisible_list", "C07_strip_idem"]},
    gconds=["G:TEXT_TABLE:keysFresh", "G:ATTR_TABLE:keysFresh", "G:TEXT_TABLE:singleCharKeys", "G:ATTR_TABLE:singleCharKeys",
            "G:TEXT_TABLE:regexLiteralKeys", "G:ATTR_TABLE:regexLiteralKeys", "G:MetadataNode:not-self-rendering", "G:HTMLDependency:not-self-rendering"],
    oracle="c07", design_ref="§7 C07",
))
plan(Plan(
    id="C05", title="No whitespace is ever injected into inline content",
    contracts=RENDER_FNS,
    lean={"HV.C05": ["C05_flat_inline_tag", "C05_flat_inline_list", "rlist_html_prefix", "C05_contiguous_list", "C05_contiguous_tag", "C05_siblings_adjacent"]},
    gconds=["G:TEXT_TABLE:keysFresh", "G:ATTR_TABLE:keysFresh", "G:TEXT_TABLE:singleCharKeys", "G:ATTR_TABLE:singleCharKeys",
            "G:TEXT_TABLE:regexLiteralKeys", "G:ATTR_TABLE:regexLiteralKeys", "G:tags:add_ws_default"],
    oracle="c05", design_ref="§7 C05",
    assumptions=["the fourth clause of the statement (layout whitespace only adjacent to tags of whitespace-enabled elements, `ws_placement`) is covered "
                 "only through C06's layout theorem for validly nested trees and the bounded oracle for invalid nestings; it is not a separate theorem"],
))
plan(Plan(
    id="C06", title="Block layout follows the documented line and indentation rules",
    contracts=RENDER_FNS,
    lean={"HV.C06": ["C06_layout_tag", "C06_layout_list_inv", "C06_layout_list"]},
    gconds=["G:TEXT_TABLE:keysFresh", "G:ATTR_TABLE:keysFresh", "G:TEXT_TABLE:singleCharKeys", "G:ATTR_TABLE:singleCharKeys",
            "G:TEXT_TABLE:regexLiteralKeys", "G:ATTR_TABLE:regexLiteralKeys"],
    oracle="c06", design_ref="§7 C06",
))


def _c19_extra(ctx):
    from .contracts.tagfns import c19_obligations
    return c19_obligations(ctx)


plan(Plan(
    id="C19", title="Every tag function creates its own element with the documented default",
    contracts=[CORE + "Tag.__init__"], extra=_c19_extra, oracle="c19", design_ref="§7 C19",
    claim="exhaustive over all tag functions, full-domain over their arguments: each loop-free body is the constructor call term itself "
          "(structural identity), defaults checked against the project's inline classification, re-exports by import identity",
    technique="loop-free pass-through obligations decided by structural identity of the symbolic result; finite side conditions on constants",
    level_note="assumes Python call semantics for *args/**kwargs forwarding (A4); Tag.__init__ is verified against its contract (raises TypeError unless _add_ws is a bool; fields set from the arguments)",
))


TABLE_G = ["G:TEXT_TABLE:", "G:ATTR_TABLE:"]
HTML_FNS = [CORE + "HTML." + m for m in ("as_string", "__str__", "_repr_html_", "__repr__", "__add__", "__radd__")]
TAD_FNS = [CORE + "TagAttrDict." + m for m in ("_normalize_attr_name", "_normalize_attr_value", "__setitem__", "update")]
TAD_INIT = CORE + "TagAttrDict.__init__"


def _own(*needles):
    def f(name):
        return not name.startswith("R:") and not name.startswith("F:") or any(n in name for n in needles)
    return f


PLANS["C05"].own = _own()          # C05 needs less than exact layout: a refuted refinement obligation is decided by the C05 oracle
PLANS["C07"].own = _own()          # exact refinement of the renderer supports C07; a refuted refinement obligation is decided by the C07 oracle
plan(Plan(
    id="C02", title="Plain-text children are inert data",
    contracts=RENDER_FNS + HTML_FNS[:4] + [CORE + "_tagchilds_to_tagnodes"],
    lean={"HV.C02": ["TEXT_keys", "TEXT_refs", "C02_esc_spec", "C02_decodes", "C02_no_lt_gt", "C02_amp_only_refs", "C02_esc_append",
                     "C02_text_inert_list", "C02_text_inert_tag"]},
    gconds=TABLE_G + ["G:htmltools.html_escape:reexport", "G:_NO_ESCAPE_TAG_NAMES:script-style"], oracle="c02", design_ref="§7 C02",
    own=_own("html_escape", "_normalize_text", "_tagchilds_to_tagnodes"),
    assumptions=["`every way of adding a child` stores strings whole and numbers as str(n): the conversion function _tagchilds_to_tagnodes is verified here too; the mutators that call it are C14's contracts"],
))
plan(Plan(
    id="C03", title="Attribute values are inert, single-line, and decode to the original",
    contracts=[UTIL + "html_escape", CORE + "Tag.get_html_string"] + TAD_FNS + HTML_FNS + [CORE + "consolidate_attrs", CORE + "Tag.add_class"],
    lean={"HV.C03": ["ATTR_keys", "ATTR_refs", "C03_esc_spec", "C03_decodes", "C03_inert", "C03_amp_only_refs", "C03_esc_append", "C03_esc_space",
                     "C03_attr_segment", "C03_plain_attr", "C03_open_tag", "C03_merge", "C03_merge_raw"]},
    gconds=TABLE_G, oracle="c03", design_ref="§7 C03",
    own=_own("html_escape", "TagAttrDict", "HTML.__add__", "HTML.__radd__", "Tag.get_html_string:loop0", "consolidate_attrs", "Tag.add_class"),
))
plan(Plan(
    id="C04", title="Trusted markup is emitted verbatim and escaping happens exactly once",
    contracts=RENDER_FNS + HTML_FNS + [CORE + "wrap_displayhook_handler.handler_wrapper", CORE + "HTMLTextDocument.render", CORE + "_tagchilds_to_tagnodes", CORE + "consolidate_attrs",
                                        CORE + "HTMLDocument.save_html", CORE + "Tag.save_html#delegates", CORE + "_render_tag_or_taglist", CORE + "Tag.add_class", CORE + "Tag.add_style"],
    lean={"HV.C02": ["C04_raw_verbatim_list", "C04_raw_verbatim_tag", "C04_repr_verbatim_tag", "C04_noesc_text_verbatim"],
          "HV.C03": ["C04_html_attr_verbatim", "C04_add_rend", "C04_add_raw", "C04_concat_algebra", "C04_all_plain"]},
    gconds=TABLE_G + ["G:HTML:no__iadd__"], oracle="c04", design_ref="§7 C04",
    own=_own("HTML.", "_normalize_text", "html_escape", "handler_wrapper", "HTMLTextDocument.render", "_tagchilds_to_tagnodes", "consolidate_attrs", "save_html", "Tag.add_class", "Tag.add_style"),
    assumptions=["`every rendering path`: besides get_html_string / render, the display hook of `with tag:` (its wrapper keeps _repr_html_ markup as HTML) and "
                 "HTMLTextDocument.render (placeholder replaced by str.replace, no template processing) are under contract here; HTMLDocument.render is C11's",
                 "`+` with operands other than str/HTML goes through str(other), an external call (A5); other UserString methods (%, format, join) are not in the statement"],
))


C14_FNS = [UTIL + "_flatten_recurse", UTIL + "flatten", CORE + "is_tag_node", CORE + "is_tag_child", CORE + "_tagchilds_to_tagnodes", CORE + "Tag.__init__"] + \
          [CORE + "TagList." + m for m in ("__init__", "extend", "append", "insert", "__add__", "__radd__", "__iadd__")] + \
          [CORE + "Tag." + m for m in ("extend", "append", "insert")]
plan(Plan(
    id="C14", title="Child lists hold only normalised nodes after any sequence of operations",
    contracts=C14_FNS,
    lean={"HV.C14": ["flatInto_acc", "flatStep_acc", "C14_flat_nil", "C14_flat_seq", "C14_flat_none", "C14_flat_atom", "C14_flat_append", "C14_flat_idem",
                     "C14_all_nodes", "C14_conv_number", "C14_conv_node", "C14_nodes_append", "C14_bad_append", "C14_nodes_cons_none", "C14_nodes_cons_node",
                     "C14_nodes_cons_seq", "C14_nodes_ofNodes", "C14_nodes_taglist_child", "C14_accepted_are_children",
                     "C14_insert_front", "C14_insert_end", "C14_insert_split", "C14_insert_len"],
          "HV.C14b": ["flatC_atoms"]},
    oracle="c14", design_ref="§7 C14",
    claim="every mutator of TagList/Tag children (own and inherited through the MRO) is verified against `data' = data[:i] ++ nodes(args) ++ data[i:]`, "
          "TypeError with data unchanged for unsupported arguments; stores into the child list carry a `stores-only-nodes` obligation; flattening/conversion algebra proved in Lean",
    assumptions=["UserList.__init__ / extend / slice assignment are modelled from the stdlib source as data = list(x) / data.extend(x) / data[i:i] = x (A3), not verified",
                 "slicing (`tl[i:j]`) and repetition (`tl * n`) go through UserList.__getitem__/__mul__ -> TagList(list): covered by Lean C14_nodes_ofNodes (re-normalising stored nodes is the identity) "
                 "and by the bounded oracle, not by an R-obligation on the stdlib methods",
                 "objects of unsupported type (CBad) have none of tagify/_repr_html_ and are not Sequences (A2)"],
))


plan(Plan(
    id="C15", title="Attribute names and values are normalised and merged in argument order",
    contracts=TAD_FNS + [TAD_INIT, CORE + "Tag.__init__", CORE + "consolidate_attrs"] + HTML_FNS[4:],
    lean={"HV.AttrFacts": ["mergeCall_nodup", "aupdate_nil_mergeCall", "C15_normName_spec", "C15_normName_no_underscore", "C15_normName_idem",
                           "C15_callDicts_pairs", "C15_order_first_appearance", "C15_merged_value", "C15_join_plain", "C15_update_replaces",
                           "C15_update_order", "C15_setitem_replaces", "C15_setitem_skips_none", "C15_consolidate_rebuild", "C15_keys_normalised"]},
    gconds=["G:TEXT_TABLE:keysFresh", "G:ATTR_TABLE:keysFresh"], oracle="c15", design_ref="§7 C15",
    assumptions=["floats are opaque atoms with an uninterpreted str(); values of unsupported type raise TypeError (VOther)",
                 "the children half of Tag(...) is C14's contract (nodes/bad), used here through TagList.__init__"],
))
plan(Plan(
    id="C16", title="Class/style helpers and css() act as token-set and declaration algebra",
    contracts=[CORE + "Tag." + m for m in ("add_class", "remove_class", "has_class", "add_style")] + [UTIL + "css", CORE + "TagAttrDict.update"],
    lean={"HV.C16": ["splitWs_toks_ok", "splitWs_joinSp", "splitWs_append_tok", "splitWs_prepend_tok", "C16_add_class_tokens", "C16_has_after_add",
                     "C16_add_keeps_others", "C16_has_class_membership", "C16_add_class_frame", "C16_remove_class_tokens", "C16_remove_drops_attr",
                     "C16_not_has_after_remove", "classOnce_of_nodup", "C16_css_shape", "C16_css_none_iff", "C16_css_accepted_by_add_style", "C16_cssKey_shape"]},
    oracle="c16", design_ref="§7 C16",
    assumptions=["str.lower is modelled on ASCII letters only (css keys with non-ASCII capitals are outside the model)",
                 "the remove_class theorems assume the attribute map has one `class` entry (classOnce), which holds for every real dict (classOnce_of_nodup)",
                 "add_class on an HTML()-marked class value stores the token attribute-escaped (C03): the token theorems are stated for plain class values"],
))


# A refuted refinement obligation of the renderer is the property's own failure when its counterexamples need the
# property's feature (decided by re-discharging with the feature excluded); otherwise the property oracle decides.
PLANS["C02"].relevance = {"Tag.get_html_string:path": "hasTopTxt(kidsOfN(self))", "TagList.get_html_string:loop0": "isTxtN(c)"}
PLANS["C04"].relevance = {"Tag.get_html_string:path": "hasTopRawOrRp(kidsOfN(self)) or noEsc(nameOf(self)) or hasAttrs(self)",
                          "TagList.get_html_string:loop0": "isRawOrRp(c) or isTxtN(c)"}
PLANS["C07"].relevance = {"Tag.get_html_string:path": "hasTopMeta(kidsOfN(self))", "TagList.get_html_string:loop0": "isMeta(c)"}
PLANS["C05"].relevance = {"Tag.get_html_string:path": "not wsOf(self)", "TagList.get_html_string:loop0": "not isBlock(c)"}
PLANS["C03"].relevance = {"Tag.get_html_string:path": "hasAttrs(self)"}
PLANS["C03"].contracts = PLANS["C03"].contracts + [q for q in RENDER_FNS if q not in PLANS["C03"].contracts]

# C06 quantifies over validly nested trees only: a refuted refinement obligation is C06's own failure iff it is still
# refuted on that domain
PLANS["C06"].own = _own("html_escape", "_normalize_text")
PLANS["C06"].relevance = {"Tag.get_html_string:path": ("within", "valid(self)"), "TagList.get_html_string:loop0": ("within", "valid(c)"),
                          "TagList.get_html_string:path": ("within", "validL(self)")}


TAGIFY_FNS = [CORE + "TagList.tagify", CORE + "Tag.tagify", CORE + "TagList.render", CORE + "Tag.render"]
DEPS_FNS = [CORE + "_resolve_dependencies", CORE + "TagList.get_dependencies", CORE + "Tag.get_dependencies"]
plan(Plan(
    id="C09", title="Tagifiable objects render as their expansion, spliced in place",
    contracts=TAGIFY_FNS + DEPS_FNS + RENDER_FNS + [CORE + "_tagchilds_to_tagnodes", CORE + "HTMLDocument._gen_html_tag_tree", CORE + "HTMLDocument.render"],
    lean={"HV.C09": ["spliceLoop_all", "tagifyL_flatMap", "tagifyL_append", "C09_splice_in_place", "C09_expand_list", "C09_expand_node", "C09_expand_plain",
                     "C09_expand_tag", "C09_tagified_after_L", "C09_no_ob_T", "C09_no_ob_L", "C09_render_no_raise", "C09_raises_unexpanded", "C09_render_subst"]},
    oracle="c09", design_ref="§7 C09",
    own=_own("TagList.tagify", "Tag.tagify", ".render:", "_tagchilds_to_tagnodes", "raises-RuntimeError", "no-RuntimeError", "raises_fold", ".raises", ".noraise", "HTMLDocument._gen_html_tag_tree"),
    assumptions=["A5: obj.tagify() is a pure function of the object returning a TagList whose items are fully tagified, or a single tagified node (Tagifiable protocol docstring)",
                 "HTMLDocument: _gen_html_tag_tree / render are verified against docTree / docRender, which tagify the content before hoisting (the head/listing structure itself is C11's subject)"],
))
plan(Plan(
    id="C10", title="Dependencies are validated, then resolve one per name to the highest version",
    contracts=DEPS_FNS + [CORE + "HTMLDependency.__init__", CORE + "HTMLDependency._validate_dicts#loops"],
    lean={"HV.C10": ["C10_resolve_names_nodup", "C10_resolve_order", "C10_resolve_is_max_earliest", "C10_resolve_max", "C10_resolve_subset", "C10_resolve_complete",
                     "C10_resolve_idem", "C10_collect_acc", "C10_collect_append", "C10_collect_dep", "C10_collect_tag", "C10_collect_other", "C10_dedup_false",
                     "C10_placement_independent"]},
    oracle="c10", design_ref="§7 C10", level="proof",
    bounded=["B:C10:HTMLDependency.__init__ is executed on argument shapes with item lists of length <= 2 (contents symbolic); that every item of a longer list is validated the same way follows from the independent-iteration rule on _validate_dicts (G:HTMLDependency._validate_dicts:loop0.independent-iterations, DESIGN 3.4), the key shapes of the items stay bounded",
             "B:C10:packaging.Version ordering (1.9 < 1.10 = 1.10.0 ...): exercised by the oracle with real Version objects"],
    assumptions=["packaging.Version comparison is a strict total order (its image in Int is the `ver` field); Version parsing is external",
                 "the constructor-validation clause is verified by executing __init__ (and _validate_dicts / _validate_dict in place) on every argument shape with lists of "
                 "length <= 2; longer lists are covered by the loop being the same statement for every item (not a loop invariant proof) and by the oracle"],
))


plan(Plan(
    id="C01", title="Rendered markup parses back to the same element tree",
    contracts=RENDER_FNS + HTML_FNS[:4] + [CORE + "_tagchilds_to_tagnodes"],
    lean={"HV.C01": ["C01_parse_back_gen", "C01_parse_back", "C01_void_form", "C01_close_tag"]},
    gconds=TABLE_G + ["G:_VOID_TAG_NAMES:sixteen", "G:_NO_ESCAPE_TAG_NAMES:script-style"], oracle="c01", design_ref="§7 C01",
    own=_own("html_escape", "_normalize_text", "_tagchilds_to_tagnodes"),
    relevance={"Tag.get_html_string:path": ("within", "ordTree(self)"), "TagList.get_html_string:loop0": ("within", "ordTree(c)"),
               "TagList.get_html_string:path": ("within", "ordTreeL(self)")},
    claim="the renderer is proved equal to its L1 spec from the real AST; in Lean the spec's output is proved to tokenize (reference tokenizer: data / tag-open / "
          "tag-name / double-quoted attribute / self-closing / end-tag states) back to the tree's events after decoding, up to whitespace at the ends of text runs",
    assumptions=["`ordinary element`: name not in the no-escape set, first character not '/', no space / '>' / '/' in the name; attribute names without '='; plain attribute values; "
                 "children are text (numbers are stored as text, C14) or ordinary elements; eol consists of characters the text table does not escape",
                 "HTML5 tokenizer states outside the modelled fragment (RCDATA/rawtext for title/textarea, name lower-casing, tag-name characters such as tab or form feed) are residue; "
                 "the bounded oracle uses Python's html.parser as an independent tokenizer"],
))
PLANS["C04"].gconds = PLANS["C04"].gconds + ["G:_NO_ESCAPE_TAG_NAMES:script-style"]

# html_escape serves text (attr=False) and attribute values (attr=True): each property owns its own half
for _p in ("C02", "C04"):
    PLANS[_p].relevance = dict(PLANS[_p].relevance, **{"html_escape": ("within", "not attr")})
PLANS["C03"].relevance = dict(PLANS["C03"].relevance, **{"html_escape": ("within", "attr")})

# C01 holds "up to whitespace at the ends of text runs": a layout deviation inside the domain need not break it, so refuted
# refinement obligations of the renderer are decided by the parse-back oracle (html.parser), not owned outright
PLANS["C01"].relevance = {}


plan(Plan(
    id="C17", title="Tag context manager restores the display hook and collects children in order",
    contracts=[CORE + "Tag.__enter__", CORE + "Tag.__exit__", CORE + "wrap_displayhook_handler.handler_wrapper", CORE + "wrap_displayhook_handler",
               CORE + "Tag.append", CORE + "TagList.append", CORE + "TagList.extend", CORE + "_tagchilds_to_tagnodes", CORE + "is_tag_node"],
    lean={"HV.C17": ["C17_hook_restored", "C17_saved_hook_stable", "C17_reenter_raises", "C17_block_restores", "C17_kids_grow", "C17_outer_grows",
                     "C17_display_in_block", "C17_repr_kept_as_html", "C17_delivered_to_enclosing", "C17_delivered_to_base", "C17_delivered_once"]},
    oracle="c17", design_ref="§7 C17",
    claim="__enter__/__exit__/the hook wrapper are verified from the real AST against state transformers on a ghost world (sys.displayhook, every tag's saved hook "
          "and children); the semantics of nested with-blocks built from those transformers (A4) is proved in Lean to restore the hook and deliver each tag exactly once, for every nesting and every exception point",
    assumptions=["A4: `with t:` calls t.__exit__ on every exit of the block iff t.__enter__ returned, and re-raises the pending exception since __exit__ returns None",
                 "tag.append accepts exactly the valid children (C14); the displayed value is classified by the wrapper's own isinstance tests (DVal)",
                 "the interpreter's REPL calling sys.displayhook for expression statements is outside the library"],
))


DOCP = CORE + "HTMLDocument."
DOC_FNS = [DOCP + "_hoist_head_content", DOCP + "_gen_html_tag_tree", DOCP + "render"]
plan(Plan(
    id="C11", title="HTMLDocument builds one head/body and hoists every dependency into head",
    contracts=DOC_FNS + TAGIFY_FNS + DEPS_FNS + [CORE + "Tag.__copy__", CORE + "HTMLDependency.as_html_tags#record", CORE + "HTMLDependency.as_html_tags#comps"],
    lean={"HV.C11": ["first_is_head", "replace_first_same", "nodes_depTagChildren", "hoist_el", "C11_root_is_html", "C11_head_count", "C11_one_head_generated",
                     "C11_head_content", "C11_rest_untouched", "C11_each_dep_once", "C11_listing", "C11_no_listing_without_deps", "C11_returned_deps", "C11_doctype"]},
    oracle="c11", design_ref="§7 C11",
    own=_own("HTMLDocument.", "get_dependencies", "_resolve_dependencies"),
    claim="_hoist_head_content, _gen_html_tag_tree and render are verified from the real AST against the document spec (docTree / hoist / docRender); the structure of that "
          "spec (one html root, one head starting with meta charset, user head content kept in order, listing + each dependency's markup once in resolved order, "
          "siblings of the head untouched, returned list = resolved list) is proved in Lean",
    assumptions=["inside the document functions HTMLDependency.as_html_tags is used through an abstraction (an uninterpreted function depTags of the dependency, lib_prefix and "
                 "include_version); the function itself is verified separately on record dependencies with item lists of length <= 2: meta tags, then link tags, then script tags, then head",
                 "str(version) is an uninterpreted function of the version; head_content()'s naming is C18's subject",
                 "the content's `ordinary rendering` is the renderer contract of C05-C07 (rtag), used here through Tag.render"],
    bounded=["B:C11:as_html_tags piece order and single occurrence in the rendered head: oracle with html.parser (the record harness proves meta, link, script, head order on lists of length <= 2; G:HTMLDependency.as_html_tags:comp<k>.elementwise-map lifts the per-item part to every length)"],
))


def _c08_own(name):
    return name.startswith("F:") or _own("Tag.__copy__", "_render_tag_or_taglist", ".tagify", "delegates", "__eq__", "_normalize_attr_name")(name)


def _jsx_purity_extra(ctx):
    """JSXTag.tagify() is a tagify(): its ownership (purity) obligations also serve C08 and C18; the package-file conditions stay with C20"""
    from .audit_own import obligations
    return [v for v in obligations(ctx) if not v.name.startswith("G:_jsx.lib")]


plan(Plan(
    id="C08", title="Rendering and tagify are pure and consistent; tagify returns an independent copy",
    contracts=TAGIFY_FNS + DEPS_FNS + RENDER_FNS + DOC_FNS + [CORE + "Tag.__copy__", CORE + "_render_tag_or_taglist", CORE + "_equals_impl", CORE + "TagAttrDict._normalize_attr_name",
               CORE + "HTMLDependency.source_path_map", CORE + "HTMLDependency.as_dict", CORE + "HTMLDependency.as_dict#loops", CORE + "HTMLDependency.as_html_tags#record", CORE + "HTMLDependency.as_html_tags#comps", CORE + "HTMLDependency.serialize_to_script_json#record", "htmltools._jsx.JSXTag.__copy__"],
    lean={"HV.C09": ["C08_tagify_id_T", "C08_tagify_id_L", "C08_tagify_fixed_point"],
          "HV.C08": ["C08_attrsEq_refl", "C08_eq_refl_N", "C08_eq_refl_L", "C08_eq_tag", "C08_eq_kinds", "C08_attrsEq_sound", "C08_nodesEq_cons", "C08_nodesEq_len", "C08_eq_text"],
          "HV.AttrFacts": ["C15_normName_idem"]},
    extra=_jsx_purity_extra, oracle="c08", design_ref="§7 C08", own=_c08_own,
    claim="frame obligations: on every path of tagify / render / get_html_string / get_dependencies / Tag.__copy__ / str() / HTMLDocument._gen_html_tag_tree, "
          "_hoist_head_content and render every store write targets an object allocated in that activation; tagify's result elements that are tags or metadata nodes are "
          "newly allocated; Tag.__copy__ copies every field into a new object with its own attrs and children; str/repr/_repr_html_ reduce to render()['html'] in the "
          "default mode; tagify identity-when-nothing-to-expand and fixed point proved in Lean",
    assumptions=["value semantics with freshness flags (A1): aliasing between distinct parameters is not modelled",
                 "HTMLDependency.source_path_map / as_dict / as_html_tags / serialize_to_script_json are executed on record dependencies (lists of length <= 2): every store "
                 "targets a copy (F obligations); save_html's file-system effects are C12's subject",
                 "==: Tag / TagList / HTMLDependency.__eq__ are executed (through _equals_impl's body) on record views and proved equal to nodeEq / nodesEq / field-wise equality; "
                 "dict == dict is modelled as attrsEq (same keys, equal values, order irrelevant) and list == list as pairwise == (A3); a copied attribute map equals the original "
                 "because name normalisation is idempotent (C15_normName_idem over the verified _normalize_attr_name)"],
    bounded=["B:C08:the record harnesses of the HTMLDependency methods execute script / stylesheet / meta lists of length <= 2; as_dict and as_html_tags are lifted to every length by the independent-iteration / comprehension-map rules (DESIGN 3.4), serialize_to_script_json has no loop",
             "B:C08:purity of save_html and of whole interleavings: bounded oracle deep snapshot with object identities"],
))


TDP = CORE + "HTMLTextDocument."
plan(Plan(
    id="C13", title="Serialised dependencies round-trip through HTML text",
    contracts=[CORE + "HTMLDependency.serialize_to_script_json#record", TDP + "_static_extract_serialized_html_deps", TDP + "render", CORE + "_render_tag_or_taglist"],
    lean={"HV.C13": ["C13_neutral_no_end_tag", "C13_no_end_tag_any_case", "C13_serial_markup", "C13_only_own_close", "C13_findall_one", "C13_sub_one", "C13_extract_none",
                     "C13_extract_serialised", "C13_dedup_nodup", "C13_dedup_mem", "C13_dedup_order", "C13_dedup_snoc", "C13_replace_first", "C13_replace_absent",
                     "C13_textdoc_first_only", "depsOfTexts_ssnoc"]},
    gconds=["G:_NO_ESCAPE_TAG_NAMES:script-style"],
    oracle="c13", design_ref="§7 C13", own=lambda name: True, level="proof",
    claim="serialize_to_script_json is verified from the real AST to build <script type=application/json data-html-dependency> around neutral(json.dumps(eight fields)); "
          "neutral leaves no '</' at all (so no '</script' in any letter case), the element renders as OPEN ++ text ++ '</script>' with its own closing tag as the only '</', "
          "the lazy-regex extraction recovers exactly that text and removes the element, de-duplication keeps first occurrences in order, HTMLTextDocument.render replaces only the "
          "first placeholder by the rendering of the same headExtra(deps) that HTMLDocument appends to <head> (Lean); str() in json mode appends the serialised dependencies",
    assumptions=["json is external: json.dumps is an uninterpreted function of the structural image of its argument; the round trip needs "
                 "json.loads(neutral(json.dumps(v))) == v ('\\\\/' is a JSON escape of '/'), and HTMLDependency(**json.loads(t)) is an uninterpreted function depOfText(t) of the text: "
                 "field-wise equality of the recovered dependency is covered by the bounded oracle only",
                 "A3: re.findall/re.sub with the pattern OPEN ((?:.|\\\\r|\\\\n)*?) CLOSE (literals without regex metacharacters, checked on the constant in the source) behave as the "
                 "leftmost-OPEN / first-CLOSE-after-it scanners reFindallLazy / reSubLazy (hand-written Lean definitions, cross-checked against CPython's re per run)",
                 "a Python set of strings is modelled as an insertion-ordered list without duplicates used only through `in` and `add` (iteration over it would leave the subset)",
                 "the equivalence of json-mode str() + HTMLTextDocument with direct rendering is a composition covered by the bounded oracle, not by one theorem"],
    bounded=["B:C13:field-wise round trip through json / the constructor with hostile strings (quotes, backslashes, newlines, non-ASCII, </script> in any case, <!--), repeated copies, any indent",
             "B:C13:json-mode str() + HTMLTextDocument == direct render()"],
))


def _c18_extra(ctx):
    from .audit_det import obligations
    return obligations(ctx) + _jsx_purity_extra(ctx)


plan(Plan(
    id="C18", title="Output is deterministic across processes and independent of history",
    contracts=[UTIL + "hash_deterministic", CORE + "head_content", CORE + "_resolve_dependencies", CORE + "TagList.get_dependencies", CORE + "Tag.get_dependencies",
               TDP + "_static_extract_serialized_html_deps", CORE + "_render_tag_or_taglist", CORE + "Tag.__copy__", CORE + "HTMLDocument._gen_html_tag_tree", "htmltools._jsx.JSXTag.__copy__", CORE + "HTMLDependency.source_path_map", CORE + "HTMLDependency.as_dict", CORE + "HTMLDependency.as_dict#loops",
               CORE + "HTMLDependency.as_html_tags#record", CORE + "HTMLDependency.as_html_tags#comps", CORE + "HTMLDependency.serialize_to_script_json#record"] + TAGIFY_FNS + RENDER_FNS,
    lean={"HV.C18": ["C18_name_function_of_content", "C18_names_injective", "C18_render_is_a_function"],
          "HV.C10": ["C10_resolve_order", "C10_resolve_names_nodup"], "HV.C13": ["C13_dedup_order", "C13_dedup_nodup"]},
    extra=_c18_extra, oracle="c18", design_ref="§7 C18",
    own=lambda name: name.startswith("G:determinism") or ":subset" in name or "_jsx." in name or _own("hash_deterministic", "head_content", "_resolve_dependencies", "_static_extract", "get_dependencies")(name),
    claim="every function on the render path under a discharged functional contract `result == f(arguments)` is a function of its arguments alone (the verified subset has no "
          "model for set iteration order, hash(), id(), clocks, the environment or module state; a function using one leaves the subset and is reported); the same exclusions are "
          "checked syntactically on the by-name call-graph closure of the observable APIs; head_content's name is proved to be 'headcontent_' + sha1(rendered content)",
    assumptions=["sha1 is an uninterpreted function; `different content is never merged` is proved from its injectivity (collision resistance is an assumption)",
                 "dict preserves insertion order (A3); str/bytes operations, json.dumps and re are deterministic functions of their arguments",
                 "byte-identity across interpreter processes is observed by the bounded oracle (fresh processes with different PYTHONHASHSEED and render orders), not proved"],
    bounded=["B:C18:digests of a fixed battery of renderings from fresh interpreter processes with different PYTHONHASHSEED values and render orders"],
))


def _c20_extra(ctx):
    from .audit_own import obligations
    return obligations(ctx)


JSXP = "htmltools._jsx."
plan(Plan(
    id="C20", title="JSX components convert purely and surface all dependencies", level="other",
    contracts=[JSXP + "JSXTag.__copy__", JSXP + "JSXTagAttrDict._normalize_attr_name", JSXP + "_render_react_js#str", JSXP + "_serialize_attr#scalar", CORE + "Tag.__copy__"],
    lean={"HV.C20": ["C20_js_string_denotes", "C20_js_string_shape"], "HV.AttrFacts": ["C15_normName_spec", "C15_normName_idem"]},
    extra=_c20_extra, oracle="c20", design_ref="§7 C20", own=lambda name: True,
    claim="mixed: (proved) purity by an ownership argument on the real AST - copy.copy(component) and copy.copy(tag) are new objects with their own prop map / child list "
          "(symbolic harness), every store in the walker, in tagify and in its callback goes through a name last bound to such a new object, and the expression is rendered from "
          "the walked copy; prop-name normalisation == normName; string children and scalar prop values are written as jsStr / null / true / false, and jsStr(s) is proved (Lean) to "
          "be a JavaScript string literal denoting s when s has no backslash or line break; react / react-dom script files exist and versions are pinned. "
          "(bounded) the full React.createElement mirror, dependency surfacing and allow-list rejection are checked by the oracle with an independent reader of the expression",
    technique="ownership (frame) analysis + symbolic harnesses on the real AST, Lean theorem for string literals, finite side conditions; bounded oracle for the expression mirror",
    level_note="level `other` (mixed): _render_react_js / _serialize_attr / _serialize_style_attr as a whole (recursion over Any-typed values, callbacks) are outside the verified subset; "
               "the mirror and dependency-surfacing clauses are bounded (oracle), never counted as proved",
    assumptions=["A5: obj.tagify() returns a new tree; copy.copy of objects other than Tag / JSXTag is never written to by the walker (it only descends into Tag and JSXTag)",
                 "the ownership analysis treats results of the callback parameter, copy.copy(), .tagify(), constructors and literals as new objects; everything else is `not owned`",
                 "a tagify() result that is a TagList in a child position of a component is not supported by the library's renderer and is outside the oracle's generator"],
    bounded=["B:C20:React.createElement mirror (props once under normalised names, children once in order, nesting, value forms) read back by an independent expression reader",
             "B:C20:react, react-dom + every metadata node among children / nested tags / components / tag-valued props / expansions are carried by the script tag",
             "B:C20:allow-list rejection and capital-letter rule at construction"],
))


def _c12_extra(ctx):
    from .audit_fs import obligations
    return obligations(ctx)


DEPP = CORE + "HTMLDependency."
plan(Plan(
    id="C12", title="Dependency URLs and copied files agree", level="other",
    contracts=[DEPP + "source_path_map", DEPP + "as_dict", DEPP + "as_dict#loops", DEPP + "as_html_tags#record", DEPP + "as_html_tags#comps", CORE + "HTMLDocument.save_html", CORE + "Tag.save_html#delegates",
               CORE + "HTMLDocument._gen_html_tag_tree", CORE + "HTMLDocument._hoist_head_content"],
    lean={"HV.C12": ["C12_pjoin_assoc", "C12_copy_target_is_url_target", "C12_copy_target_is_url_target_nolib", "C12_local_url_shape"]},
    extra=_c12_extra, oracle="c12", design_ref="§7 C12", own=lambda name: True,
    claim="mixed: (proved, from the real AST) source_path_map's href is [prefix/]name[-version] for local sources, the URL for URL sources, '' otherwise, and its source is '' exactly "
          "when there is nothing to copy; as_dict rewrites every script/stylesheet path to posixpath.join(href, quote(path)) on a deep copy [element-wise on symbolic item contents; every list length by the independent-iteration rule, G:HTMLDependency.as_dict:loop<k>.independent-iterations]; "
          "save_html copies exactly the dependencies render(lib_prefix=libdir, include_version) returned, each once, to the file's directory joined with libdir, with the same "
          "include_version, then writes the rendered html to `file` and returns `file` (ghost effect log); Tag/TagList.save_html forward to it; in copy_to no file-system "
          "change is reachable before the missing-file raise or the nothing-to-copy return, and the target directory is cleared before the first copy (effect-order analysis). "
          "(bounded) byte-identity of the copies, URL/target agreement on a real file system, all_files, stale directories, hostile file names",
    technique="symbolic harnesses with uninterpreted path functions and a ghost effect log, effect-order abstract interpretation of copy_to, path algebra in Lean; bounded file-system oracle",
    level_note="level `other` (mixed): the file system itself (shutil / os / pathlib), percent-encoding and the key shape of the item dicts in the as_dict harness are outside the proof; "
               "the bounded oracle works on a temporary directory with names containing spaces, %, #, ?, non-ASCII and nested directories",
    assumptions=["posixpath.join is the prim pjoin (Lean definition cross-read against CPython); urllib.parse.quote, os.path.join, os.path.realpath, Path.resolve().parent and "
                 "package_dir are uninterpreted functions; unquote(quote(s)) == s and os.path.join == posixpath.join on POSIX are assumptions of the agreement theorem",
                 "dependency names and lib prefixes are not percent-encoded by the library: names containing '%', '#', '?' are outside the quantifier of the statement (file names are inside)",
                 "copy_to's loop over files and the shutil calls are analysed for ORDER of effects only; what they copy is the bounded oracle's subject"],
    bounded=["B:C12:as_dict harness: item dicts with the path key and at most one further key (contents symbolic); the list length is unbounded by the independent-iteration rule (DESIGN 3.4)",
             "B:C12:save_html on a temporary directory: every local URL resolves to a byte-identical copy; all_files copies the directory; stale contents are gone; "
             "a missing listed file raises with the target directory untouched; URL-sourced and source-less dependencies copy nothing"],
))


# A2 (the kinds of stored children partition) for metadata nodes is a checked condition wherever a property relies on metadata being skipped
for _p in ("C09", "C17", "C08", "C10", "C11"):
    PLANS[_p].gconds = list(PLANS[_p].gconds) + ["G:MetadataNode:not-self-rendering", "G:HTMLDependency:not-self-rendering"]

PLANS["C08"].gconds = list(PLANS["C08"].gconds) + ["G:HTML:no__iadd__"]
PLANS["C12"].gconds = list(PLANS["C12"].gconds) + ["G:MetadataNode:not-self-rendering", "G:HTMLDependency:not-self-rendering"]
