"""Loop and comprehension rules (DESIGN §3.4): constant unrolling, fold rule, filter congruence."""
from __future__ import annotations
import ast
import z3
from .symexec import (SV, SStr, SBool, SInt, SNone, SAdt, PyConst, PySeq, PyDict, PyRec, SOpaque, Unsupported,
                      _Raise, _Return, _Break, _Continue, SExc, Obligation)
from .contracts_api import Fold, Unroll, Filter, MapComp, InPlaceMap, BackwardSplice, FindFirst
from .speceval import Val
from .speclang import SpecFn
from .calls import spec_bool, spec_term


def static_ordinals(fn: ast.FunctionDef):
    loops, comps = {}, {}
    fl = sorted([n for n in ast.walk(fn) if isinstance(n, (ast.For, ast.While))], key=lambda n: (n.lineno, n.col_offset))
    for i, n in enumerate(fl):
        loops[id(n)] = i
    cl = sorted([n for n in ast.walk(fn) if isinstance(n, (ast.ListComp, ast.GeneratorExp, ast.DictComp, ast.SetComp))], key=lambda n: (n.lineno, n.col_offset))
    for i, n in enumerate(cl):
        comps[id(n)] = i
    return loops, comps


def ordinal(I, node, kind):
    key = (I.fn_qual, kind)
    cache = I.__dict__.setdefault("_ordinals", {})
    if I.fn_qual not in cache:
        cache[I.fn_qual] = static_ordinals(I.src.find(I.fn_qual))
    tbl = cache[I.fn_qual][0 if kind == "loop" else 1]
    if id(node) not in tbl:
        raise Unsupported("loop not found in its function (internal)")
    return tbl[id(node)]


def assigned_names(stmts):
    out = set()
    for s in stmts:
        for n in ast.walk(s):
            if isinstance(n, ast.Name) and isinstance(n.ctx, (ast.Store, ast.Del)):
                out.add(n.id)
    return out


# ------------------------------------------------------------------------------------------------
def exec_for(I, s: ast.For):
    if s.orelse:
        raise Unsupported("for-else")
    k = ordinal(I, s, "loop")
    rule = None
    if I.contracts.has(I.fn_qual):
        rule = I.contracts.get(I.fn_qual).loops.get(k)
    custom = getattr(I, "loop_hook", None)
    if custom:
        if custom(s, k, rule):
            return
    if isinstance(rule, Fold):
        return fold_loop(I, s, k, rule)
    if isinstance(rule, InPlaceMap):
        return inplace_map_loop(I, s, k, rule)
    if isinstance(rule, BackwardSplice):
        return backward_splice_loop(I, s, k, rule)
    if isinstance(rule, FindFirst):
        return find_first_loop(I, s, k, rule)
    # concrete iteration (constant of the source, literal, *args tuple ...): exact unrolling
    it = I.eval(s.iter)
    items = I.iter_concrete(it, s)
    for x in items:
        I.assign(s.target, x)
        try:
            I.exec_block(s.body)
        except _Continue:
            continue
        except _Break:
            break


# ------------------------------------------------------------------------------------------------
def fold_shape(w, fname):
    """Check that L1 function `fname` is a left fold and return its pieces:
       def F(l, acc, p...):  match l:  case Nil(): return acc;  case Cons(x.., r): return F(r, STEP, p...)"""
    f = w.reg.fns[fname]
    body = [b for b in f.node.body if not (isinstance(b, ast.Expr) and isinstance(b.value, ast.Constant))]
    if len(body) != 1 or not isinstance(body[0], ast.Match):
        raise Unsupported(f"{fname} is not in fold shape (single match)")
    m = body[0]
    if not isinstance(m.subject, ast.Name) or len(m.cases) != 2:
        raise Unsupported(f"{fname} is not in fold shape")
    lparam = m.subject.id
    pnames = [p for p, _ in f.params]
    nil_case, cons_case = m.cases
    if not (isinstance(nil_case.pattern, ast.MatchClass) and not nil_case.pattern.patterns):
        raise Unsupported(f"{fname}: first case must be the empty list")
    if not (len(nil_case.body) == 1 and isinstance(nil_case.body[0], ast.Return) and isinstance(nil_case.body[0].value, ast.Name)):
        raise Unsupported(f"{fname}: empty case must return the accumulator")
    acc = nil_case.body[0].value.id
    cp = cons_case.pattern
    if not isinstance(cp, ast.MatchClass):
        raise Unsupported(f"{fname}: second case must be a cons pattern")
    subs = cp.patterns
    if not all(isinstance(p, ast.MatchAs) and p.pattern is None and p.name for p in subs):
        raise Unsupported(f"{fname}: cons pattern must bind plain variables")
    elem_vars = [p.name for p in subs[:-1]]
    rest = subs[-1].name
    if not (len(cons_case.body) == 1 and isinstance(cons_case.body[0], ast.Return) and isinstance(cons_case.body[0].value, ast.Call)):
        raise Unsupported(f"{fname}: cons case must be a tail call")
    call = cons_case.body[0].value
    if not (isinstance(call.func, ast.Name) and call.func.id == fname and len(call.args) == len(pnames)):
        raise Unsupported(f"{fname}: cons case must call itself")
    step = None
    for pn, a in zip(pnames, call.args):
        if pn == lparam:
            if not (isinstance(a, ast.Name) and a.id == rest):
                raise Unsupported(f"{fname}: recursion must be on the tail")
        elif pn == acc:
            step = a
        else:
            if not (isinstance(a, ast.Name) and a.id == pn):
                raise Unsupported(f"{fname}: parameter {pn} must be passed unchanged")
    cons_ctor = w.reg.ctors[cp.cls.id]
    nil_ctor = w.reg.ctors[nil_case.pattern.cls.id]
    return dict(fn=f, lparam=lparam, acc=acc, elem_vars=elem_vars, rest=rest, step=step, cons=cons_ctor, nil=nil_ctor)


def fold_loop(I, s: ast.For, k: int, rule: Fold):
    w = I.w
    sh = fold_shape(w, rule.fn)
    f = sh["fn"]
    if ast.unparse(s.iter).replace(" ", "") != rule.over.replace(" ", ""):
        raise Unsupported(f"loop {k} of {I.fn_qual} iterates `{ast.unparse(s.iter)}`, the contract expects `{rule.over}`")
    xs = iter_value(I, I.eval(s.iter), s)
    lsort = dict(f.params)[sh["lparam"]]
    if not (isinstance(xs, SAdt) and xs.sort == lsort):
        raise Unsupported(f"loop {k}: iterable has sort {getattr(xs, 'sort', xs)}, fold function expects {lsort}")
    state_vars = list(rule.state)
    body_assigned = assigned_names(s.body) | assigned_names([ast.Expr(value=s.target)] if False else [])
    tnames = [n.id for n in ast.walk(s.target) if isinstance(n, ast.Name)]
    temporaries = body_assigned - set(state_vars) - set(tnames)
    for v in state_vars:
        if v not in I.st.env:
            raise Unsupported(f"loop {k}: state variable {v} is not defined before the loop")
    for v, srt in rule.state_sorts.items():
        cur = I.st.env[v]
        if not (isinstance(cur, SAdt) and cur.sort == srt):
            nv = I.coerce_param(cur, srt)
            nv.fresh = getattr(cur, "fresh", True)
            I.st.env[v] = nv
    outer_env = dict(I.st.env)
    tag = f"{I.short()}:loop{k}" + ("" if not I.trace.decisions else "@" + "".join(map(str, I.trace.decisions)))
    memo = I.__dict__.setdefault("_loop_memo", {})
    elem_fields = sh["cons"].fields[:-1]

    def code_env_vals(env):
        out = {}
        for n, v in env.items():
            try:
                out[n] = I.to_val(v)
            except Unsupported:
                pass
        return out

    if tag not in memo:
        # ---- summarise the body once for this entry context -------------------------------------
        fresh_state = {}
        for v in state_vars:
            val = I.to_val(outer_env[v])
            fresh_state[v] = I.from_val(Val(val.sort, I.fresh(val.sort, v)))
            if isinstance(fresh_state[v], SAdt):
                fresh_state[v].fresh = getattr(outer_env[v], "fresh", False)
                if getattr(outer_env[v], "pyclass", None) and not fresh_state[v].pyclass:
                    fresh_state[v].pyclass = outer_env[v].pyclass
        elems = [I.from_val(Val(srt, I.fresh(srt, fld))) for fld, srt in elem_fields]

        # the L1 accumulator on the same symbolic state/element; invariant: every state variable is its image of the accumulator
        env0 = code_env_vals({**outer_env, **fresh_state})
        for nm, el in zip(target_names(s.target), elems):
            env0[nm] = I.to_val(el)
        acc_val = spec_term(I, rule.acc, env0, tag, want=dict(f.params)[sh["acc"]])
        inv_hyps = []
        for v in state_vars:
            img = spec_term(I, rule.state[v], {"acc": acc_val}, tag)
            cur = I.to_val(fresh_state[v])
            if not z3.eq(z3.simplify(img.v), z3.simplify(cur.v)):
                inv_hyps.append(cur.v == img.v)

        def run():
            I.st.env = dict(outer_env)
            for t in temporaries:
                I.st.env[t] = SOpaque(f"loop-carried temporary {t}")
            I.st.env.update(fresh_state)
            I.st.pc.extend(inv_hyps)
            bind_target(I, s.target, elems)
            try:
                I.exec_block(s.body)
            except _Continue:
                pass
            return SNone()
        saved_ord = (I.loop_ordinal, I.comp_ordinal) if hasattr(I, "loop_ordinal") else None
        paths = I.explore(run)
        senv = {sh["acc"]: acc_val}
        for nm, el in zip(sh["elem_vars"], elems):
            senv[nm] = I.to_val(el)
        for pn, ps in f.params:
            if pn in (sh["lparam"], sh["acc"]):
                continue
            if pn not in rule.args:
                raise Unsupported(f"loop {k}: fold parameter {pn} is not mapped by the contract")
            senv[pn] = spec_term(I, rule.args[pn], env0, tag, want=ps)
        step_val = w.eval(sh["step"], senv, SpecFn(tag, [], dict(f.params)[sh["acc"]], "spec"))
        raise_cond = spec_bool(I, rule.callee_raises, {**env0, **senv}, tag) if rule.callee_raises else z3.BoolVal(False)
        for pi, p in enumerate(paths):
            pname = f"R:{tag}.body.p{pi}"
            where = I.src.line(I.module, s)
            if p.outcome == "raise":
                ok = z3.BoolVal(False) if rule.raises is None else z3.And(raise_cond, z3.BoolVal(p.value.name == rule.raises))
                I.obligations.append(Obligation(pname + ".raises", list(p.pc), ok, where, "R",
                                                f"body raises {p.value.name} at line {p.line}: allowed only when `{rule.callee_raises}`"))
                continue
            I.obligations.append(Obligation(pname + ".noraise", list(p.pc), z3.Not(raise_cond), where, "R",
                                            f"body completes normally, so `{rule.callee_raises}` must be false"))
            for v in state_vars:
                want = spec_term(I, rule.state[v], {"acc": step_val}, tag)
                got = I.to_val(p.env[v])
                I.obligations.append(Obligation(f"{pname}.{v}", list(p.pc), got.v == want.v, where, "R",
                                                f"loop body ≡ step of {rule.fn} on `{v}`"))
            # temporaries and other variables must not leak: non-state variables assigned in the body are dead after the loop
        for ob in I.obligations:
            if ob.name.startswith(f"R:{tag}.body"):
                for k_, v_ in {**env0, **senv}.items():
                    ob.vars.setdefault(k_, v_)
        if rule.raises_fold:
            l0 = I.fresh(lsort, "l")
            r0 = I.fresh(lsort, "r")
            cons = w.ctor_fn(sh["cons"])(*[I.to_val(e).v for e in elems], r0)
            envr = {**env0, **senv}
            lhs = spec_bool(I, rule.raises_fold, {**envr, "xs": Val(lsort, cons)}, tag)
            rhs = z3.Or(raise_cond, spec_bool(I, rule.raises_fold, {**envr, "xs": Val(lsort, r0)}, tag))
            nilv = w.ctor_fn(sh["nil"])
            I.obligations.append(Obligation(f"R:{tag}.raises_fold.cons", list(I.st.pc), lhs == rhs, I.src.line(I.module, s), "R",
                                            "loop raises iff some element's body raises"))
            I.obligations.append(Obligation(f"R:{tag}.raises_fold.nil", list(I.st.pc),
                                            z3.Not(spec_bool(I, rule.raises_fold, {**envr, "xs": Val(lsort, nilv)}, tag)), I.src.line(I.module, s), "R", ""))
        memo[tag] = True
    # ---- continue the outer path with the fold result ----------------------------------------------
    env0 = code_env_vals(outer_env)
    if rule.raises_fold:
        c = spec_bool(I, rule.raises_fold, {**env0, "xs": I.to_val(xs)}, tag)
        if I.branch(c):
            raise _Raise(SExc(rule.raises, []), s.lineno)
    acc0 = spec_term(I, rule.acc, env0, tag, want=dict(f.params)[sh["acc"]])
    for v in state_vars:
        # the invariant at loop entry (trivial when the accumulator is built from all state variables)
        img = spec_term(I, rule.state[v], {"acc": acc0}, tag)
        cur = I.to_val(I.coerce_param(outer_env[v], img.sort)) if not isinstance(outer_env[v], SOpaque) else None
        if cur is None or not z3.eq(z3.simplify(img.v), z3.simplify(cur.v)):
            I.oblige(f"R:{tag}.entry.{v}", z3.BoolVal(False) if cur is None else cur.v == img.v, where=I.src.line(I.module, s),
                     note=f"at loop entry `{v}` == `{rule.state[v]}` of the initial accumulator")
    args = []
    for pn, ps in f.params:
        if pn == sh["lparam"]:
            args.append(I.to_val(xs))
        elif pn == sh["acc"]:
            args.append(acc0)
        else:
            args.append(spec_term(I, rule.args[pn], env0, tag, want=ps))
    res = w.b_call(f, args, f)
    for v in state_vars:
        nv = I.from_val(spec_term(I, rule.state[v], {"acc": res}, tag))
        if isinstance(nv, SAdt):
            nv.fresh = getattr(outer_env[v], "fresh", False)
        I.st.env[v] = nv
    for t in temporaries | set(tnames):
        I.st.env[t] = SOpaque(f"value of {t} after loop {k} (not modelled)")


def target_names(t):
    if isinstance(t, ast.Name):
        return [t.id]
    if isinstance(t, (ast.Tuple, ast.List)):
        return [x.id for x in t.elts]
    raise Unsupported("loop target")


def bind_target(I, target, elems):
    names = target_names(target)
    if len(names) != len(elems):
        raise Unsupported("loop target arity does not match the list element")
    for n, e in zip(names, elems):
        I.st.env[n] = e


def iter_value(I, v, node):
    """`for k, v in d.items()` on a symbolic dict iterates the dict value itself"""
    return v


# ------------------------------------------------------------------------------------------------
def filter_shape(w, fname):
    """def F(l): match l: case Nil(): return Nil(); case Cons(c, r): if P(c): return F(r) ; return Cons(c, F(r))
       -> (dropPredicateExpr ast, elemvar) ; keep(x) == not P(x)"""
    f = w.reg.fns[fname]
    body = [b for b in f.node.body if not (isinstance(b, ast.Expr) and isinstance(b.value, ast.Constant))]
    m = body[0]
    if len(body) != 1 or not isinstance(m, ast.Match) or len(m.cases) != 2:
        raise Unsupported(f"{fname} is not in filter shape")
    nil_case, cons_case = m.cases
    cp = cons_case.pattern
    c, r = cp.patterns[0].name, cp.patterns[1].name
    b = cons_case.body
    if not (len(b) == 2 and isinstance(b[0], ast.If) and not b[0].orelse and len(b[0].body) == 1 and isinstance(b[0].body[0], ast.Return)
            and isinstance(b[1], ast.Return)):
        raise Unsupported(f"{fname} is not in filter shape")
    drop_ret = b[0].body[0].value
    keep_ret = b[1].value
    extra = "".join(", " + p for p, _ in f.params[1:])
    if ast.unparse(drop_ret) != f"{fname}({r}{extra})" or ast.unparse(keep_ret) != f"{cp.cls.id}({c}, {fname}({r}{extra}))":
        raise Unsupported(f"{fname} is not in filter shape")
    return b[0].test, c


def comprehension(I, e):
    k = ordinal(I, e, "comp")
    rule = I.contracts.get(I.fn_qual).comps.get(k) if I.contracts.has(I.fn_qual) else None
    if len(e.generators) != 1 or e.generators[0].is_async:
        raise Unsupported("comprehension with several generators")
    g = e.generators[0]
    src = I.eval(g.iter)
    if isinstance(rule, Filter):
        if not (isinstance(src, SAdt) and isinstance(g.target, ast.Name) and isinstance(e.elt, ast.Name) and e.elt.id == g.target.id and len(g.ifs) == 1):
            raise Unsupported(f"comprehension {k} is not a plain filter")
        f = I.w.reg.fns[rule.fn]
        if f.params[0][1] != src.sort:
            raise Unsupported(f"comprehension {k}: filter {rule.fn} is over {f.params[0][1]}, source is {src.sort}")
        drop_test, cvar = filter_shape(I.w, rule.fn)
        cons = {"NodeList": "NCons"}.get(src.sort) or getattr(I, "extra_list_shapes", {}).get(src.sort, (None, None))[1]
        xenv = {}
        for n_, v_ in I.st.env.items():
            try:
                xenv[n_] = I.to_val(v_)
            except Unsupported:
                pass
        extra_vals = [spec_term(I, rule.args[pn], xenv, f"comp{k}", want=ps) for pn, ps in f.params[1:]]
        esort = I.ctor(cons).fields[0][1]
        x = I.from_val(Val(esort, I.fresh(esort, g.target.id)))
        tag = f"{I.short()}:comp{k}"

        def run():
            I.st.env = dict(outer_env)
            I.st.env[g.target.id] = x
            return SBool(I.truth(I.eval(g.ifs[0])))
        outer_env = dict(I.st.env)
        memo = I.__dict__.setdefault("_loop_memo", {})
        mkey = tag + "@" + "".join(map(str, I.trace.decisions))
        if mkey not in memo:
            paths = I.explore(run)
            denv = {cvar: I.to_val(x)}
            for (pn, _ps), ev in zip(f.params[1:], extra_vals):
                denv[pn] = ev
            drop = I.w.eval(drop_test, denv, SpecFn(tag, [], "Bool", "spec"), want="Bool")
            for pi, p in enumerate(paths):
                if p.outcome != "return":
                    I.obligations.append(Obligation(f"R:{tag}.filter.p{pi}", list(p.pc), z3.BoolVal(False), I.src.line(I.module, e), "R", "filter condition raises"))
                    continue
                I.obligations.append(Obligation(f"R:{tag}.filter.p{pi}", list(p.pc), p.value.t == z3.Not(drop.v), I.src.line(I.module, e), "R",
                                                f"comprehension condition ≡ keep-predicate of {rule.fn}"))
            memo[mkey] = True
        return SAdt(src.sort, I.w.apply(rule.fn, src.t, *[ev.v for ev in extra_vals]), fresh=True)
    if isinstance(rule, MapComp) and rule.fn and isinstance(src, SAdt):
        return map_comp(I, e, k, rule, src)
    # element-wise over a concrete-length sequence
    items = I.iter_concrete(src, e)
    out = []
    saved = dict(I.st.env)
    for it in items:
        I.assign(g.target, it)
        keep = True
        for cond in g.ifs:
            if not I.branch(I.truth(I.eval(cond))):
                keep = False
                break
        if keep:
            out.append(I.eval(e.elt))
    for n in target_names(g.target):
        if n in saved:
            I.st.env[n] = saved[n]
        else:
            I.st.env.pop(n, None)
    return PySeq(out, "list", True)


# ------------------------------------------------------------------------------------------------
def inplace_map_loop(I, s: ast.For, k: int, rule: InPlaceMap):
    w = I.w
    it = s.iter
    if not (isinstance(it, ast.Call) and isinstance(it.func, ast.Name) and it.func.id == "enumerate" and len(it.args) == 1
            and isinstance(it.args[0], ast.Name) and it.args[0].id == rule.list_var):
        raise Unsupported(f"loop {k}: expected `for i, x in enumerate({rule.list_var})`")
    names = target_names(s.target)
    if len(names) != 2:
        raise Unsupported("in-place map loop target")
    ivar, xvar = names
    lst = I.st.env.get(rule.list_var)
    f = w.reg.fns[rule.fn]
    lsort = f.params[0][1]
    if not isinstance(lst, SAdt) or lst.sort != lsort:
        lst = I.coerce_param(lst, lsort)
    if not getattr(lst, "fresh", False):
        I.oblige_frame(s, f"in-place update of `{rule.list_var}`, which is not local")
    sh = I.list_shape(lst)
    nil, cons, _tl = sh
    esort = I.ctor(cons).fields[0][1]
    outer_env = dict(I.st.env)
    tag = f"{I.short()}:loop{k}" + ("" if not I.trace.decisions else "@" + "".join(map(str, I.trace.decisions)))
    memo = I.__dict__.setdefault("_loop_memo", {})
    if tag not in memo:
        c = I.from_val(Val(esort, I.fresh(esort, xvar)))
        idx = SInt(I.fresh("Int", ivar))
        marker = SAdt(lsort, I.fresh(lsort, rule.list_var), fresh=True, pyclass="inplace")
        stores = {}

        def store_hook(obj, sl, v, node):
            if obj is not marker and not (isinstance(obj, SAdt) and obj.pyclass == "inplace"):
                return False
            iv = I.eval(sl)
            if not (isinstance(iv, SInt) and iv.t.eq(idx.t)):
                raise Unsupported(f"loop {k}: write to `{rule.list_var}` at an index other than the loop index")
            key = tuple(I.trace.decisions)
            stores[id(I.trace)] = I.coerce_param(v, esort)
            return True
        I.inplace_store = store_hook

        def run():
            I.st.env = dict(outer_env)
            I.st.env[rule.list_var] = marker
            I.st.env[ivar] = idx
            I.st.env[xvar] = c
            stores.pop(id(I.trace), None)
            try:
                I.exec_block(s.body)
            except _Continue:
                pass
            new = stores.get(id(I.trace), c)
            return new
        if rule.elem_inv:
            I.st.pc.append(spec_bool(I, rule.elem_inv, {"c": I.to_val(c)}, tag))
        paths = I.explore(run)
        if rule.elem_inv:
            I.st.pc.pop()
        I.inplace_store = None
        env0 = {"c": I.to_val(c)}
        for n_, v_ in outer_env.items():
            try:
                env0.setdefault(n_, I.to_val(v_))
            except Unsupported:
                pass
        stepv = spec_term(I, rule.step, env0, tag, want=esort)
        rc = spec_bool(I, rule.elem_raises, env0, tag) if rule.elem_raises else z3.BoolVal(False)
        where = I.src.line(I.module, s)
        for pi, p in enumerate(paths):
            pname = f"R:{tag}.body.p{pi}"
            if p.outcome == "raise":
                ok = z3.BoolVal(False) if rule.raises is None else z3.And(rc, z3.BoolVal(p.value.name == rule.raises))
                I.obligations.append(Obligation(pname + ".raises", list(p.pc), ok, where, "R", f"body raises {p.value.name}: allowed only when `{rule.elem_raises}`"))
                continue
            I.obligations.append(Obligation(pname + ".noraise", list(p.pc), z3.Not(rc), where, "R", f"body completes, so `{rule.elem_raises}` must be false"))
            I.obligations.append(Obligation(pname + ".elem", list(p.pc), I.to_val(p.value).v == stepv.v, where, "R", f"new element ≡ `{rule.step}`"))
        # fn is the map of step; raises_fold is `exists`
        r0 = I.fresh(lsort, "r")
        consv = w.ctor_fn(I.ctor(cons))(I.to_val(c).v, r0)
        nilv = w.ctor_fn(I.ctor(nil))
        I.obligations.append(Obligation(f"R:{tag}.map.cons", list(I.st.pc), w.apply(rule.fn, consv) == w.ctor_fn(I.ctor(cons))(stepv.v, w.apply(rule.fn, r0)), where, "R", f"{rule.fn} is the map of the step"))
        I.obligations.append(Obligation(f"R:{tag}.map.nil", list(I.st.pc), w.apply(rule.fn, nilv) == nilv, where, "R", ""))
        if rule.list_inv:
            li_c = spec_bool(I, rule.list_inv, {**env0, "xs": Val(lsort, consv)}, tag)
            li_r = spec_bool(I, rule.list_inv, {**env0, "xs": Val(lsort, r0)}, tag)
            einv = spec_bool(I, rule.elem_inv, env0, tag)
            I.obligations.append(Obligation(f"R:{tag}.list_inv.cons", list(I.st.pc), li_c == z3.And(einv, li_r), where, "R", "list invariant is `all elem_inv`"))
            I.obligations.append(Obligation(f"R:{tag}.list_inv.entry", list(I.st.pc), spec_bool(I, rule.list_inv, {"xs": I.to_val(lst)}, tag), where, "R",
                                            f"`{rule.list_inv}` holds for the list the loop runs over"))
        if rule.raises_fold:
            lhs = spec_bool(I, rule.raises_fold, {**env0, "xs": Val(lsort, consv)}, tag)
            rhs = z3.Or(rc, spec_bool(I, rule.raises_fold, {**env0, "xs": Val(lsort, r0)}, tag))
            if rule.elem_inv:
                lhs = z3.Implies(spec_bool(I, rule.elem_inv, env0, tag), lhs == rhs)
                rhs = z3.BoolVal(True)
            I.obligations.append(Obligation(f"R:{tag}.raises_fold.cons", list(I.st.pc), lhs == rhs, where, "R", "loop raises iff some element raises"))
            I.obligations.append(Obligation(f"R:{tag}.raises_fold.nil", list(I.st.pc), z3.Not(spec_bool(I, rule.raises_fold, {**env0, "xs": Val(lsort, nilv)}, tag)), where, "R", ""))
        memo[tag] = True
    if rule.raises_fold:
        cnd = spec_bool(I, rule.raises_fold, {"xs": I.to_val(lst)}, tag)
        if I.branch(cnd):
            raise _Raise(SExc(rule.raises, []), s.lineno)
    I.st.env[rule.list_var] = SAdt(lsort, w.apply(rule.fn, lst.t), fresh=True, pyclass=lst.pyclass)
    for t in names:
        I.st.env[t] = SOpaque(f"value of {t} after loop {k}")


# ------------------------------------------------------------------------------------------------
def backward_splice_loop(I, s: ast.For, k: int, rule: BackwardSplice):
    w = I.w
    want_iter = f"reversed(range(len({rule.list_var})))"
    if ast.unparse(s.iter).replace(" ", "") != want_iter or not isinstance(s.target, ast.Name):
        raise Unsupported(f"loop {k}: expected `for i in {want_iter}`")
    ivar = s.target.id
    lst = I.st.env.get(rule.list_var)
    f = w.reg.fns[rule.fn]
    lsort = f.params[0][1]
    if not (isinstance(lst, SAdt) and lst.sort == lsort):
        raise Unsupported(f"loop {k}: `{rule.list_var}` is not a {lsort}")
    if not getattr(lst, "fresh", False):
        I.oblige_frame(s, f"in-place splice of `{rule.list_var}`, which is not local")
    nil, cons, _tl = I.list_shape(lst)
    esort = I.ctor(cons).fields[0][1]
    outer_env = dict(I.st.env)
    tag = f"{I.short()}:loop{k}" + ("" if not I.trace.decisions else "@" + "".join(map(str, I.trace.decisions)))
    memo = I.__dict__.setdefault("_loop_memo", {})
    where = I.src.line(I.module, s)
    if tag not in memo:
        c = I.from_val(Val(esort, I.fresh(esort, "elem")))
        idx = SInt(I.fresh("Int", ivar))
        marker = SAdt(lsort, I.fresh(lsort, rule.list_var), fresh=True, pyclass="splice")
        writes = {}

        def read_hook(obj, kx, node):
            if isinstance(obj, SAdt) and obj.pyclass == "splice":
                if isinstance(kx, SInt) and kx.t.eq(idx.t):
                    return c
                raise Unsupported(f"loop {k}: read of `{rule.list_var}` at an index other than the loop index")
            return None

        def write_hook(obj, sl, v, node):
            if not (isinstance(obj, SAdt) and obj.pyclass == "splice"):
                return False
            if isinstance(sl, ast.Slice):
                lo = I.eval(sl.lower) if sl.lower is not None else None
                ok = isinstance(lo, SInt) and lo.t.eq(idx.t) and sl.step is None and sl.upper is not None and ast.unparse(sl.upper).replace(" ", "") == f"{ivar}+1"
                if not ok:
                    raise Unsupported(f"loop {k}: slice write other than `{rule.list_var}[{ivar}:{ivar}+1]`")
                val = I.coerce_param(v, lsort)
                writes[id(I.trace)] = (val, bool(getattr(v, "fresh", False)), "slice")
            else:
                iv = I.eval(sl)
                if not (isinstance(iv, SInt) and iv.t.eq(idx.t)):
                    raise Unsupported(f"loop {k}: write to `{rule.list_var}` at an index other than the loop index")
                e = I.coerce_param(v, esort)
                val = SAdt(lsort, w.ctor_fn(I.ctor(cons))(I.to_val(e).v, w.ctor_fn(I.ctor(nil))))
                writes[id(I.trace)] = (val, bool(getattr(v, "fresh", False)), "item")
            return True
        I.splice_read, I.splice_write = read_hook, write_hook

        def run():
            I.st.env = dict(outer_env)
            I.st.env[rule.list_var] = marker
            I.st.env[ivar] = idx
            writes.pop(id(I.trace), None)
            try:
                I.exec_block(s.body)
            except _Continue:
                pass
            wv = writes.get(id(I.trace))
            if wv is None:
                return PySeq([SAdt(lsort, w.ctor_fn(I.ctor(cons))(I.to_val(c).v, w.ctor_fn(I.ctor(nil)))), SBool(z3.BoolVal(True)), SStr(z3.StringVal("none"))], "tuple")
            return PySeq([wv[0], SBool(z3.BoolVal(wv[1])), SStr(z3.StringVal(wv[2]))], "tuple")
        paths = I.explore(run)
        I.splice_read = I.splice_write = None
        env0 = {"c": I.to_val(c)}
        replv = spec_term(I, rule.repl, env0, tag, want=lsort)
        fw = spec_bool(I, rule.fresh_when, env0, tag) if rule.fresh_when else None
        for pi, p in enumerate(paths):
            pname = f"R:{tag}.body.p{pi}"
            if p.outcome != "return":
                I.obligations.append(Obligation(pname + ".raises", list(p.pc), z3.BoolVal(False), where, "R", f"body raises {p.value.name}: not allowed by the splice rule"))
                continue
            val, fresh, kind = p.value.items
            I.obligations.append(Obligation(pname + ".repl", list(p.pc), I.to_val(val).v == replv.v, where, "R", f"replacement of the element ≡ `{rule.repl}`"))
            if fw is not None:
                kindv = z3.simplify(kind.t).as_string()
                okf = z3.is_true(z3.simplify(fresh.t)) and kindv != "none"
                I.obligations.append(Obligation(f"F:{tag}.body.p{pi}.fresh", list(p.pc), z3.Implies(fw, z3.BoolVal(okf)), where, "F",
                                                f"when `{rule.fresh_when}`, the element is replaced by a newly allocated object (not shared with the original)"))
        # fn is the flatMap of repl
        r0 = I.fresh(lsort, "r")
        consv = w.ctor_fn(I.ctor(cons))(I.to_val(c).v, r0)
        nilv = w.ctor_fn(I.ctor(nil))
        app = {"NodeList": "nappend"}.get(lsort)
        I.obligations.append(Obligation(f"R:{tag}.flatmap.cons", list(I.st.pc), w.apply(rule.fn, consv) == w.apply(app, replv.v, w.apply(rule.fn, r0)), where, "R", f"{rule.fn} is the flatMap of the replacement"))
        I.obligations.append(Obligation(f"R:{tag}.flatmap.nil", list(I.st.pc), w.apply(rule.fn, nilv) == nilv, where, "R", ""))
        memo[tag] = True
    I.st.env[rule.list_var] = SAdt(lsort, w.apply(rule.fn, lst.t), fresh=True, pyclass=lst.pyclass)
    I.st.env[ivar] = SOpaque(f"value of {ivar} after loop {k}")


# ------------------------------------------------------------------------------------------------
def map_comp(I, e, k, rule: MapComp, src: SAdt):
    """[f(x) for x in xs] over a symbolic list: result = fn(xs, args); obligations: f(c) == elem(c) for a fresh element, and fn is the map of elem"""
    w = I.w
    g = e.generators[0]
    if g.ifs or not isinstance(g.target, ast.Name):
        raise Unsupported(f"comprehension {k}: map rule needs `[f(x) for x in xs]`")
    f = w.reg.fns[rule.fn]
    lsort = f.params[0][1]
    if src.sort != lsort:
        raise Unsupported(f"comprehension {k}: source is {src.sort}, {rule.fn} maps {lsort}")
    nil, cons, _tl = I.list_shape(src)
    esort = I.ctor(cons).fields[0][1]
    rsort = f.ret
    rnil, rcons, _ = I.list_shape(SAdt(rsort, None))
    resort = I.ctor(rcons).fields[0][1]
    tag = f"{I.short()}:comp{k}"
    outer_env = dict(I.st.env)
    xenv = {}
    for n_, v_ in outer_env.items():
        try:
            xenv[n_] = I.to_val(v_)
        except Unsupported:
            pass
    extra_vals = [spec_term(I, rule.args[pn], xenv, tag, want=ps) for pn, ps in f.params[1:]]
    memo = I.__dict__.setdefault("_loop_memo", {})
    mkey = tag + "@" + "".join(map(str, I.trace.decisions))
    where = I.src.line(I.module, e)
    if mkey not in memo:
        c = I.from_val(Val(esort, I.fresh(esort, g.target.id)))

        def run():
            I.st.env = dict(outer_env)
            I.st.env[g.target.id] = c
            return I.coerce_param(I.eval(e.elt), resort)
        paths = I.explore(run)
        env0 = dict(xenv)
        env0["c"] = I.to_val(c)
        want = spec_term(I, rule.elem, env0, tag, want=resort)
        for pi, p in enumerate(paths):
            if p.outcome != "return":
                I.obligations.append(Obligation(f"R:{tag}.map.p{pi}", list(p.pc), z3.BoolVal(False), where, "R", "element expression raises"))
                continue
            I.obligations.append(Obligation(f"R:{tag}.map.p{pi}", list(p.pc), I.to_val(p.value).v == want.v, where, "R", f"element expression ≡ `{rule.elem}`"))
        r0 = I.fresh(lsort, "r")
        consv = w.ctor_fn(I.ctor(cons))(I.to_val(c).v, r0)
        I.obligations.append(Obligation(f"R:{tag}.map.cons", list(I.st.pc), w.apply(rule.fn, consv, *[ev.v for ev in extra_vals]) ==
                                        w.ctor_fn(I.ctor(rcons))(want.v, w.apply(rule.fn, r0, *[ev.v for ev in extra_vals])), where, "R", f"{rule.fn} is the map of the element expression"))
        I.obligations.append(Obligation(f"R:{tag}.map.nil", list(I.st.pc), w.apply(rule.fn, w.ctor_fn(I.ctor(nil)), *[ev.v for ev in extra_vals]) == w.ctor_fn(I.ctor(rnil)), where, "R", ""))
        memo[mkey] = True
    return SAdt(rsort, w.apply(rule.fn, src.t, *[ev.v for ev in extra_vals]), fresh=True, pyclass="list")


def find_first_loop(I, s: ast.For, k: int, rule: FindFirst):
    w = I.w
    it = s.iter
    if not (isinstance(it, ast.Call) and isinstance(it.func, ast.Name) and it.func.id == "enumerate" and len(it.args) == 1):
        raise Unsupported(f"loop {k}: expected `for i, x in enumerate(xs)`")
    names = target_names(s.target)
    if len(names) != 2:
        raise Unsupported("find-first loop target")
    ivar, xvar = names
    lst = I.eval(it.args[0])
    if not (isinstance(lst, SAdt) and I.list_shape(lst)):
        raise Unsupported(f"loop {k}: not a symbolic list")
    nil, cons, _tl = I.list_shape(lst)
    esort = I.ctor(cons).fields[0][1]
    outer_env = dict(I.st.env)
    tag = f"{I.short()}:loop{k}" + ("" if not I.trace.decisions else "@" + "".join(map(str, I.trace.decisions)))
    memo = I.__dict__.setdefault("_loop_memo", {})
    where = I.src.line(I.module, s)
    if tag not in memo:
        c = I.from_val(Val(esort, I.fresh(esort, xvar)))
        idx = SInt(I.fresh("Int", ivar))
        assigned = assigned_names(s.body)

        def run():
            I.st.env = dict(outer_env)
            I.st.env[ivar] = idx
            I.st.env[xvar] = c
            try:
                I.exec_block(s.body)
            except _Break:
                return PySeq([SBool(z3.BoolVal(True)), I.st.env.get(rule.var, SNone())], "tuple")
            except _Continue:
                pass
            return PySeq([SBool(z3.BoolVal(False)), I.st.env.get(rule.var, SNone())], "tuple")
        paths = I.explore(run)
        pred = spec_bool(I, rule.pred, {"c": I.to_val(c)}, tag)
        if assigned - {rule.var}:
            I.obligations.append(Obligation(f"R:{tag}.body.state", list(I.st.pc), z3.BoolVal(False), where, "R", f"the loop body assigns {sorted(assigned - {rule.var})} besides `{rule.var}`"))
        for pi, p in enumerate(paths):
            pname = f"R:{tag}.body.p{pi}"
            if p.outcome != "return":
                I.obligations.append(Obligation(pname + ".raises", list(p.pc), z3.BoolVal(False), where, "R", "find-first body raises"))
                continue
            broke, var = p.value.items
            b = z3.is_true(z3.simplify(broke.t))
            I.obligations.append(Obligation(pname + ".break-iff", list(p.pc), pred if b else z3.Not(pred), where, "R", f"the body breaks exactly when `{rule.pred}`"))
            if b:
                okv = isinstance(var, SInt) and var.t.eq(idx.t)
                I.obligations.append(Obligation(pname + ".index", list(p.pc), z3.BoolVal(bool(okv)), where, "R", f"`{rule.var}` is set to the loop index on break"))
            else:
                same = var is outer_env.get(rule.var) or (isinstance(var, SNone) and isinstance(outer_env.get(rule.var), SNone))
                I.obligations.append(Obligation(pname + ".unchanged", list(p.pc), z3.BoolVal(bool(same)), where, "R", f"`{rule.var}` is unchanged when the element does not match"))
        # `has` is `exists pred`, `first` / `replace` act on the first match
        r0 = I.fresh(I.list_shape and lst.sort, "r")
        cv = I.to_val(c).v
        consv = w.ctor_fn(I.ctor(cons))(cv, r0)
        v0 = I.fresh(esort, "v")
        I.obligations.append(Obligation(f"R:{tag}.has.cons", list(I.st.pc), w.apply(rule.has, consv) == z3.Or(pred, w.apply(rule.has, r0)), where, "R", ""))
        I.obligations.append(Obligation(f"R:{tag}.has.nil", list(I.st.pc), z3.Not(w.apply(rule.has, w.ctor_fn(I.ctor(nil)))), where, "R", ""))
        I.obligations.append(Obligation(f"R:{tag}.first.cons", list(I.st.pc), w.apply(rule.first, consv) == z3.If(pred, cv, w.apply(rule.first, r0)), where, "R", ""))
        I.obligations.append(Obligation(f"R:{tag}.replace.cons", list(I.st.pc), w.apply(rule.replace, consv, v0) ==
                                        z3.If(pred, w.ctor_fn(I.ctor(cons))(v0, r0), w.ctor_fn(I.ctor(cons))(cv, w.apply(rule.replace, r0, v0))), where, "R", ""))
        memo[tag] = True
    if not isinstance(outer_env.get(rule.var), SNone):
        raise Unsupported(f"loop {k}: `{rule.var}` must be None before a find-first loop")
    if I.branch(w.apply(rule.has, lst.t)):
        iv = SInt(I.fresh("Int", rule.var))
        iv.first_of = (lst.t, rule)          # symbolic index of the first match in this list
        I.st.env[rule.var] = iv
    else:
        I.st.env[rule.var] = SNone()
    for t in names:
        I.st.env[t] = SOpaque(f"value of {t} after loop {k}")
