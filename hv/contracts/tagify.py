"""Contracts of tagify, render, dependency collection and resolution (C08, C09, C10, C11)."""
from ..contracts_api import Contract, Fold, BackwardSplice

CORE = "htmltools._core."
P = ["C09", "C08", "C10", "C11"]


def register(db):
    db.add(Contract(name=CORE + "TagList.tagify", params=[("self", "NodeList")], returns="NodeList", self_class="TagList",
                    ensures=["result == tagifyL(self)"], fresh=True,
                    loops={0: BackwardSplice(fn="tagifyL", list_var="cp", repl="expand(c)", fresh_when="isEl(c) or isMeta(c)")},
                    lemmas=[("L_nodes_ofNodes_any", {})], props=P,
                    note="user tagify() results are TagList | node whose content is fully tagified (A5, protocol docstring)"))
    db.add(Contract(name=CORE + "Tag.tagify", params=[("self", "Node")], returns="Node", self_class="Tag", requires=["isEl(self)"],
                    ensures=["result == tagifyT(self)"], fresh=True, props=P))
    db.method_table[("TagList", "tagify")] = CORE + "TagList.tagify"
    db.method_table[("Tag", "tagify")] = CORE + "Tag.tagify"
    db.add(Contract(name=CORE + "_resolve_dependencies", params=[("deps", "DepList")], returns="DepList", ensures=["result == resolve(deps)"], fresh=True,
                    loops={0: Fold(fn="resolveFold", over="deps", elem="dep", state={"map": "acc"}, acc="map", state_sorts={"map": "DepMap"})},
                    props=["C10", "C11", "C18"], note="packaging.Version comparison = an abstract strict total order, imaged in Int (A3)"))
    db.add(Contract(name=CORE + "TagList.get_dependencies", params=[("self", "NodeList"), ("dedup", "Bool")], returns="DepList", self_class="TagList",
                    ensures=["result == depsOf(self, dedup)"], fresh=True,
                    loops={0: Fold(fn="collectL", over="self", elem="x", state={"deps": "acc"}, acc="deps", state_sorts={"deps": "DepList"})},
                    props=["C10", "C07", "C11", "C08"]))
    db.add(Contract(name=CORE + "Tag.get_dependencies", params=[("self", "Node"), ("dedup", "Bool")], returns="DepList", self_class="Tag",
                    requires=["isEl(self)"], ensures=["result == depsOf(kidsOf(self), dedup)"], fresh=True, props=["C10", "C07", "C11", "C08"]))
    db.method_table[("TagList", "get_dependencies")] = CORE + "TagList.get_dependencies"
    db.method_table[("Tag", "get_dependencies")] = CORE + "Tag.get_dependencies"
    db.add(Contract(name=CORE + "TagList.render", params=[("self", "NodeList")], returns="Rendered", self_class="TagList",
                    raises=[("RuntimeError", "hasObL(tagifyL(self))")], ensures=["result == renderL(self)"], fresh=True, props=P))
    db.add(Contract(name=CORE + "Tag.render", params=[("self", "Node")], returns="Rendered", self_class="Tag", requires=["isEl(self)"],
                    raises=[("RuntimeError", "hasObT(tagifyT(self))")], ensures=["result == renderT(self)"], fresh=True, props=P))
    db.method_table[("TagList", "render")] = CORE + "TagList.render"
    db.method_table[("Tag", "render")] = CORE + "Tag.render"
