"""Contracts of tagify, render, dependency collection and resolution (C08, C09, C10, C11)."""
from ..contracts_api import Contract, Fold, BackwardSplice

CORE = "htmltools._core."
P = ["C09", "C08", "C10", "C11"]


def register(db):
    db.add(Contract(name=CORE + "TagList.tagify", params=[("self", "NodeList")], returns="NodeList", self_class="TagList",
                    ensures=["result == tagifyL(self)"], fresh=True,
                    loops={0: BackwardSplice(fn="tagifyL", list_var="cp", repl="expand(c)", fresh_when="isEl(c) or isMeta(c)")},
                    lemmas=[("L_nodes_ofNodes_any", {})], props=P,
                    note="user tagify() results are TagList | node whose content is fully tagified (A5, protocol docstring)"))
    db.add(Contract(name=CORE + "Tag.tagify", params=[("self", "Node")], returns="Node", self_class="Tag", requires=["isEl(self)"],
                    ensures=["result == tagifyT(self)"], fresh=True, props=P))
    db.method_table[("TagList", "tagify")] = CORE + "TagList.tagify"
    db.method_table[("Tag", "tagify")] = CORE + "Tag.tagify"
    db.add(Contract(name=CORE + "_resolve_dependencies", params=[("deps", "DepList")], returns="DepList", ensures=["result == resolve(deps)"], fresh=True,
                    loops={0: Fold(fn="resolveFold", over="deps", elem="dep", state={"map": "acc"}, acc="map", state_sorts={"map": "DepMap"})},
                    props=["C10", "C11", "C18"], note="packaging.Version comparison = an abstract strict total order, imaged in Int (A3)"))
    db.add(Contract(name=CORE + "TagList.get_dependencies", params=[("self", "NodeList"), ("dedup", "Bool")], returns="DepList", self_class="TagList",
                    ensures=["result == depsOf(self, dedup)"], fresh=True,
                    loops={0: Fold(fn="collectL", over="self", elem="x", state={"deps": "acc"}, acc="deps", state_sorts={"deps": "DepList"})},
                    props=["C10", "C07", "C11", "C08"]))
    db.add(Contract(name=CORE + "Tag.get_dependencies", params=[("self", "Node"), ("dedup", "Bool")], returns="DepList", self_class="Tag",
                    requires=["isEl(self)"], ensures=["result == depsOf(kidsOf(self), dedup)"], fresh=True, props=["C10", "C07", "C11", "C08"]))
    db.method_table[("TagList", "get_dependencies")] = CORE + "TagList.get_dependencies"
    db.method_table[("Tag", "get_dependencies")] = CORE + "Tag.get_dependencies"
    db.add(Contract(name=CORE + "TagList.render", params=[("self", "NodeList")], returns="Rendered", self_class="TagList",
                    raises=[("RuntimeError", "hasObL(tagifyL(self))")], ensures=["result == renderL(self)"], fresh=True, props=P))
    db.add(Contract(name=CORE + "Tag.render", params=[("self", "Node")], returns="Rendered", self_class="Tag", requires=["isEl(self)"],
                    raises=[("RuntimeError", "hasObT(tagifyT(self))")], ensures=["result == renderT(self)"], fresh=True, props=P))
    db.method_table[("TagList", "render")] = CORE + "TagList.render"
    db.method_table[("Tag", "render")] = CORE + "Tag.render"
    register_copy(db)


def register_copy(db):
    from ..contracts_api import Contract
    c = Contract(name=CORE + "Tag.__copy__", params=[("self", "Any")], returns="Any", props=["C08"],
                 note="record view of a Tag: the copy is a new object whose every field is copy(field) — equal value, and a newly allocated "
                      "attribute map / child list (so mutating either tag through the public API never affects the other)")
    c.harness, c.pure = copy_harness, True
    db.add(c)


def copy_harness(I, c):
    from ..symexec import SAdt, SStr, SBool, SNone
    fields = {"name": SStr(I.fresh("Str", "name")), "add_ws": SBool(I.fresh("Bool", "add_ws")),
              "attrs": SAdt("AttrList", I.fresh("AttrList", "attrs"), fresh=False, pyclass="TagAttrDict"),
              "children": SAdt("NodeList", I.fresh("NodeList", "children"), fresh=False, pyclass="TagList"), "prev_displayhook": SNone()}
    return copy_harness_for(I, c, "Tag", fields)


def jsx_copy_harness(I, c):
    from ..symexec import SAdt, SStr
    fields = {"name": SStr(I.fresh("Str", "name")),
              "attrs": SAdt("ArgDict", I.fresh("ArgDict", "attrs"), fresh=False, pyclass="JSXTagAttrDict"),
              "children": SAdt("NodeList", I.fresh("NodeList", "children"), fresh=False, pyclass="TagList")}
    return copy_harness_for(I, c, "JSXTag", fields)


def copy_harness_for(I, c, cls, fields):
    import z3
    from ..symexec import PyRec, SAdt, SStr, SBool, SNone, Obligation
    from ..extract import strip_docstring
    fn = I.src.find(c.name)
    saved = (I.module, I.fn_qual)
    I.module, I.fn_qual = I.src.split(c.name)[0], c.name

    def run():
        I.st.env = {"self": PyRec(cls, dict(fields), fresh=False)}
        I.loop_ordinal = I.comp_ordinal = 0
        I.exec_block(strip_docstring(fn.body))
        return SNone()
    try:
        paths = I.explore(run)
    finally:
        I.module, I.fn_qual = saved
    obs = list(I.obligations)
    I.obligations = []
    short = c.name.replace("htmltools.", "")
    for pi, p in enumerate(paths):
        tag = f"R:{short}:path{pi}"
        where = c.name
        if p.outcome != "return" or not isinstance(p.value, PyRec):
            obs.append(Obligation(f"{tag}.result", p.pc, z3.BoolVal(False), where, "R", f"returns a {cls} object"))
            continue
        r = p.value
        obs.append(Obligation(f"F:{short}:path{pi}.fresh-object", p.pc, z3.BoolVal(bool(r.fresh) and r is not p.env.get("self")), where, "F", "the result is a newly allocated object"))
        obs.append(Obligation(f"{tag}.class", p.pc, z3.BoolVal(r.cls == cls), where, "R", "same class as the original"))
        obs.append(Obligation(f"{tag}.fields", p.pc, z3.BoolVal(set(r.fields) == set(fields)), where, "R", f"same instance fields ({sorted(r.fields)})"))
        for f, v0 in fields.items():
            v1 = r.fields.get(f)
            if v1 is None:
                continue
            if isinstance(v0, SNone):
                obs.append(Obligation(f"{tag}.field[{f}]", p.pc, z3.BoolVal(isinstance(v1, SNone)), where, "R", f"{f} copied"))
            else:
                obs.append(Obligation(f"{tag}.field[{f}]", p.pc, v1.t == v0.t, where, "R", f"copy.{f} == self.{f} (structurally)"))
            if isinstance(v0, SAdt):
                obs.append(Obligation(f"F:{short}:path{pi}.fresh[{f}]", p.pc, z3.BoolVal(bool(getattr(v1, "fresh", False))), where, "F",
                                      f"copy.{f} is a newly allocated {v0.pyclass}, not shared with the original"))
        orig = p.env.get("self")
        same = isinstance(orig, PyRec) and all(orig.fields.get(f) is fields[f] for f in fields)
        obs.append(Obligation(f"F:{short}:path{pi}.original-untouched", p.pc, z3.BoolVal(bool(same)), where, "F", "no field of the original is reassigned"))
    return obs
