"""Contracts of HTML(UserString) on the `str | HTML` view (AttrVal: Plain = str, RawV = HTML) — C04, C03."""
from ..contracts_api import Contract

CORE = "htmltools._core."
P = ["C04", "C03", "C02", "C15"]


def register(db):
    for m in ("as_string", "__str__", "_repr_html_", "__repr__"):
        db.add(Contract(name=CORE + "HTML." + m, params=[("self", "AttrVal")], returns="Str", self_class="HTML",
                        requires=["isRawV(self)"], ensures=["result == strOf(self)"], props=P + ["C01", "C05", "C06", "C07"]))
        db.method_table[("HTML", m)] = CORE + "HTML." + m
    db.add(Contract(name=CORE + "HTML.__add__", params=[("self", "AttrVal"), ("other", "AddArg")], returns="AttrVal", self_class="HTML",
                    requires=["isRawV(self)"], ensures=["result == addAny(self, other)"], fresh=True, props=P,
                    note="`other` ranges over str | HTML | any other object; for other objects str(other) is an external pure call (A5)"))
    db.add(Contract(name=CORE + "HTML.__radd__", params=[("self", "AttrVal"), ("other", "AddArg")], returns="AttrVal", self_class="HTML",
                    requires=["isRawV(self)", "not isAHtml(other)"], ensures=["result == raddAny(self, other)"], fresh=True, props=P))
    db.method_table[("HTML", "__add__")] = CORE + "HTML.__add__"
    db.method_table[("HTML", "__radd__")] = CORE + "HTML.__radd__"
