"""Contracts of the JSX helpers (C20): JSXTag.__copy__, attribute-name normalisation, string leaves of the React expression."""
import z3
from ..contracts_api import Contract

JSX = "htmltools._jsx."
P = ["C20"]


def register(db):
    from .tagify import jsx_copy_harness
    c = Contract(name=JSX + "JSXTag.__copy__", params=[("self", "Any")], returns="Any", props=P,
                 note="record view of a JSXTag: the copy is a new object whose every field is copy(field): equal value, and a newly allocated prop map / child list")
    c.harness, c.pure = jsx_copy_harness, True
    db.add(c)
    db.add(Contract(name=JSX + "JSXTagAttrDict._normalize_attr_name", params=[("x", "Str")], returns="Str", ensures=["result == normName(x)"], props=P,
                    note="prop names are normalised like attribute names: one trailing underscore dropped, the other underscores become hyphens"))
    c2 = Contract(name=JSX + "_render_react_js#str", params=[("x", "Str"), ("indent", "Nat"), ("eol", "Str")], returns="Str", props=P,
                  note="a string child becomes the double-quoted literal jsStr(x) at the current indentation")
    c2.harness, c2.pure = leaf_harness, True
    db.add(c2)
    c3 = Contract(name=JSX + "_serialize_attr#scalar", params=[("x", "Any")], returns="Str", props=P,
                  note="prop values None / True / False / a plain string are written as null / true / false / jsStr(x)")
    c3.harness, c3.pure = attr_harness, True
    db.add(c3)


def _run(I, qual, env):
    from ..extract import strip_docstring
    from ..symexec import SNone
    fn = I.src.find(qual)
    saved = (I.module, I.fn_qual)
    I.module, I.fn_qual = I.src.split(qual)[0], qual

    def run():
        I.st.env = dict(env)
        I.loop_ordinal = I.comp_ordinal = 0
        I.exec_block(strip_docstring(fn.body))
        return SNone()
    try:
        return I.explore(run)
    finally:
        I.module, I.fn_qual = saved


def leaf_harness(I, c):
    from ..symexec import SStr, SInt, Obligation, Unsupported
    qual = JSX + "_render_react_js"
    x, eol = SStr(I.fresh("Str", "x")), SStr(I.fresh("Str", "eol"))
    ind = SInt(I.fresh("Int", "indent"))
    paths = _run(I, qual, {"x": x, "indent": ind, "eol": eol})
    obs = list(I.obligations)
    I.obligations = []
    I.fn_qual, I.module = qual, I.src.split(qual)[0]
    want = I.F("jsLeaf", x.t, ind.t)
    for pi, p in enumerate(paths):
        with I.at_path(p):
            tag = f"R:_jsx._render_react_js[str]:path{pi}"
            if p.outcome == "raise":
                obs.append(Obligation(f"{tag}.raises-{p.value.name}", p.pc, z3.BoolVal(False), qual, "R", "a string child never raises"))
                continue
            try:
                got = I.coerce_param(p.value, "Str")
                obs.append(Obligation(f"{tag}.ensures0", p.pc + [ind.t >= 0], got.t == want, qual, "R", "result == '  ' * indent + jsStr(x)"))
            except Unsupported as ex:
                obs.append(Obligation(f"{tag}.ensures0", p.pc, z3.BoolVal(False), qual, "R", str(ex)))
    obs.extend(I.obligations)
    I.obligations = []
    return obs


def attr_harness(I, c):
    from ..symexec import SStr, SBool, SNone, PySeq, PyDict, Obligation, Unsupported
    qual = JSX + "_serialize_attr"
    obs = []
    T, F_ = (lambda: SBool(z3.BoolVal(True))), (lambda: SBool(z3.BoolVal(False)))
    cases = [("None", SNone(), z3.StringVal("null")), ("True", T(), z3.StringVal("true")), ("False", F_(), z3.StringVal("false"))]
    xs = SStr(I.fresh("Str", "x"))
    cases.append(("str", xs, I.F("jsStr", xs.t)))
    # sequences and dicts of scalars: every element written by the same rules, ", "-joined, in order (an element is never written by str())
    cat = lambda *ts: z3.Concat(*ts)
    SV = z3.StringVal
    cases.append(("list[]", PySeq([], "list", False), SV("[]")))
    cases.append(("tuple[None,str]", PySeq([SNone(), xs], "tuple", False), cat(SV("[null, "), I.F("jsStr", xs.t), SV("]"))))
    for bv in (True, False):
        b = lambda: SBool(z3.BoolVal(bv))
        bjs = SV("true" if bv else "false")
        cases.append((f"list[{bv}]", PySeq([b()], "list", False), cat(SV("["), bjs, SV("]"))))
        cases.append((f"list[True,False,{bv}]", PySeq([T(), F_(), b()], "list", False), cat(SV("[true, false, "), bjs, SV("]"))))
        cases.append((f"list[list[{bv}],None]", PySeq([PySeq([b()], "list", False), SNone()], "list", False), cat(SV("[["), bjs, SV("], null]"))))
        cases.append((f"dict[on:[{bv}],off:None]", PyDict([(SStr(SV("on")), PySeq([b()], "tuple", False)), (SStr(SV("off")), SNone())], False),
                      cat(SV('{"on": ['), bjs, SV('], "off": null}'))))
    for kind, v, want in cases:
        paths = _run(I, qual, {"x": v})
        obs.extend(I.obligations)
        I.obligations = []
        I.fn_qual, I.module = qual, I.src.split(qual)[0]
        for pi, p in enumerate(paths):
            with I.at_path(p):
                tag = f"R:_jsx._serialize_attr[{kind}]:path{pi}"
                if p.outcome == "raise":
                    obs.append(Obligation(f"{tag}.raises-{p.value.name}", p.pc, z3.BoolVal(False), qual, "R", "scalars never raise"))
                    continue
                try:
                    got = I.coerce_param(p.value, "Str")
                    obs.append(Obligation(f"{tag}.ensures0", p.pc, got.t == want, qual, "R", f"{kind} is written as the corresponding JavaScript"))
                except Unsupported as ex:
                    obs.append(Obligation(f"{tag}.ensures0", p.pc, z3.BoolVal(False), qual, "R", str(ex)))
        obs.extend(I.obligations)
        I.obligations = []
    return obs
