"""Contracts of child normalisation (C14): flatten, _tagchilds_to_tagnodes, is_tag_node/is_tag_child,
the TagList mutators (own and inherited), Tag.insert/extend/append."""
from ..contracts_api import Contract, Fold, InPlaceMap

CORE = "htmltools._core."
UTIL = "htmltools._util."
TL = CORE + "TagList."
P = ["C14", "C02", "C15"]


def register(db):
    db.add(Contract(name=UTIL + "_flatten_recurse", params=[("x", "ChildList"), ("result", "ChildList")],
                    modifies=["result"], post={"result": "flatInto(x, result)"},
                    loops={0: Fold(fn="flatInto", over="x", elem="item", state={"result": "acc"}, acc="result")}, props=P))
    db.add(Contract(name=UTIL + "flatten", params=[("x", "ChildList")], returns="ChildList", ensures=["result == flatC(x)"], fresh=True, props=P))
    db.add(Contract(name=CORE + "is_tag_node", params=[("x", "Child")], returns="Bool",
                    ensures=["result == (isNodeC(x) or isTagListC(x))"], props=P,
                    note="objects of the CBad class have none of tagify/_repr_html_ and are not str/HTML/MetadataNode (A2)"))
    db.add(Contract(name=CORE + "is_tag_child", params=[("x", "Child")], returns="Bool",
                    ensures=["implies(isTagChild(x), result)", "implies(result, isTagChild(x))"], props=P,
                    note="first clause is the property's (accepts every value the operations accept); second: rejects foreign objects (CBad is not a Sequence, A2)"))
    db.add(Contract(
        name=CORE + "_tagchilds_to_tagnodes", params=[("x", "Child")], returns="NodeList",
        requires=["isIterArg(x)"],
        raises=[("TypeError", "bad(iterArg(x))")], ensures=["result == nodes(iterArg(x))"], fresh=True,
        loops={0: InPlaceMap(fn="mapConvStep", list_var="result", step="convStep(c)", elem_raises="not isNumC(c) and not isNodeC(c)",
                             raises="TypeError", raises_fold="anyBadAtom(xs)",
                             elem_inv="isAtomChild(c)", list_inv="allAtomChildren(xs)")},
        lemmas=[("L_all_nodes", {"l": "@flatC(iterArg(x))"}), ("L_flat_atoms", {"l": "@iterArg(x)"})], props=P))
    # ---- TagList -------------------------------------------------------------------------------------------------
    db.add(Contract(name=TL + "__init__", params=[("self", "NodeList"), ("args", "ChildList")], self_class="TagList", modifies=["self"],
                    raises=[("TypeError", "bad(args)")], post={"self": "nodes(args)"}, props=P))
    db.add(Contract(name=TL + "extend", params=[("self", "NodeList"), ("other", "Child")], self_class="TagList", modifies=["self"],
                    requires=["isIterArg(other)"], raises=[("TypeError", "bad(iterArg(other))")],
                    post={"self": "nappend(self, nodes(iterArg(other)))"}, unchanged_on_raise=["self"], props=P))
    db.add(Contract(name=TL + "append", params=[("self", "NodeList"), ("item", "Child"), ("args", "ChildList")], self_class="TagList", modifies=["self"],
                    raises=[("TypeError", "bad(CCons(item, args))")], post={"self": "nappend(self, nodes(CCons(item, args)))"},
                    unchanged_on_raise=["self"], props=P))
    db.add(Contract(name=TL + "insert", params=[("self", "NodeList"), ("i", "Int"), ("item", "Child")], self_class="TagList", modifies=["self"],
                    raises=[("TypeError", "bad(CCons(item, CNil()))")], post={"self": "ninsert(self, i, nodes(CCons(item, CNil())))"},
                    unchanged_on_raise=["self"], props=P))
    db.add(Contract(name=TL + "__add__", params=[("self", "NodeList"), ("item", "Child")], returns="NodeList", self_class="TagList",
                    requires=["isIterArg(item)"], raises=[("TypeError", "bad(iterArg(item))")],
                    ensures=["result == nappend(self, nodes(iterArg(item)))"], fresh=True,
                    lemmas=[("L_nodes_taglist_first", {"l": "self", "r": "@iterArg(item)"})], props=P))
    db.add(Contract(name=TL + "__radd__", params=[("self", "NodeList"), ("item", "Child")], returns="NodeList", self_class="TagList",
                    requires=["isIterArg(item)"], raises=[("TypeError", "bad(iterArg(item))")],
                    ensures=["result == nappend(nodes(iterArg(item)), self)"], fresh=True,
                    lemmas=[("L_nodes_taglist_last", {"l": "self", "r": "@iterArg(item)"})], props=P))
    db.add(Contract(name=TL + "__iadd__", params=[("self", "NodeList"), ("other", "Child")], returns="NodeList", self_class="TagList", modifies=["self"],
                    requires=["isIterArg(other)"], raises=[("TypeError", "bad(iterArg(other))")],
                    post={"self": "nappend(self, nodes(iterArg(other)))"}, ensures=["result == nappend(self, nodes(iterArg(other)))"],
                    unchanged_on_raise=["self"], props=P, inherited_from="collections.UserList.__iadd__",
                    note="`tl += x`: the contract is the property's (same normalisation as extend); the body verified is whatever "
                         "TagList.__iadd__ resolves to through the MRO (htmltools' own definition, else collections.UserList.__iadd__ from the stdlib source)"))
    for m in ("__init__", "extend", "append", "insert", "__add__", "__radd__", "__iadd__"):
        db.method_table[("TagList", m)] = TL + m
    # ---- Tag delegates ----------------------------------------------------------------------------------------------
    T = CORE + "Tag."
    db.add(Contract(name=T + "extend", params=[("self", "Node"), ("x", "Child")], self_class="Tag", modifies=["self"],
                    requires=["isEl(self)", "isIterArg(x)"], raises=[("TypeError", "bad(iterArg(x))")],
                    post={"self": "withKids(self, nappend(kidsOf(self), nodes(iterArg(x))))"}, unchanged_on_raise=["self"], props=P))
    db.add(Contract(name=T + "append", params=[("self", "Node"), ("args", "ChildList")], self_class="Tag", modifies=["self"],
                    requires=["isEl(self)"], raises=[("TypeError", "isCNil(args) or bad(args)")],
                    post={"self": "withKids(self, nappend(kidsOf(self), nodes(args)))"}, unchanged_on_raise=["self"], props=P,
                    note="Tag.append() with no argument calls TagList.append() without its required `item`: TypeError"))
    db.add(Contract(name=T + "insert", params=[("self", "Node"), ("index", "Int"), ("x", "Child")], self_class="Tag", modifies=["self"],
                    requires=["isEl(self)"], raises=[("TypeError", "bad(CCons(x, CNil()))")],
                    post={"self": "withKids(self, ninsert(kidsOf(self), index, nodes(CCons(x, CNil()))))"}, unchanged_on_raise=["self"], props=P))
    for m in ("extend", "append", "insert"):
        db.method_table[("Tag", m)] = T + m
