"""Sidecar contracts, keyed by qualified name.  `build_db()` registers every contract module."""
from ..contracts_api import ContractDB


def build_db():
    db = ContractDB()
    from . import render, html, attrs, children, helpers, tagify
    render.register(db)
    html.register(db)
    attrs.register(db)
    children.register(db)
    helpers.register(db)
    tagify.register(db)
    return db


def extra_lemmas(ctx):
    """lemma schemas contributed by contract modules (beyond the escape-table ones of hv.ground)"""
    from ..ground import Lemma
    import os
    have_attrfacts = os.path.exists(os.path.join(os.path.dirname(os.path.dirname(os.path.abspath(__file__))), "lean", "HV", "AttrFacts.lean"))
    out = [
        Lemma("L_escT_space", [], "escT(' ') == ' ' and escA(' ') == ' '", "by decide",
              why="a space is not a key of either escape table (decided on this run's tables)"),
    ]
    if os.path.exists(os.path.join(os.path.dirname(os.path.dirname(os.path.abspath(__file__))), "lean", "HV", "C14.lean")):
        out += [
            Lemma("L_all_nodes", [("l", "ChildList")], "implies(not anyBadAtom(l), allNodesC(mapConvStep(l)))",
                  "by have h := C14_all_nodes l; cases hb : anyBadAtom l <;> simp_all [implies]", imports=("HV.C14",),
                  why="after the in-place conversion only tag nodes remain (C14_all_nodes)"),
            Lemma("L_flat_atoms", [("l", "ChildList")], "allAtomChildren(flatC(l))", "by simpa using flatC_atoms l", imports=("HV.C14b",),
                  why="the flattening contains no None and no nested list (allAtoms_flatC)"),
            Lemma("L_nodes_ofNodes_any", [("l", "NodeList")], "nodes(ofNodes(l)) == l and not bad(ofNodes(l))",
                  "by simp [(C14_nodes_ofNodes l).1, (C14_nodes_ofNodes l).2]", imports=("HV.C14",),
                  why="a TagList returned by tagify() is spliced unchanged (stored nodes re-normalise to themselves)"),
            Lemma("L_nodes_taglist_first", [("l", "NodeList"), ("r", "ChildList")],
                  "nodes(CCons(CSeq(2, ofNodes(l)), r)) == nappend(l, nodes(r)) and bad(CCons(CSeq(2, ofNodes(l)), r)) == bad(r)",
                  "by simp [C14_nodes_taglist_child, bad_cons_seq, (C14_nodes_ofNodes l).2]", imports=("HV.C14",), why="a TagList passed as a child is spliced unchanged"),
            Lemma("L_nodes_taglist_last", [("l", "NodeList"), ("r", "ChildList")],
                  "nodes(cappend(r, CCons(CSeq(2, ofNodes(l)), CNil()))) == nappend(nodes(r), l) and bad(cappend(r, CCons(CSeq(2, ofNodes(l)), CNil()))) == bad(r)",
                  "by\n  have hn : nodes .CNil = .NNil := by simp [nodes, C14_flat_nil, mapConvStep_nil, toNodes_nil]\n  have hb : bad .CNil = false := by simp [bad, C14_flat_nil, anyBadAtom_nil]\n  simp [C14_nodes_append, C14_bad_append, C14_nodes_taglist_child, bad_cons_seq, (C14_nodes_ofNodes l).2, nappend_nil, hn, hb]", imports=("HV.C14",),
                  why="a TagList passed as the last child is spliced unchanged"),
        ]
    if not have_attrfacts:
        return out
    return out + [
        Lemma("L_aupdate_nil", [("args", "ArgDicts"), ("kwargs", "ArgDict")],
              "aupdate(ANil(), mergeCall(args, kwargs)) == mergeCall(args, kwargs)",
              "by simpa using aupdate_nil_mergeCall realCfg args kwargs", imports=("HV.AttrFacts",),
              why="dict.update of an empty dict with a dict whose keys are unique (mergeCall builds it with aset)"),
    ]
