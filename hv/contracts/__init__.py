"""Sidecar contracts, keyed by qualified name.  `build_db()` registers every contract module."""
from ..contracts_api import ContractDB


def build_db():
    db = ContractDB()
    from . import render, html, attrs
    render.register(db)
    html.register(db)
    attrs.register(db)
    return db


def extra_lemmas(ctx):
    """lemma schemas contributed by contract modules (beyond the escape-table ones of hv.ground)"""
    from ..ground import Lemma
    import os
    have_attrfacts = os.path.exists(os.path.join(os.path.dirname(os.path.dirname(os.path.abspath(__file__))), "lean", "HV", "AttrFacts.lean"))
    out = [
        Lemma("L_escT_space", [], "escT(' ') == ' ' and escA(' ') == ' '", "by decide",
              why="a space is not a key of either escape table (decided on this run's tables)"),
    ]
    if not have_attrfacts:
        return out
    return out + [
        Lemma("L_aupdate_nil", [("args", "ArgDicts"), ("kwargs", "ArgDict")],
              "aupdate(ANil(), mergeCall(args, kwargs)) == mergeCall(args, kwargs)",
              "by simpa using aupdate_nil_mergeCall realCfg args kwargs", imports=("HV.AttrFacts",),
              why="dict.update of an empty dict with a dict whose keys are unique (mergeCall builds it with aset)"),
    ]
