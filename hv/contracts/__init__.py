"""Sidecar contracts, keyed by qualified name.  `build_db()` registers every contract module."""
from ..contracts_api import ContractDB


def build_db():
    db = ContractDB()
    from . import render, html, attrs, children, helpers, tagify, hooks, document, serial, jsx, paths, equality, depinit, astags
    render.register(db)
    html.register(db)
    attrs.register(db)
    children.register(db)
    helpers.register(db)
    tagify.register(db)
    hooks.register(db)
    document.register(db)
    serial.register(db)
    jsx.register(db)
    paths.register(db)
    equality.register(db)
    depinit.register(db)
    astags.register(db)
    return db


def extra_lemmas(ctx):
    """lemma schemas contributed by contract modules (beyond the escape-table ones of hv.ground)"""
    from ..ground import Lemma
    import os
    have_attrfacts = os.path.exists(os.path.join(os.path.dirname(os.path.dirname(os.path.abspath(__file__))), "lean", "HV", "AttrFacts.lean"))
    out = [
        Lemma("L_underscore_noop", [("s", "Str")], "implies(not contains(s, '_'), replaceAll(s, '_', '-') == s)",
              "by cases h : containsStr s ([95] : Str) <;> simp_all [implies, replaceAll_single_noop]",
              why="a name without underscores is its own normalisation", trigger="replaceAll(s, '_', '-')"),
        Lemma("L_escT_space", [], "escT(' ') == ' ' and escA(' ') == ' '", "by decide",
              why="a space is not a key of either escape table (decided on this run's tables)"),
    ]
    if os.path.exists(os.path.join(os.path.dirname(os.path.dirname(os.path.abspath(__file__))), "lean", "HV", "C14.lean")):
        out += [
            Lemma("L_all_nodes", [("l", "ChildList")], "implies(not anyBadAtom(l), allNodesC(mapConvStep(l)))",
                  "by have h := C14_all_nodes l; cases hb : anyBadAtom l <;> simp_all [implies]", imports=("HV.C14",),
                  why="after the in-place conversion only tag nodes remain (C14_all_nodes)"),
            Lemma("L_flat_atoms", [("l", "ChildList")], "allAtomChildren(flatC(l))", "by simpa using flatC_atoms l", imports=("HV.C14b",),
                  why="the flattening contains no None and no nested list (allAtoms_flatC)"),
            Lemma("L_nodes_ofNodes_any", [("l", "NodeList")], "nodes(ofNodes(l)) == l and not bad(ofNodes(l))",
                  "by simp [(C14_nodes_ofNodes l).1, (C14_nodes_ofNodes l).2]", imports=("HV.C14",), trigger="ofNodes(l)",
                  why="a TagList returned by tagify() is spliced unchanged (stored nodes re-normalise to themselves)"),
            Lemma("L_nodes_taglist_first", [("l", "NodeList"), ("r", "ChildList")],
                  "nodes(CCons(CSeq(2, ofNodes(l)), r)) == nappend(l, nodes(r)) and bad(CCons(CSeq(2, ofNodes(l)), r)) == bad(r)",
                  "by simp [C14_nodes_taglist_child, bad_cons_seq, (C14_nodes_ofNodes l).2]", imports=("HV.C14",), why="a TagList passed as a child is spliced unchanged"),
            Lemma("L_nodes_taglist_last", [("l", "NodeList"), ("r", "ChildList")],
                  "nodes(cappend(r, CCons(CSeq(2, ofNodes(l)), CNil()))) == nappend(nodes(r), l) and bad(cappend(r, CCons(CSeq(2, ofNodes(l)), CNil()))) == bad(r)",
                  "by\n  have hn : nodes .CNil = .NNil := by simp [nodes, C14_flat_nil, mapConvStep_nil, toNodes_nil]\n  have hb : bad .CNil = false := by simp [bad, C14_flat_nil, anyBadAtom_nil]\n  simp [C14_nodes_append, C14_bad_append, C14_nodes_taglist_child, bad_cons_seq, (C14_nodes_ofNodes l).2, nappend_nil, hn, hb]", imports=("HV.C14",),
                  why="a TagList passed as the last child is spliced unchanged"),
        ]
    if os.path.exists(os.path.join(os.path.dirname(os.path.dirname(os.path.abspath(__file__))), "lean", "HV", "C11.lean")):
        out += [
            Lemma("L_first_is_head", [("l", "NodeList")], "implies(hasHead(l), isHeadTag(firstHead(l)))", "by have h := first_is_head l; cases hh : hasHead l <;> simp_all [implies]",
                  imports=("HV.C11",), trigger="firstHead(l)", why="the first <head> child found by the search is a <head> tag"),
            Lemma("L_replace_first_same", [("l", "NodeList")], "replaceFirstHead(l, firstHead(l)) == l", "by simpa using replace_first_same l", imports=("HV.C11",), trigger="replaceFirstHead(l, firstHead(l))",
                  why="replacing the first <head> child by (a copy of) itself changes nothing"),
            Lemma("L_nodes_depTagChildren", [("ds", "DepList"), ("lp", "OptStr"), ("iv", "Bool")],
                  "nodes(depTagChildren(ds, lp, iv)) == depTagsAll(ds, lp, iv) and not bad(depTagChildren(ds, lp, iv))",
                  "by simp [nodes_depTagChildren env ds lp iv, bad_depTagChildren env ds lp iv]", imports=("HV.C11",), trigger="depTagChildren(ds, lp, iv)",
                  why="extending the head with one TagList per dependency stores each dependency's markup once, in order"),
            Lemma("L_nodes_one", [("n", "Node")], "nodes(CCons(CNode(n), CNil())) == NCons(n, NNil()) and not bad(CCons(CNode(n), CNil()))",
                  "by simp [nodes_one n, bad_one n]", imports=("HV.C11",), trigger="CCons(CNode(n), CNil())", why="a single tag argument is stored as itself"),
            Lemma("L_nappend_assoc", [("a", "NodeList"), ("b", "NodeList"), ("c", "NodeList")], "nappend(nappend(a, b), c) == nappend(a, nappend(b, c))",
                  "by simp [nappend_assoc a b c]", imports=("HV.C14",), trigger="nappend(nappend(a, b), c)", why="list append is associative"),
            Lemma("L_nappend_nil", [("a", "NodeList")], "nappend(a, NNil()) == a", "by simp [nappend_nil a]", imports=("HV.C14",), trigger="nappend(a, NNil())", why="appending the empty list"),
        ]
    if os.path.exists(os.path.join(os.path.dirname(os.path.dirname(os.path.abspath(__file__))), "lean", "HV", "C13.lean")):
        out += [
            Lemma("L_depsOfTexts_snoc", [("l", "StrList"), ("x", "Str")], "depsOfTexts(ssnoc(l, x)) == rsnoc(depsOfTexts(l), depOfText(x))",
                  "by simpa using depsOfTexts_ssnoc env l x", imports=("HV.C13",), trigger="depsOfTexts(ssnoc(l, x))",
                  why="appending a newly seen serialisation appends its reconstructed dependency"),
        ]
    if not have_attrfacts:
        return out
    return out + [
        Lemma("L_aupdate_nil", [("args", "ArgDicts"), ("kwargs", "ArgDict")],
              "aupdate(ANil(), mergeCall(args, kwargs)) == mergeCall(args, kwargs)",
              "by simpa using aupdate_nil_mergeCall realCfg args kwargs", imports=("HV.AttrFacts",),
              why="dict.update of an empty dict with a dict whose keys are unique (mergeCall builds it with aset)"),
    ]
