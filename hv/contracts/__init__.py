"""Sidecar contracts, keyed by qualified name.  `build_db()` registers every contract module."""
from ..contracts_api import ContractDB


def build_db():
    db = ContractDB()
    from . import render
    render.register(db)
    return db


def extra_lemmas(ctx):
    """lemma schemas contributed by contract modules (beyond the escape-table ones of hv.ground)"""
    return []
