"""Contract of structural equality (C08): _equals_impl on the record views of Tag, TagList and HTMLDependency."""
import z3
from ..contracts_api import Contract

CORE = "htmltools._core."


def register(db):
    c = Contract(name=CORE + "_equals_impl", params=[("x", "Any"), ("y", "Any")], returns="Bool", props=["C08"],
                 note="x == y: False for objects of different kinds; for two tags nodeEq (name, whitespace flag, attribute map as a dict, children pairwise); for two "
                      "lists nodesEq; for two dependencies all fields equal")
    c.harness, c.pure = eq_harness, True
    c.inline = True          # callers (the three __eq__ methods) are executed through its body, not through an abstraction of it
    db.add(c)


def _run(I, qual, env):
    from ..extract import strip_docstring
    from ..symexec import SNone
    fn = I.src.find(qual)
    saved = (I.module, I.fn_qual)
    I.module, I.fn_qual = I.src.split(qual)[0], qual

    def run():
        I.st.env = dict(env)
        I.loop_ordinal = I.comp_ordinal = 0
        I.exec_block(strip_docstring(fn.body))
        return SNone()
    try:
        return I.explore(run)
    finally:
        I.module, I.fn_qual = saved


def eq_harness(I, c):
    from ..symexec import PyRec, SAdt, SStr, SBool, SInt, SNone, Obligation, Unsupported
    qual = c.name
    obs = []

    def tag(sfx):
        f = {"name": SStr(I.fresh("Str", "name" + sfx)), "add_ws": SBool(I.fresh("Bool", "add_ws" + sfx)),
             "attrs": SAdt("AttrList", I.fresh("AttrList", "attrs" + sfx), fresh=False, pyclass="TagAttrDict"),
             "children": SAdt("NodeList", I.fresh("NodeList", "children" + sfx), fresh=False, pyclass="TagList"), "prev_displayhook": SNone()}
        return PyRec("Tag", f, fresh=False), I.C("El", f["name"].t, f["add_ws"].t, f["attrs"].t, f["children"].t)

    def taglist(sfx):
        d = SAdt("NodeList", I.fresh("NodeList", "data" + sfx), fresh=False, pyclass="list")
        return PyRec("TagList", {"data": d}, fresh=False), d.t

    def dep(sfx):
        ver = SInt(I.fresh("Int", "version" + sfx))
        f = {"name": SStr(I.fresh("Str", "name" + sfx)), "version": ver, "all_files": SBool(I.fresh("Bool", "all_files" + sfx))}
        for k in ("source", "script", "stylesheet", "meta"):
            f[k] = SAdt("JVal", I.C("JOpq", I.fresh("Int", k + sfx)), fresh=False)
        f["head"] = SAdt("NodeList", I.fresh("NodeList", "head" + sfx), fresh=False, pyclass="TagList")
        return PyRec("HTMLDependency", f, fresh=False), f

    makers = {"Tag": tag, "TagList": taglist, "HTMLDependency": dep}
    others = {"str": lambda: SStr(I.fresh("Str", "s")), "None": lambda: SNone(), "int": lambda: SInt(I.fresh("Int", "n"))}
    for kx in ("Tag", "TagList", "HTMLDependency"):
        for ky in ("Tag", "TagList", "HTMLDependency", "str", "None", "int"):
            x, tx = makers[kx]("_x")
            if ky in makers:
                y, ty = makers[ky]("_y")
            else:
                y, ty = others[ky](), None
            paths = _run(I, f"htmltools._core.{kx}.__eq__", {"self": x, "other": y})
            obs.extend(I.obligations)
            I.obligations = []
            I.fn_qual, I.module = qual, I.src.split(qual)[0]
            if kx != ky:
                want, what = z3.BoolVal(False), "objects of different kinds are never equal"
            elif kx == "Tag":
                want, what = I.F("nodeEq", tx, ty), "two tags: same name, same whitespace flag, equal attribute maps (as dicts), pairwise equal children"
            elif kx == "TagList":
                want, what = I.F("nodesEq", tx, ty), "two lists: same length and pairwise equal items"
            else:
                eqs = [tx[k].t == ty[k].t for k in ("name", "version", "all_files", "source", "script", "stylesheet", "meta")] + [I.F("nodesEq", tx["head"].t, ty["head"].t)]
                want, what = z3.And(*eqs), "two dependencies: every field equal (compared by value)"
            for pi, p in enumerate(paths):
                with I.at_path(p):
                    tag_ = f"R:_core.{kx}.__eq__[{kx}=={ky}]:path{pi}"
                    where = f"htmltools._core.{kx}.__eq__ -> _equals_impl ({kx} == {ky})"
                    if p.outcome == "raise":
                        obs.append(Obligation(f"{tag_}.raises-{p.value.name}", p.pc, z3.BoolVal(False), where, "R", "== never raises"))
                        continue
                    try:
                        got = I.truth(p.value)
                        obs.append(Obligation(f"{tag_}.ensures0", p.pc, got == want, where, "R", what))
                    except Unsupported as ex:
                        obs.append(Obligation(f"{tag_}.ensures0", p.pc, z3.BoolVal(False), where, "R", str(ex)))
            obs.extend(I.obligations)
            I.obligations = []
    return obs
