"""Contract of HTMLDependency.__init__'s validation (C10): [bounded: item lists of length <= 2, contents symbolic]
a non-dict source or item, a source with neither href nor subdir, or an item missing its required key is rejected at construction;
script / stylesheet / meta given as a single item are stored as the one-element list."""
import z3
from ..contracts_api import Contract

CORE = "htmltools._core."


def register(db):
    c = Contract(name=CORE + "HTMLDependency.__init__", params=[("self", "Any")], returns="Any", props=["C10"],
                 note="[bounded: lists of length <= 2] TypeError for a non-dict source / item or a source without href and subdir, KeyError for an item missing a required key "
                      "(script: src; stylesheet: href; meta: name and content); a single item is stored as [item]; nothing is raised for well-formed definitions")
    c.harness = init_harness
    db.add(c)
    c2 = Contract(name=CORE + "HTMLDependency._validate_dicts#loops", params=[("self", "Any")], returns="Any", props=["C10"],
                  note="`for d in ld: self._validate_dict(d, req_attr)` validates every item independently (DESIGN 3.4, independent iterations; the only call is the "
                       "validation of that one item): with it the per-item obligations of the constructor harness hold for item lists of every length")
    c2.harness, c2.pure = validate_loops_harness, True
    db.add(c2)


def validate_loops_harness(I, c):
    from ..symexec import Obligation
    from .paths import independent_iteration_findings
    import ast
    qual = c.name.split("#")[0]
    short = qual.replace("htmltools.", "")
    fn = I.src.find(qual)
    obs = []
    found = independent_iteration_findings(fn, extra_calls=("self._validate_dict",))
    body = [b for b in fn.body if not (isinstance(b, ast.Expr) and isinstance(b.value, ast.Constant))]
    whole = len(body) == 1 and isinstance(body[0], ast.For) and len(found) == 1
    obs.append(Obligation(f"G:{short}:body-is-one-loop", [], z3.BoolVal(bool(whole)), qual, "G", "the function is exactly one loop over its argument"))
    for k, bad in sorted(found.items()):
        lp = [n for n in ast.walk(fn) if isinstance(n, ast.For)][k] if whole else None
        if lp is not None:
            st = lp.body[0] if len(lp.body) == 1 else None
            ok_call = False
            if isinstance(st, ast.Expr) and isinstance(st.value, ast.Call) and ast.unparse(st.value.func) == "self._validate_dict" and isinstance(lp.iter, ast.Name) \
                    and lp.iter.id == fn.args.args[1].arg:
                # arguments bound positionally or by the callee's parameter names
                try:
                    callee = I.src.find(qual.rsplit(".", 1)[0] + "._validate_dict")
                    pn = [a.arg for a in callee.args.args][1:]
                except Exception:
                    pn = []
                bound = dict(zip(pn, st.value.args))
                dup = False
                for kw_ in st.value.keywords:
                    if kw_.arg is None or kw_.arg in bound or kw_.arg not in pn:
                        dup = True
                    else:
                        bound[kw_.arg] = kw_.value
                ok_call = (not dup and len(pn) == 2 and set(bound) == set(pn) and len(st.value.args) <= 2
                           and isinstance(bound[pn[0]], ast.Name) and bound[pn[0]].id == lp.target.id
                           and isinstance(bound[pn[1]], ast.Name) and bound[pn[1]].id == fn.args.args[2].arg)
            if not ok_call:
                bad = bad + ["the body is not the single statement `self._validate_dict(<item>, <required keys>)` over the first argument"]
        obs.append(Obligation(f"G:{short}:loop{k}.independent-iterations", [], z3.BoolVal(not bad), f"{qual} loop {k}", "G",
                              "every item is validated, each on its own, with the required keys passed through: " + ("holds" if not bad else "; ".join(bad[:4]))))
    return obs


def init_harness(I, c):
    from ..symexec import PyRec, PyDict, PySeq, SStr, SBool, SNone, Obligation, Unsupported
    from ..extract import strip_docstring
    qual = c.name
    S = lambda s: SStr(z3.StringVal(s))
    fn = I.src.find(qual)

    def item(keys, sfx=""):
        return PyDict([(S(k), SStr(I.fresh("Str", k.replace("-", "_") + sfx))) for k in keys], False)

    REQ = {"script": ["src"], "stylesheet": ["href"], "meta": ["name", "content"]}
    cases = []      # (label, kwargs, expected exception or None, check)
    # source
    cases += [("source=None", {}, None), ("source=str", {"source": SStr(I.fresh("Str", "src"))}, "TypeError"),
              ("source={href}", {"source": item(["href"])}, None), ("source={subdir}", {"source": item(["subdir"])}, None),
              ("source={package,subdir}", {"source": item(["package", "subdir"])}, None), ("source={package}", {"source": item(["package"])}, "TypeError"),
              ("source={}", {"source": PyDict([], False)}, "TypeError")]
    for arg, req in REQ.items():
        good = lambda sfx="": item(req + ["data-x"], sfx)
        cases += [(f"{arg}=None", {arg: SNone()}, None), (f"{arg}=item", {arg: good()}, None), (f"{arg}=[]", {arg: PySeq([], "list", False)}, None),
                  (f"{arg}=[item]", {arg: PySeq([good()], "list", False)}, None), (f"{arg}=[item,item]", {arg: PySeq([good("1"), good("2")], "list", False)}, None),
                  (f"{arg}=str", {arg: SStr(I.fresh("Str", "bad"))}, "TypeError*"), (f"{arg}=[item,str]", {arg: PySeq([good(), SStr(I.fresh("Str", "bad"))], "list", False)}, "TypeError"),
                  (f"{arg}={{}}", {arg: PyDict([], False)}, "KeyError"), (f"{arg}=[{{}}]", {arg: PySeq([PyDict([], False)], "list", False)}, "KeyError")]
        for miss in req:
            partial = item([k for k in req if k != miss] + ["data-x"])
            cases += [(f"{arg}=item-without-{miss}", {arg: partial}, "KeyError"), (f"{arg}=[item,item-without-{miss}]", {arg: PySeq([good(), partial], "list", False)}, "KeyError")]
    obs = []
    short = qual.replace("htmltools.", "")
    for label, kws, exp in cases:
        selfv = PyRec("HTMLDependency", {}, fresh=True)
        env = {"self": selfv, "name": SStr(I.fresh("Str", "name")), "version": SStr(I.fresh("Str", "version")), "source": SNone(), "script": SNone(), "stylesheet": SNone(),
               "all_files": SBool(z3.BoolVal(False)), "meta": SNone(), "head": SNone()}
        env.update(kws)
        saved = (I.module, I.fn_qual)
        I.module, I.fn_qual = I.src.split(qual)[0], qual
        I.inline_record_methods = True

        def run():
            I.st.env = dict(env)
            I.loop_ordinal = I.comp_ordinal = 0
            I.exec_block(strip_docstring(fn.body))
            return SNone()
        try:
            try:
                paths = I.explore(run)
            except Unsupported as ex:
                if exp == "TypeError*":
                    continue        # iterating a str argument character by character is outside the subset: left to the oracle
                raise
        finally:
            I.module, I.fn_qual = saved
            I.inline_record_methods = False
        # the constructor may normalise the items it is given (it adds rel="stylesheet" to stylesheet dicts): writes to its arguments are in its frame
        obs.extend(o for o in I.obligations if not (o.kind == "F" and o.name.endswith(":frame")))
        I.obligations = []
        I.fn_qual, I.module = qual, I.src.split(qual)[0]
        for pi, p in enumerate(paths):
            with I.at_path(p):
                tag = f"R:{short}[{label}]:path{pi}"
                where = f"{qual} ({label})"
                got = p.value.name if p.outcome == "raise" else None
                want = exp.rstrip("*") if exp else None
                obs.append(Obligation(f"{tag}.outcome", p.pc, z3.BoolVal(got == want), where, "R",
                                      f"expected {'no exception' if want is None else want}, the code {'returns' if got is None else 'raises ' + got}"))
                if got is None and want is None:
                    for arg in REQ:
                        if arg in kws:
                            v = p.env["self"].fields.get(arg)
                            given = kws[arg]
                            if isinstance(given, PyDict):
                                ok = isinstance(v, PySeq) and len(v.items) == 1 and v.items[0] is given
                                obs.append(Obligation(f"{tag}.single-item-is-list", p.pc, z3.BoolVal(bool(ok)), where, "R", f"{arg} given as one item is stored as the one-element list of that item"))
                            elif isinstance(given, PySeq):
                                ok = isinstance(v, PySeq) and len(v.items) == len(given.items) and all(a is b for a, b in zip(v.items, given.items))
                                obs.append(Obligation(f"{tag}.list-kept", p.pc, z3.BoolVal(bool(ok)), where, "R", f"{arg} given as a list is stored with the same items"))
                            elif isinstance(given, SNone):
                                ok = isinstance(v, PySeq) and len(v.items) == 0
                                obs.append(Obligation(f"{tag}.none-is-empty", p.pc, z3.BoolVal(bool(ok)), where, "R", f"{arg}=None is stored as the empty list"))
        obs.extend(I.obligations)
        I.obligations = []
    return obs
