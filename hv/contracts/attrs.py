"""Contracts of TagAttrDict (C03, C15) and of the class/style helpers of Tag (C16)."""
from ..contracts_api import Contract, Fold

CORE = "htmltools._core."
TAD = CORE + "TagAttrDict."
P = ["C15", "C03", "C16"]


def register(db):
    db.add(Contract(name=TAD + "_normalize_attr_name", params=[("x", "Str")], returns="Str", ensures=["result == normName(x)"], props=P))
    db.add(Contract(name=TAD + "_normalize_attr_value", params=[("x", "AttrArg")], returns="OptAV",
                    raises=[("TypeError", "isOtherArg(x)")], ensures=["result == normVal(x)"], props=P))
    db.method_table[("TagAttrDict", "_normalize_attr_name")] = TAD + "_normalize_attr_name"
    db.method_table[("TagAttrDict", "_normalize_attr_value")] = TAD + "_normalize_attr_value"
    db.add(Contract(name=TAD + "__setitem__", params=[("self", "AttrList"), ("name", "Str"), ("value", "AttrArg")], self_class="TagAttrDict",
                    modifies=["self"], raises=[("TypeError", "isOtherArg(value)")], post={"self": "setItemSpec(self, name, value)"},
                    unchanged_on_raise=["self"], props=P))
    db.method_table[("TagAttrDict", "__setitem__")] = TAD + "__setitem__"
    db.add(Contract(
        name=TAD + "update", params=[("self", "AttrList"), ("args", "ArgDicts"), ("kwargs", "ArgDict")], self_class="TagAttrDict",
        modifies=["self"], raises=[("TypeError", "hasOtherDs(callDicts(args, kwargs))")],
        post={"self": "aupdate(self, mergeCall(args, kwargs))"}, unchanged_on_raise=["self"],
        loops={0: Fold(fn="mergeDicts", over="args", elem="arg", state={"attrz": "acc"}, acc="attrz",
                       callee_raises="hasOtherD(d)", raises="TypeError", raises_fold="hasOtherDs(xs)"),
               1: Fold(fn="mergeDict", over="arg.items()", elem=("k", "v"), state={"attrz": "acc"}, acc="attrz",
                       callee_raises="isOtherArg(v)", raises="TypeError", raises_fold="hasOtherD(xs)")},
        lemmas=[("L_escT_space", {})],
        props=P))
    db.method_table[("TagAttrDict", "update")] = TAD + "update"
    db.add(Contract(name=TAD + "__init__", params=[("self", "AttrList"), ("args", "ArgDicts"), ("kwargs", "ArgDict")], self_class="TagAttrDict",
                    modifies=["self"], requires=["isANil(self)"], raises=[("TypeError", "hasOtherDs(callDicts(args, kwargs))")],
                    post={"self": "mergeCall(args, kwargs)"}, props=P,
                    note="dict.update(empty, m) == m is the Lean lemma aupdate_nil (imported as L_aupdate_nil)",
                    lemmas=[("L_aupdate_nil", {"args": "args", "kwargs": "kwargs"})]))
    db.method_table[("TagAttrDict", "__init__")] = TAD + "__init__"
