"""Contracts of HTMLDocument (C11, C08): the html/head/body tree, hoisting of dependencies into <head>, render()."""
import z3
from ..contracts_api import Contract, FindFirst, MapComp, DiffSpec

CORE = "htmltools._core."
DOC = CORE + "HTMLDocument."
P = ["C11", "C08"]


def register(db):
    db.add(Contract(name=CORE + "HTMLDependency.as_html_tags", params=[("self", "Dep"), ("lib_prefix", "OptStr"), ("include_version", "Bool")],
                    returns="NodeList", self_class="HTMLDependency", ensures=["result == depTags(self, lib_prefix, include_version)"], fresh=True,
                    verify=False, props=P + ["C12"],
                    note="the markup of one dependency (meta, link, script, head in that order) is an uninterpreted function of the dependency here; "
                         "its URL content is C12's subject and its order is checked by the bounded C11 oracle"))
    db.method_table[("HTMLDependency", "as_html_tags")] = CORE + "HTMLDependency.as_html_tags"
    db.add(Contract(
        name=DOC + "_hoist_head_content", params=[("x", "Node"), ("lib_prefix", "OptStr"), ("include_version", "Bool")], returns="Node",
        requires=["isEl(x)"], raises=[("ValueError", "not isNamed(x, 'html')")],
        ensures=["result == hoist(x, lib_prefix, include_version)"], fresh=True,
        loops={0: FindFirst(pred="isHeadTag(c)", var="head_index", has="hasHead", first="firstHead", replace="replaceFirstHead", first_sat_lemma="L_first_is_head")},
        comps={0: MapComp(fn="depLabels", elem="depLabel(c)"),
               1: MapComp(fn="depTagChildren", elem="CSeq(2, ofNodes(depTags(c, lib_prefix, include_version)))", args={"lp": "lib_prefix", "iv": "include_version"})},
        lemmas=[("L_underscore_noop", {}), ("L_nodes_depTagChildren", {}), ("L_replace_first_same", {}), ("L_first_is_head", {}), ("L_nodes_one", {}), ("L_nappend_assoc", {}), ("L_nappend_nil", {})],
        props=P))
    db.get(DOC + "_hoist_head_content").diff = DiffSpec(
        params=[("x", "Node"), ("lp", "OptStr"), ("iv", "Bool")], gen=_hoist_gen,
        steps=lambda v: [{"let": "r", "call": "htmltools._core.HTMLDocument._hoist_head_content", "args": [v["x"], v["lp"], v["iv"]]}],
        expected="hoist(x, lp, iv)", raises=[("ValueError", "not isNamed(x, 'html')")], ret_sort="Node", requires=["isEl(x)"])
    db.add(Contract(name=CORE + "HTMLDependency.serialize_to_script_json", params=[("self", "Dep"), ("indent", "Any")], returns="Node", self_class="HTMLDependency",
                    ensures=["result == jsonTag(self)", "isEl(result)", "not hasObT(result)"], fresh=True, verify=False, props=["C13", "C08", "C18"],
                    note="the serialised <script> element of one dependency is an uninterpreted function of the dependency here (its content is C13's subject)"))
    db.method_table[("HTMLDependency", "serialize_to_script_json")] = CORE + "HTMLDependency.serialize_to_script_json"
    cs = Contract(name=CORE + "_render_tag_or_taglist", params=[("x", "Any")], returns="Str", props=["C08", "C13", "C18"],
                  comps={0: MapComp(fn="depJsonHtmls", elem="rtag(jsonTag(c), 0, '\\n')")},
                  note="for a Tag and for a TagList: result == strOut(render(x), html_dependency_render_mode); in the default mode that is render(x)['html']")
    cs.harness, cs.pure = str_harness, True
    db.add(cs)
    c = Contract(name=DOC + "_gen_html_tag_tree", params=[("self", "Any"), ("lib_prefix", "OptStr"), ("include_version", "Bool")], returns="Node", props=P,
                 note="self._content : NodeList and self._html_attr_args : dict are read-only; result == docTree(content, attrs, lib_prefix, include_version)")
    c.harness, c.pure = gen_tree_harness, True
    c.diff = DiffSpec(params=[("content", "NodeList"), ("attrs", "ArgDict"), ("lp", "OptStr"), ("iv", "Bool")], gen=_doc_gen,
                      steps=lambda v: [{"let": "doc", "call": "htmltools._core.HTMLDocument", "star": v["content"], "starkw": v["attrs"]},
                                       {"let": "r", "method": ["doc", "_gen_html_tag_tree"], "args": [v["lp"], v["iv"]]}],
                      expected="docTree(content, attrs, lp, iv)", raises=[("TypeError", "docRaises(content, attrs)")], ret_sort="Node")
    c.call_model = gen_tree_call_model
    c.lemmas = [("L_nodes_ofNodes_any", {}), ("L_underscore_noop", {})]
    db.add(c)
    db.method_table[("HTMLDocument", "_gen_html_tag_tree")] = DOC + "_gen_html_tag_tree"
    c2 = Contract(name=DOC + "render", params=[("self", "Any"), ("lib_prefix", "OptStr"), ("include_version", "Bool")], returns="Rendered", props=P,
                  note="result == Rendered(resolved dependencies of the final tree, '<!DOCTYPE html>\\n' + its markup)")
    c2.harness, c2.pure = render_harness, True
    c2.diff = DiffSpec(params=[("content", "NodeList"), ("attrs", "ArgDict"), ("lp", "OptStr"), ("iv", "Bool")], gen=_doc_gen,
                       steps=lambda v: [{"let": "doc", "call": "htmltools._core.HTMLDocument", "star": v["content"], "starkw": v["attrs"]},
                                        {"let": "r", "method": ["doc", "render"], "kwargs": {"lib_prefix": v["lp"], "include_version": v["iv"]}},
                                        {"let": "h", "op": "getitem", "args": [{"$": "var", "name": "r"}, "html"]}],
                       expected="docRender(content, attrs, lp, iv).html", raises=[("TypeError", "docRaises(content, attrs)"), ("RuntimeError", "hasObT(tagifyT(docTree(content, attrs, lp, iv)))")],
                       ret_sort="Str")
    c2.lemmas = [("L_tagify_fixed_doc", {})]
    db.add(c2)


def _doc_gen(g):
    """targeted inputs for the document functions: the three shapes of content, with dependencies directly in the tree and
    inside the expansions of tagifiable objects, a <head> in any child position"""
    from ..replay import mk_list
    from ..speclang import REG
    C = {n: c.pyclass for n, c in REG.ctors.items()}
    r = g.r
    saved = dict(g.atoms)
    g.atoms = dict(g.atoms, allow_ob=True)
    try:
        def kids(n):
            return [g.gen("Node", 1) for _ in range(n)]
        shape = r.choice(["html", "html", "html+head", "body", "list", "list", "one"])
        if shape == "html":
            content = [C["El"]("html", True, g.gen("AttrList"), mk_list("NodeList", kids(r.choice([0, 1, 2, 3]))))]
        elif shape == "html+head":
            ks = kids(r.choice([0, 1, 2]))
            head = C["El"]("head", True, mk_list("AttrList", []), mk_list("NodeList", kids(r.choice([0, 1, 2]))))
            ks.insert(r.randint(0, len(ks)), head)
            if r.random() < 0.2:
                ks.append(C["El"]("head", True, mk_list("AttrList", []), mk_list("NodeList", [])))
            content = [C["El"]("html", r.random() < 0.8, g.gen("AttrList"), mk_list("NodeList", ks))]
        elif shape == "body":
            content = [C["El"]("body", r.random() < 0.8, g.gen("AttrList"), mk_list("NodeList", kids(r.choice([0, 1, 2, 3]))))]
        elif shape == "one":
            content = [g.gen("Node", 2)]
        else:
            content = kids(r.choice([0, 1, 2, 3]))
        return {"content": mk_list("NodeList", content), "attrs": g.gen("ArgDict", 1), "lp": g.gen("OptStr"), "iv": r.random() < 0.5}
    finally:
        g.atoms = saved


def _hoist_gen(g):
    "an <html> tag in the shapes _doc_gen produces (a <head> with attributes and children in any position, dependencies anywhere), already tagified"
    from ..replay import mk_list
    from ..speclang import REG
    C = {n: c.pyclass for n, c in REG.ctors.items()}
    r = g.r
    saved = dict(g.atoms)
    g.atoms = dict(g.atoms, allow_ob=False)
    try:
        ks = [g.gen("Node", 1) for _ in range(r.choice([0, 1, 2, 3]))]
        if r.random() < 0.7:
            head = C["El"]("head", r.random() < 0.8, g.gen("AttrList"), mk_list("NodeList", [g.gen("Node", 1) for _ in range(r.choice([0, 1, 2]))]))
            ks.insert(r.randint(0, len(ks)), head)
        name = "html" if r.random() < 0.9 else "div"
        return {"x": C["El"](name, True, g.gen("AttrList"), mk_list("NodeList", ks)), "lp": g.gen("OptStr"), "iv": r.random() < 0.5}
    finally:
        g.atoms = saved


def _doc_self(I):
    from ..symexec import PyRec, SAdt
    content = SAdt("NodeList", I.fresh("NodeList", "content"), fresh=False, pyclass="TagList")
    attrs = SAdt("ArgDict", I.fresh("ArgDict", "html_attr_args"), fresh=False)
    return PyRec("HTMLDocument", {"_content": content, "_html_attr_args": attrs}, fresh=False), content, attrs


def _run(I, c, env):
    from ..extract import strip_docstring
    from ..symexec import SNone
    fn = I.src.find(c.name)
    saved = (I.module, I.fn_qual)
    I.module, I.fn_qual = I.src.split(c.name)[0], c.name

    def run():
        I.st.env = dict(env)
        I.loop_ordinal = I.comp_ordinal = 0
        I.exec_block(strip_docstring(fn.body))
        return SNone()
    try:
        return I.explore(run)
    finally:
        I.module, I.fn_qual = saved


def gen_tree_harness(I, c):
    from ..symexec import SAdt, SBool, Obligation, Unsupported
    selfv, content, attrs = _doc_self(I)
    lp = SAdt("OptStr", I.fresh("OptStr", "lib_prefix"))
    iv = SBool(I.fresh("Bool", "include_version"))
    paths = _run(I, c, {"self": selfv, "lib_prefix": lp, "include_version": iv})
    obs = list(I.obligations)
    I.obligations = []
    want = I.F("docTree", content.t, attrs.t, lp.t, iv.t)
    raises = I.F("docRaises", content.t, attrs.t)
    short = c.name.replace("htmltools.", "")
    I.fn_qual, I.module = c.name, I.src.split(c.name)[0]
    for pi, p in enumerate(paths):
        with I.at_path(p):
            tag = f"R:{short}:path{pi}"
            where = f"{c.name} decisions={''.join(map(str, p.decisions))}"
            if p.outcome == "raise":
                obs.append(Obligation(f"{tag}.raises-{p.value.name}", p.pc, z3.And(raises, z3.BoolVal(p.value.name == "TypeError")), where, "R",
                                      "raises only TypeError for an invalid html attribute value"))
                continue
            obs.append(Obligation(f"{tag}.no-TypeError", p.pc, z3.Not(raises), where, "R", ""))
            try:
                got = I.to_val(I.coerce_param(p.value, "Node"))
                obs.append(Obligation(f"{tag}.ensures0", p.pc, got.v == want, where, "R", "result == docTree(content, html attributes, lib_prefix, include_version)"))
            except Unsupported as ex:
                obs.append(Obligation(f"{tag}.ensures0", p.pc, z3.BoolVal(False), where, "R", str(ex)))
    obs.extend(I.obligations)
    return obs


def gen_tree_call_model(I, pos, kw, node):
    from ..symexec import PyRec, SAdt, SBool, SExc, _Raise
    selfv = pos[0]
    lp = I.coerce_param(pos[1] if len(pos) > 1 else kw["lib_prefix"], "OptStr")
    iv = pos[2] if len(pos) > 2 else kw["include_version"]
    content, attrs = selfv.fields["_content"], selfv.fields["_html_attr_args"]
    if I.branch(I.F("docRaises", content.t, attrs.t)):
        raise _Raise(SExc("TypeError", []), getattr(node, "lineno", None))
    return SAdt("Node", I.F("docTree", content.t, attrs.t, lp.t, iv.t), fresh=True)


def render_harness(I, c):
    from ..symexec import SAdt, SBool, Obligation, Unsupported
    selfv, content, attrs = _doc_self(I)
    lp = SAdt("OptStr", I.fresh("OptStr", "lib_prefix"))
    iv = SBool(I.fresh("Bool", "include_version"))
    paths = _run(I, c, {"self": selfv, "lib_prefix": lp, "include_version": iv})
    obs = list(I.obligations)
    I.obligations = []
    tree = I.F("docTree", content.t, attrs.t, lp.t, iv.t)
    want = I.F("docRender", content.t, attrs.t, lp.t, iv.t)
    short = c.name.replace("htmltools.", "")
    I.fn_qual, I.module = c.name, I.src.split(c.name)[0]
    for pi, p in enumerate(paths):
        with I.at_path(p):
            tag = f"R:{short}:path{pi}"
            where = f"{c.name} decisions={''.join(map(str, p.decisions))}"
            if p.outcome == "raise":
                ok = z3.Or(z3.And(I.F("docRaises", content.t, attrs.t), z3.BoolVal(p.value.name == "TypeError")),
                           z3.And(I.F("hasObT", I.F("tagifyT", tree)), z3.BoolVal(p.value.name == "RuntimeError")))
                obs.append(Obligation(f"{tag}.raises-{p.value.name}", p.pc, ok, where, "R", "raises only for an invalid html attribute or an un-expandable object"))
                continue
            try:
                got = I.to_val(I.coerce_param(p.value, "Rendered"))
                obs.append(Obligation(f"{tag}.ensures0", p.pc, got.v == want, where, "R",
                                      "result == Rendered(resolved dependencies of the tree, '<!DOCTYPE html>\\n' + markup of the tree)"))
            except Unsupported as ex:
                obs.append(Obligation(f"{tag}.ensures0", p.pc, z3.BoolVal(False), where, "R", str(ex)))
    obs.extend(I.obligations)
    return obs


def str_harness(I, c):
    """_render_tag_or_taglist for x a Tag and for x a TagList, the render mode being a ghost input"""
    from ..symexec import SAdt, SStr, Obligation, Unsupported
    obs = []
    for kind, sort in (("tag", "Node"), ("list", "NodeList")):
        x = SAdt(sort, I.fresh(sort, "x"), fresh=False, pyclass=None if sort == "Node" else "TagList")
        mode = SStr(I.fresh("Str", "render_mode"))
        pre = [I.F("isEl", x.t)] if sort == "Node" else []
        saved_pc = None
        env = {"x": x, "$render_mode": mode}
        from ..extract import strip_docstring
        from ..symexec import SNone
        fn = I.src.find(c.name)
        saved = (I.module, I.fn_qual)
        I.module, I.fn_qual = I.src.split(c.name)[0], c.name

        def run():
            I.st.env = dict(env)
            I.st.pc.extend(pre)
            I.loop_ordinal = I.comp_ordinal = 0
            I.exec_block(strip_docstring(fn.body))
            return SNone()
        try:
            paths = I.explore(run)
        finally:
            I.module, I.fn_qual = saved
        obs.extend(I.obligations)
        I.obligations = []
        rend = I.F("renderT", x.t) if sort == "Node" else I.F("renderL", x.t)
        raises = I.F("hasObT", I.F("tagifyT", x.t)) if sort == "Node" else I.F("hasObL", I.F("tagifyL", x.t))
        want = I.F("strOut", rend, mode.t)
        R = I.ctor("Rendered")
        I.fn_qual, I.module = c.name, I.src.split(c.name)[0]
        for pi, p in enumerate(paths):
            with I.at_path(p):
                tag = f"R:_core._render_tag_or_taglist[{kind}]:path{pi}"
                where = f"{c.name} ({kind}) decisions={''.join(map(str, p.decisions))}"
                if p.outcome == "raise":
                    obs.append(Obligation(f"{tag}.raises-{p.value.name}", p.pc, z3.And(raises, z3.BoolVal(p.value.name == "RuntimeError")), where, "R", "raises only for an un-expandable object"))
                    continue
                try:
                    got = I.to_val(I.coerce_param(p.value, "Str"))
                    obs.append(Obligation(f"{tag}.ensures0", p.pc, got.v == want, where, "R", "result == strOut(render(x), render mode)"))
                    obs.append(Obligation(f"{tag}.default-mode", p.pc + [mode.t == z3.StringVal("invisible")], got.v == I.w.acc(R, "html", rend), where, "R",
                                          "in the default dependency render mode str(x) == x.render()['html']"))
                except Unsupported as ex:
                    obs.append(Obligation(f"{tag}.ensures0", p.pc, z3.BoolVal(False), where, "R", str(ex)))
    obs.extend(I.obligations)
    I.obligations = []
    # Tag / TagList __str__, __repr__, _repr_html_ all reduce to this function (checked structurally)
    import ast
    for cls in ("Tag", "TagList"):
        for m, body in (("__str__", "return _render_tag_or_taglist(self)"), ("__repr__", "return str(self)"), ("_repr_html_", "return str(self)")):
            q = f"htmltools._core.{cls}.{m}"
            try:
                fn = I.src.find(q)
                from ..extract import strip_docstring
                ok = len(strip_docstring(fn.body)) == 1 and ast.unparse(strip_docstring(fn.body)[0]) == body
            except Exception:
                ok = False
            obs.append(Obligation(f"R:_core.{cls}.{m}:delegates", [], z3.BoolVal(bool(ok)), q, "R", f"{cls}.{m} is `{body}`"))
    return obs
