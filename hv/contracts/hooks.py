"""Contracts of the Tag context manager and the display-hook wrapper (C17), stated over a ghost World
(sys.displayhook + every tag's saved hook and children)."""
import z3
from ..contracts_api import Contract

CORE = "htmltools._core."


def register(db):
    c1 = Contract(name=CORE + "Tag.__enter__", params=[("self", "Any")], props=["C17"],
                  note="ghost world w: raises RuntimeError when isActive(w, t) with w unchanged; otherwise w' = enterW(w, t)")
    c1.harness = lambda I, c: method_harness(I, c, "enter")
    db.add(c1)
    c2 = Contract(name=CORE + "Tag.__exit__", params=[("self", "Any")], props=["C17"],
                  note="ghost world w: w' = exitW(w, t).w — the saved hook is restored BEFORE the tag is handed to it")
    c2.harness = lambda I, c: method_harness(I, c, "exit")
    db.add(c2)
    c3 = Contract(name=CORE + "wrap_displayhook_handler.handler_wrapper", params=[("value", "DVal")], props=["C17"],
                  note="with handler = tag t's append: the effect of calling the wrapper with `value` is deliver(world with hook HWrap t, value)")
    c3.harness = wrapper_harness
    db.add(c3)
    c4 = Contract(name=CORE + "wrap_displayhook_handler", params=[("handler", "Any")], props=["C17"],
                  note="returns its inner function handler_wrapper closed over `handler` (checked structurally)")
    c4.harness = outer_harness
    c4.call_model = wrap_call_model
    db.add(c4)


def _world(I):
    from ..symexec import SAdt
    return SAdt("World", I.fresh("World", "w"), fresh=True)


def method_harness(I, c, which):
    from ..symexec import PyRec, SInt, SAdt, SNone, SOpaque, Obligation
    from ..interp5 import WORLD
    from ..extract import strip_docstring
    tid = SInt(I.fresh("Int", "t"))
    w0 = _world(I)
    fn = I.src.find(c.name)
    saved = (I.module, I.fn_qual)
    I.module, I.fn_qual = I.src.split(c.name)[0], c.name
    # wrap_displayhook_handler(self.append) evaluates to the wrapper hook of this tag
    def call_hook6(fv, pos, kw, node):
        return None
    I.call_hook6 = call_hook6
    I.hook_wrap_model = True

    def run():
        I.st.env = {"self": PyRec("TagRef", {"tid": tid}, fresh=False), WORLD: w0,
                    "exc_type": SOpaque("exc"), "exc_value": SOpaque("exc"), "traceback": SOpaque("tb")}
        I.loop_ordinal = I.comp_ordinal = 0
        I.exec_block(strip_docstring(fn.body))
        return SNone()
    try:
        paths = I.explore(run)
    finally:
        I.module, I.fn_qual = saved
    obs = list(I.obligations)
    I.obligations = []
    short = c.name.replace("htmltools.", "")
    W = I.ctor("World")
    if which == "exit":
        # A4 relies on it: a truthy result of __exit__ would swallow the exception that is leaving the block.  The value of a hook
        # call is unknown (any callable may be installed), so the condition is on the return statements themselves.
        import ast as _ast
        rets = [r for r in _ast.walk(fn) if isinstance(r, _ast.Return) and r.value is not None and not (isinstance(r.value, _ast.Constant) and r.value.value is None)]
        obs.append(Obligation(f"R:{short}:returns-None", [], z3.BoolVal(not rets), c.name, "R",
                              "__exit__ returns None on every path (no `return <value>`" + (f"; found `{_ast.unparse(rets[0])}` at line {rets[0].lineno}" if rets else "")
                              + "), so an exception leaving the block is never swallowed"))
    for pi, p in enumerate(paths):
        tag = f"R:{short}:path{pi}"
        where = f"{c.name} decisions={''.join(map(str, p.decisions))}"
        wend = p.env[WORLD].t
        if which == "enter":
            active = I.F("isActive", w0.t, tid.t)
            if p.outcome == "raise":
                obs.append(Obligation(f"{tag}.raises-{p.value.name}", p.pc, z3.And(active, z3.BoolVal(p.value.name == "RuntimeError")), where, "R",
                                      "raises RuntimeError only when the tag's block is already active"))
                obs.append(Obligation(f"{tag}.unchanged-on-raise[world]", p.pc, wend == w0.t, where, "R", "hook chain and tag states intact when re-entering raises"))
            else:
                obs.append(Obligation(f"{tag}.no-RuntimeError", p.pc, z3.Not(active), where, "R", "returns normally only when the tag is not active"))
                obs.append(Obligation(f"{tag}.post[world]", p.pc, wend == I.F("enterW", w0.t, tid.t), where, "R", "world' == enterW(world, t): hook saved, wrapper installed"))
        else:
            res = I.F("exitW", w0.t, tid.t)
            R = I.ctor("Res")
            if p.outcome == "raise":
                obs.append(Obligation(f"{tag}.raises-{p.value.name}", p.pc, I.w.acc(R, "raised", res), where, "R", "raises only when delivering the tag raises"))
            else:
                obs.append(Obligation(f"{tag}.post[world]", p.pc, wend == I.w.acc(R, "w", res), where, "R",
                                      "world' == exitW(world, t).w: saved hook restored first, then the tag handed to it"))
    return obs


def wrapper_harness(I, c):
    from ..symexec import PyRec, SInt, SAdt, SNone, Obligation
    from ..interp5 import WORLD
    from ..extract import strip_docstring
    tid = SInt(I.fresh("Int", "t"))
    w0 = _world(I)
    val = SAdt("DVal", I.fresh("DVal", "value"))
    fn = I.src.find(c.name)
    saved = (I.module, I.fn_qual)
    I.module, I.fn_qual = I.src.split(c.name)[0], c.name

    def run():
        I.st.env = {"value": val, "handler": PyRec("Handler", {"tid": tid}, fresh=False), WORLD: w0}
        I.loop_ordinal = I.comp_ordinal = 0
        I.exec_block(strip_docstring(fn.body))
        return SNone()
    try:
        paths = I.explore(run)
    finally:
        I.module, I.fn_qual = saved
    obs = list(I.obligations)
    I.obligations = []
    W, R = I.ctor("World"), I.ctor("Res")
    wh = I.C("World", I.C("HWrap", tid.t), I.w.acc(W, "tags", w0.t), I.w.acc(W, "outer", w0.t))
    res = I.F("deliver", wh, val.t)
    exp_w = I.w.acc(R, "w", res)
    short = c.name.replace("htmltools.", "")
    for pi, p in enumerate(paths):
        tag = f"R:{short}:path{pi}"
        where = f"{c.name} decisions={''.join(map(str, p.decisions))}"
        wend = p.env[WORLD].t
        if p.outcome == "raise":
            obs.append(Obligation(f"{tag}.raises-{p.value.name}", p.pc, z3.And(I.w.acc(R, "raised", res), z3.BoolVal(p.value.name == "TypeError")), where, "R",
                                  "raises TypeError exactly when the value is forwarded and append rejects it"))
            obs.append(Obligation(f"{tag}.unchanged-on-raise[world]", p.pc, wend == w0.t, where, "R", "nothing is appended when the value is rejected"))
        else:
            obs.append(Obligation(f"{tag}.no-TypeError", p.pc, z3.Not(I.w.acc(R, "raised", res)), where, "R", ""))
            obs.append(Obligation(f"{tag}.post[tags]", p.pc, I.w.acc(W, "tags", wend) == I.w.acc(W, "tags", exp_w), where, "R",
                                  "children of the tag after the wrapper == deliver(...): None/Ellipsis ignored, _repr_html_ kept as HTML, others appended"))
            obs.append(Obligation(f"{tag}.post[outer]", p.pc, I.w.acc(W, "outer", wend) == I.w.acc(W, "outer", w0.t), where, "R", "nothing reaches the outer hook"))
    return obs


def outer_harness(I, c):
    """wrap_displayhook_handler(handler) returns the nested handler_wrapper itself (closure over `handler`)"""
    import ast
    from ..symexec import Obligation
    from ..extract import strip_docstring
    fn = I.src.find(c.name)
    body = strip_docstring(fn.body)
    ok = (len(body) == 2 and isinstance(body[0], ast.FunctionDef) and body[0].name == "handler_wrapper" and isinstance(body[1], ast.Return)
          and isinstance(body[1].value, ast.Name) and body[1].value.id == "handler_wrapper" and [a.arg for a in fn.args.args] == ["handler"]
          and not any(isinstance(n, (ast.Global, ast.Nonlocal)) for n in ast.walk(fn)))
    names_assigned = [n.id for n in ast.walk(body[0]) if isinstance(n, ast.Name) and isinstance(n.ctx, ast.Store)] if body and isinstance(body[0], ast.FunctionDef) else []
    ok = ok and "handler" not in names_assigned
    return [Obligation("R:_core.wrap_displayhook_handler:returns-inner", [], z3.BoolVal(bool(ok)), c.name, "R",
                       "body is `def handler_wrapper(value): ...; return handler_wrapper` and never rebinds `handler`")]


def wrap_call_model(I, pos, kw, node):
    """wrap_displayhook_handler(tag.append) is the wrapper hook of that tag (its behaviour is the contract of handler_wrapper)"""
    from ..symexec import SBuiltin, PyRec, SAdt, Unsupported
    if len(pos) == 1 and isinstance(pos[0], SBuiltin) and pos[0].name == "append" and isinstance(pos[0].bound, PyRec) and pos[0].bound.cls == "TagRef":
        return SAdt("Hook", I.C("HWrap", pos[0].bound.fields["tid"].t), fresh=True)
    raise Unsupported("wrap_displayhook_handler applied to something other than a tag's append")
