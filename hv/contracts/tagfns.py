"""C19: every generated tag function is `return Tag("<its own name>", *args, _add_ws=_add_ws, **kwargs)`
with the documented default.  The functions are loop-free and call-free apart from the single
constructor call, so the symbolic result of the body is the call term itself: the obligation
"result == Tag(name, *args, _add_ws=_add_ws, **kwargs) for all args/kwargs/_add_ws" is decided by
structural identity of that term (exhaustive over the function set, full-domain over arguments)."""
from __future__ import annotations
import ast
from ..vc import Verdict
from ..extract import strip_docstring

TOP_LEVEL = ["a", "br", "code", "div", "em", "h1", "h2", "h3", "h4", "h5", "h6", "hr", "img", "p", "pre", "span", "strong"]


def _v(name, ok, where, note, kind="R", refuted_model=None):
    v = Verdict(name, "discharged" if ok else "refuted", "ast-structural", 0.0, where=where, note=note, kind=kind)
    if not ok and refuted_model:
        v.model = refuted_model
    return v


def expected_call(fname):
    return ast.dump(ast.parse(f'Tag("{fname}", *args, _add_ws=_add_ws, **kwargs)', mode="eval").body)


def c19_obligations(ctx):
    src = ctx.src
    out = []
    inline = set(src.const("scripts.generate_tags", "_INLINE_TAG_NAMES"))
    out.append(_v("G:_INLINE_TAG_NAMES:nonempty", len(inline) > 0, "scripts/generate_tags.py", f"{len(inline)} inline names", "G"))
    for module in ("htmltools.tags", "htmltools.svg"):
        mod = src.module(module)
        short = module.split(".")[-1]
        fns = [n for n in mod.body if isinstance(n, ast.FunctionDef)]
        names = [f.name for f in fns]
        out.append(_v(f"G:{short}:function-count", len(fns) > 0, module, f"{len(fns)} functions", "G"))
        # nothing else at module level may rebind Tag or the functions
        rebinds = []
        for n in mod.body:
            if isinstance(n, (ast.Assign, ast.AugAssign, ast.AnnAssign)):
                tg = [t.id for t in ast.walk(n) if isinstance(t, ast.Name) and isinstance(t.ctx, ast.Store)]
                rebinds += [t for t in tg if t in names or t == "Tag"]
            elif isinstance(n, (ast.ClassDef,)) and (n.name in names or n.name == "Tag"):
                rebinds.append(n.name)
            elif not isinstance(n, (ast.FunctionDef, ast.ImportFrom, ast.Import, ast.Expr, ast.Assign)):
                rebinds.append(f"<{type(n).__name__}>")
        dup = sorted({x for x in names if names.count(x) > 1})
        imp_ok = any(isinstance(n, ast.ImportFrom) and n.module == "_core" and n.level == 1 and any(a.name == "Tag" and a.asname is None for a in n.names) for n in mod.body)
        out.append(_v(f"F:{short}:module-bindings", not rebinds and not dup and imp_ok, module,
                      f"Tag is htmltools._core.Tag and every function name is bound exactly once (rebinds={rebinds}, duplicates={dup}, import={imp_ok})", "F"))
        for f in fns:
            where = f"{module}.{f.name} (line {f.lineno})"
            a = f.args
            sig_ok = (not a.posonlyargs and not a.args and a.vararg is not None and a.vararg.arg == "args" and a.kwarg is not None and a.kwarg.arg == "kwargs"
                      and [k.arg for k in a.kwonlyargs] == ["_add_ws"] and len(a.kw_defaults) == 1 and isinstance(a.kw_defaults[0], ast.Constant)
                      and isinstance(a.kw_defaults[0].value, bool) and not f.decorator_list)
            out.append(_v(f"R:{short}.{f.name}:signature", sig_ok, where, "signature is (*args, _add_ws=<bool literal>, **kwargs), undecorated"))
            body = strip_docstring(f.body)
            body_ok = (len(body) == 1 and isinstance(body[0], ast.Return) and body[0].value is not None and ast.dump(body[0].value) == expected_call(f.name))
            got = ast.unparse(body[0]) if len(body) == 1 else f"{len(body)} statements"
            out.append(_v(f"R:{short}.{f.name}:passthrough", body_ok, where,
                          f'result == Tag("{f.name}", *args, _add_ws=_add_ws, **kwargs) for all arguments; body is `{got[:120]}`',
                          refuted_model={"function": f"{module}.{f.name}"}))
            if sig_ok:
                d = a.kw_defaults[0].value
                out.append(_v(f"G:{short}.{f.name}:default", d == (f.name not in inline), where,
                              f"default _add_ws={d}; project classifies `{f.name}` as {'inline' if f.name in inline else 'block'}", "G",
                              refuted_model={"function": f"{module}.{f.name}"}))
    # top-level shortcuts are the same function objects as htmltools.tags.<name>
    init = src.module("htmltools")
    imported = {}
    rebound = []
    for n in init.body:
        if isinstance(n, ast.ImportFrom) and n.level == 1:
            for al in n.names:
                imported[al.asname or al.name] = (n.module, al.name)
        elif isinstance(n, (ast.Assign, ast.AnnAssign, ast.FunctionDef, ast.ClassDef)):
            tg = [t.id for t in ast.walk(n) if isinstance(t, ast.Name) and isinstance(t.ctx, ast.Store)] + ([n.name] if hasattr(n, "name") else [])
            rebound += [t for t in tg if t in TOP_LEVEL]
    for nm in TOP_LEVEL:
        ok = imported.get(nm) == ("tags", nm) and nm not in rebound
        out.append(_v(f"G:htmltools.{nm}:reexport", ok, "htmltools/__init__.py", f"htmltools.{nm} is htmltools.tags.{nm} (import {imported.get(nm)}, rebound={nm in rebound})", "G"))
    return out
