"""Contracts of the class/style helpers of Tag and css() (C16), Tag.__init__ and consolidate_attrs (C15, C19)."""
import z3
from ..contracts_api import Contract, Fold, Filter

CORE = "htmltools._core."
UTIL = "htmltools._util."
T = CORE + "Tag."
P16 = ["C16", "C03"]


def register(db):
    db.add(Contract(name=T + "add_class", params=[("self", "Node"), ("class_", "Str"), ("prepend", "Bool")], returns="Node", self_class="Tag",
                    modifies=["self"], requires=["isEl(self)"],
                    post={"self": "withAttrs(self, addClassAttrs(attrsOf(self), class_, prepend))"},
                    ensures=["result == withAttrs(self, addClassAttrs(attrsOf(self), class_, prepend))"], props=P16,
                    note="`returns self`: the result is the receiver in its post-state"))
    db.add(Contract(name=T + "remove_class", params=[("self", "Node"), ("class_", "Str")], returns="Node", self_class="Tag",
                    modifies=["self"], requires=["isEl(self)"],
                    post={"self": "withAttrs(self, removeClassAttrs(attrsOf(self), class_))"},
                    ensures=["result == withAttrs(self, removeClassAttrs(attrsOf(self), class_))"], props=P16,
                    comps={0: Filter(fn="sremove", keep="x != t", args={"x": "class_"})}))
    db.add(Contract(name=T + "has_class", params=[("self", "Node"), ("class_", "Str")], returns="Bool", self_class="Tag",
                    requires=["isEl(self)"], ensures=["result == hasClassAttrs(attrsOf(self), class_)"], props=P16))
    db.add(Contract(name=T + "add_style", params=[("self", "Node"), ("style", "AttrVal"), ("prepend", "Bool")], returns="Node", self_class="Tag",
                    modifies=["self"], requires=["isEl(self)"], raises=[("ValueError", "not endsWith(strOf(style), ';')")],
                    post={"self": "withAttrs(self, addStyleAttrs(attrsOf(self), style, prepend))"},
                    ensures=["result == withAttrs(self, addStyleAttrs(attrsOf(self), style, prepend))"], unchanged_on_raise=["self"], props=P16))
    for m in ("add_class", "remove_class", "has_class", "add_style"):
        db.method_table[("Tag", m)] = T + m
    db.add(Contract(name=UTIL + "css", params=[("collapse_", "Str"), ("kwargs", "CssArgs")], returns="OptStr",
                    ensures=["result == cssSpec(collapse_, kwargs)"],
                    loops={0: Fold(fn="cssFold", over="kwargs.items()", elem=("k", "v"), state={"res": "acc"}, acc="res", args={"collapse": "collapse_"})},
                    props=["C16"], note="collapse_ is a str (the TypeError branch for other types is not in the statement); str.lower is modelled on ASCII only"))
    # ---- Tag(...) -------------------------------------------------------------------------------------------------
    c = Contract(name=T + "__init__", params=[("self", "Node"), ("_name", "Str"), ("args", "TagArgs"), ("_add_ws", "AttrArg"), ("kwargs", "ArgDict")],
                 self_class="Tag", modifies=["self"],
                 raises=[("TypeError", "not isVBool(_add_ws) or tagRaises(args, kwargs)")],
                 post={"self": "El(_name, boolOf(_add_ws), tagAttrs(args, kwargs), tagKids(args))"},
                 comps={0: Filter(fn="onlyDicts", keep="isTDict(x)"), 1: Filter(fn="onlyChildren", keep="not isTDict(x)")},
                 props=["C15", "C19", "C11"],
                 note="verified on a record view of the object under construction: the four fields name/add_ws/attrs/children are set as stated and prev_displayhook is None")
    c.harness = tag_init_harness
    db.add(c)
    db.method_table[("Tag", "__init__")] = T + "__init__"
    c2 = Contract(name=CORE + "consolidate_attrs", params=[("args", "TagArgs"), ("kwargs", "ArgDict")], returns="Any",
                  raises=[("TypeError", "tagRaises(args, kwargs)")],
                  comps={0: Filter(fn="onlyChildren", keep="not isTDict(x)")}, props=["C15"],
                  note="returns (dict(attributes of Tag(name, *args, **kwargs)), [the non-dict arguments unchanged, in order])")
    c2.harness = consolidate_harness
    db.add(c2)


def _sym_args(I, c):
    from ..speceval import Val
    args, env = {}, {}
    for p, s in c.params:
        if p == "self":
            continue
        const = I.fresh(s, p)
        args[p] = I.wrap(s, const)
        env[p] = Val(s, const)
    return args, env


def tag_init_harness(I, c):
    from ..symexec import PyRec, SAdt, SBool, SNone, Obligation, Unsupported
    from ..calls import spec_bool, spec_term
    args, env = _sym_args(I, c)
    selfrec = None

    def mk():
        return PyRec("Tag", {}, fresh=True)
    obs = []
    # run with a fresh record per path: run_function copies args by reference, so allocate inside via a factory
    holder = {}
    orig = I.run_function

    paths = []
    fn_args = dict(args)
    fn_args["self"] = mk()
    # PyRec is mutable and shared between re-executions: give each path its own record through a proxy env entry
    class _Fresh(dict):
        pass
    import copy as _copy

    def run_paths():
        from ..extract import strip_docstring
        fn = I.src.find(c.name)
        saved = (I.module, I.fn_qual)
        I.module, I.fn_qual = I.src.split(c.name)[0], c.name

        def run():
            I.st.env = dict(args)
            I.st.env["self"] = mk()
            I.loop_ordinal = I.comp_ordinal = 0
            I.exec_block(strip_docstring(fn.body))
            return I.st.env["self"]
        try:
            return I.explore(run)
        finally:
            I.module, I.fn_qual = saved
    paths = run_paths()
    obs.extend(I.obligations)
    I.obligations = []
    short = c.name.replace("htmltools.", "")
    rc = spec_bool(I, c.raises[0][1], env, c.name)
    I.fn_qual, I.module = c.name, I.src.split(c.name)[0]
    for pi, p in enumerate(paths):
        with I.at_path(p):
            tag = f"R:{short}:path{pi}"
            where = f"{c.name} decisions={''.join(map(str, p.decisions))}"
            if p.outcome == "raise":
                obs.append(Obligation(f"{tag}.raises-{p.value.name}", p.pc, z3.And(rc, z3.BoolVal(p.value.name == "TypeError")), where, "R",
                                      f"raises {p.value.name} at line {p.line}: licensed only by `{c.raises[0][1]}`"))
                continue
            obs.append(Obligation(f"{tag}.no-TypeError", p.pc, z3.Not(rc), where, "R", "returns normally, so the raises clause must be false"))
            rec = p.env["self"]
            want = {"name": ("_name", "Str"), "add_ws": ("_add_ws", "AttrArg"), "attrs": ("tagAttrs(args, kwargs)", "AttrList"), "children": ("tagKids(args)", "NodeList")}
            for f, (expr, srt) in want.items():
                if f not in rec.fields:
                    obs.append(Obligation(f"{tag}.field[{f}]", p.pc, z3.BoolVal(False), where, "R", f"field {f} is not set"))
                    continue
                try:
                    got = I.to_val(I.coerce_param(rec.fields[f], srt))
                    obs.append(Obligation(f"{tag}.field[{f}]", p.pc, got.v == spec_term(I, expr, env, c.name, want=srt).v, where, "R", f"self.{f} == {expr}"))
                except Unsupported as ex:
                    obs.append(Obligation(f"{tag}.field[{f}]", p.pc, z3.BoolVal(False), where, "R", f"self.{f}: {ex}"))
            obs.append(Obligation(f"{tag}.field[prev_displayhook]", p.pc, z3.BoolVal(isinstance(rec.fields.get("prev_displayhook"), SNone)), where, "R", "self.prev_displayhook is None"))
            extra = sorted(set(rec.fields) - set(want) - {"prev_displayhook"})
            obs.append(Obligation(f"{tag}.fields-exactly", p.pc, z3.BoolVal(not extra), where, "R", f"no other instance field is created (extra: {extra})"))
    obs.extend(I.obligations)
    return obs


def consolidate_harness(I, c):
    from ..symexec import PySeq, SAdt, Obligation, Unsupported
    from ..calls import spec_bool, spec_term
    args, env = _sym_args(I, c)
    paths = I.run_function(c.name, args, [])
    obs = list(I.obligations)
    I.obligations = []
    short = c.name.replace("htmltools.", "")
    rc = spec_bool(I, c.raises[0][1], env, c.name)
    I.fn_qual, I.module = c.name, I.src.split(c.name)[0]
    for pi, p in enumerate(paths):
        with I.at_path(p):
            tag = f"R:{short}:path{pi}"
            where = f"{c.name} decisions={''.join(map(str, p.decisions))}"
            if p.outcome == "raise":
                obs.append(Obligation(f"{tag}.raises-{p.value.name}", p.pc, z3.And(rc, z3.BoolVal(p.value.name == "TypeError")), where, "R", "raises only as Tag(...) does"))
                continue
            obs.append(Obligation(f"{tag}.no-TypeError", p.pc, z3.Not(rc), where, "R", "returns normally"))
            v = p.value
            if not (isinstance(v, PySeq) and v.kind == "tuple" and len(v.items) == 2):
                obs.append(Obligation(f"{tag}.shape", p.pc, z3.BoolVal(False), where, "R", "result is a pair"))
                continue
            try:
                a = I.to_val(I.coerce_param(v.items[0], "AttrList"))
                obs.append(Obligation(f"{tag}.attrs", p.pc, a.v == spec_term(I, "tagAttrs(args, kwargs)", env, c.name).v, where, "R",
                                      "first component == the attributes of Tag(name, *args, **kwargs)"))
                k = I.to_val(I.coerce_param(v.items[1], "TagArgs"))
                obs.append(Obligation(f"{tag}.children", p.pc, k.v == spec_term(I, "onlyChildren(args)", env, c.name).v, where, "R",
                                      "second component == the non-dict arguments, unchanged and in order"))
                plain = not (isinstance(v.items[0], SAdt) and v.items[0].pyclass == "TagAttrDict")
                obs.append(Obligation(f"{tag}.attrs-plain-dict", p.pc, z3.BoolVal(plain), where, "R", "the attributes are returned as a plain dict copy"))
            except Unsupported as ex:
                obs.append(Obligation(f"{tag}.result", p.pc, z3.BoolVal(False), where, "R", str(ex)))
    obs.extend(I.obligations)
    return obs
