"""Contracts of the renderer cluster (shared by C01, C02, C04, C05, C06, C07, C09)."""
from ..contracts_api import Contract, Fold, Filter

CORE = "htmltools._core."
UTIL = "htmltools._util."
RENDER_PROPS = ["C01", "C02", "C04", "C05", "C06", "C07"]


def register(db):
    db.const_preds["_VOID_TAG_NAMES"] = "isVoid"
    db.const_preds["_NO_ESCAPE_TAG_NAMES"] = "noEsc"

    db.add(Contract(
        name=UTIL + "html_escape",
        params=[("text", "Str"), ("attr", "Bool")],
        returns="Str",
        ensures=["result == (escA(text) if attr else escT(text))"],
        lemmas=[("L_html_escape_TEXT", {"s": "text"}), ("L_html_escape_ATTR", {"s": "text"})],
        props=RENDER_PROPS + ["C03"],
        note="escT/escA are bound in Consts.lean to `esc TEXT_TABLE` / `esc ATTR_TABLE` (per-character lookup); the link from the "
             "replace chain to esc is the Lean theorem escapeImpl_eq_esc, imported as lemma instances",
    ))
    db.add(Contract(
        name=CORE + "_normalize_text",
        params=[("txt", "Node")],
        returns="Str",
        requires=["isTextual(txt)"],
        ensures=["result == normText(txt)"],
        props=RENDER_PROPS,
    ))
    db.add(Contract(
        name=CORE + "Tag.get_html_string",
        params=[("self", "Node"), ("indent", "Nat"), ("eol", "Str")],
        returns="Str", self_class="Tag",
        requires=["isEl(self)"],
        raises=[("RuntimeError", "hasObT(self)")],
        ensures=["result == rtag(self, indent, eol)"],
        loops={0: Fold(fn="attrFold", over="self.attrs.items()", elem=("key", "val"),
                       state={"html_": "acc"}, acc="html_")},
        comps={0: Filter(fn="nonMeta", keep="not isMeta(x)")},
        props=RENDER_PROPS + ["C03", "C09"],
    ))
    db.method_table[("Tag", "get_html_string")] = CORE + "Tag.get_html_string"

    db.add(Contract(
        name=CORE + "TagList.get_html_string",
        params=[("self", "NodeList"), ("indent", "Nat"), ("eol", "Str"), ("add_ws", "Bool"), ("_escape_strings", "Bool")],
        returns="Str", self_class="TagList",
        raises=[("RuntimeError", "hasObL(self)")],
        ensures=["result == rlistTop(self, indent, eol, add_ws, _escape_strings)"],
        loops={0: Fold(fn="rlist", over="self", elem="child",
                       state={"html_": "acc.html", "first_child": "acc.first", "prev_was_add_ws": "acc.prev"},
                       acc="St(html_, first_child, prev_was_add_ws)",
                       args={"i": "indent", "eol": "eol", "e": "_escape_strings"},
                       callee_raises="isOb(c) or hasObT(c)", raises="RuntimeError", raises_fold="hasObL(xs)")},
        props=RENDER_PROPS + ["C09"],
    ))
    db.method_table[("TagList", "get_html_string")] = CORE + "TagList.get_html_string"
