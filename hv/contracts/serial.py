"""Contracts of dependency serialisation and HTMLTextDocument (C13): serialize_to_script_json,
_static_extract_serialized_html_deps, HTMLTextDocument.render."""
import z3
from ..contracts_api import Contract, Fold, MapComp

CORE = "htmltools._core."
TD = CORE + "HTMLTextDocument."
P = ["C13"]


def register(db):
    c = Contract(name=CORE + "HTMLDependency.serialize_to_script_json#record", params=[("self", "Any"), ("indent", "Any")], returns="Node", props=P + ["C08"],
                 note="record view of the dependency (name, version, source, script, stylesheet, meta, all_files, head): result == serialTag(fields, indent), i.e. a "
                      "<script type=application/json data-html-dependency> whose only child is neutral(json.dumps({eight keys}, indent)); RuntimeError iff the head "
                      "still contains an un-expandable object; nothing reachable from self is written")
    c.harness, c.pure = serialize_harness, True
    c.lemmas = [("L_nodes_taglist_first", {"l": "head", "r": "@CNil()"}), ("L_nappend_nil", {"a": "head"})]
    c.real_name = CORE + "HTMLDependency.serialize_to_script_json"
    db.add(c)
    c2 = Contract(name=TD + "_static_extract_serialized_html_deps", params=[("html", "Str")], returns="Any", props=P + ["C18"],
                  loops={0: Fold(fn="dedupFold", over="dep_strs", elem="dep_str", state={"deps": "depsOfTexts(acc)", "seen_deps": "acc"}, acc="seen_deps",
                                 state_sorts={"deps": "DepRecList"})},
                  lemmas=[("L_depsOfTexts_snoc", {})],
                  note="result == (extractHtml(html), depsOfTexts(extractTexts(html))): every serialised script removed, one dependency per distinct serialisation in order of first appearance")
    c2.harness, c2.pure = extract_harness, True
    db.add(c2)
    c3 = Contract(name=TD + "render", params=[("self", "Any"), ("lib_prefix", "OptStr"), ("include_version", "Bool")], returns="Any", props=P,
                  comps={0: MapComp(fn="depLabels", elem="depLabel(c)"),
                         1: MapComp(fn="depTagChildren", elem="CSeq(2, ofNodes(depTags(c, lib_prefix, include_version)))", args={"lp": "lib_prefix", "iv": "include_version"})},
                  lemmas=[("L_underscore_noop", {}), ("L_nodes_depTagChildren", {}), ("L_nodes_one", {}), ("L_nappend_assoc", {}), ("L_nappend_nil", {})],
                  note="html == the stored text with only the FIRST occurrence of the placeholder replaced by the rendering of headExtra(deps) - the listing and dependency "
                       "markup HTMLDocument appends to <head>; dependencies == the stored list (a deep copy)")
    c3.harness, c3.pure = textdoc_render_harness, True
    db.add(c3)
    register_c18(db)


def register_c18(db):
    UTIL = "htmltools._util."
    db.add(Contract(name=UTIL + "hash_deterministic", params=[("s", "Str")], returns="Str", ensures=["result == sha1hex(s)"], props=["C18"],
                    note="the digest is sha1 of the UTF-8 text: a function of the string only (not hash(), not id())"))
    c = Contract(name=CORE + "head_content", params=[("args", "ChildList")], returns="Any", props=["C18", "C11"],
                 note="head_content(*args) is an HTMLDependency named 'headcontent_' + sha1(rendering of the content), version 0.0, carrying the content as head")
    c.harness, c.pure = head_content_harness, True
    db.add(c)


def head_content_harness(I, c):
    from ..symexec import PyRec, SAdt, SStr, Obligation, Unsupported
    from ..calls import Star
    args = SAdt("ChildList", I.fresh("ChildList", "args"), fresh=False, pyclass="tuple")
    paths = _run(I, c, {"args": args})
    obs = list(I.obligations)
    I.obligations = []
    short = c.name.replace("htmltools.", "")
    content = I.F("nodes", args.t)
    I.fn_qual, I.module = c.name, I.src.split(c.name)[0]
    for pi, p in enumerate(paths):
        with I.at_path(p):
            tag = f"R:{short}:path{pi}"
            where = f"{c.name} decisions={''.join(map(str, p.decisions))}"
            if p.outcome == "raise":
                ok = z3.Or(z3.And(I.F("bad", args.t), z3.BoolVal(p.value.name == "TypeError")), z3.And(I.F("hasObL", content), z3.BoolVal(p.value.name == "RuntimeError")))
                obs.append(Obligation(f"{tag}.raises-{p.value.name}", p.pc, ok, where, "R", "raises only for an unsupported child (TypeError) or an un-expandable object (RuntimeError)"))
                continue
            r = p.value
            if not (isinstance(r, PyRec) and r.cls == "HTMLDependency"):
                obs.append(Obligation(f"{tag}.result", p.pc, z3.BoolVal(False), where, "R", "returns an HTMLDependency"))
                continue
            try:
                nm = I.coerce_param(r.fields["name"], "Str")
                obs.append(Obligation(f"{tag}.name", p.pc, nm.t == I.F("headName", content), where, "R", "name == 'headcontent_' + sha1(rendering of the content): a function of the rendered content only"))
                hd = I.to_val(I.coerce_param(r.fields["head"], "NodeList"))
                obs.append(Obligation(f"{tag}.head", p.pc, hd.v == content, where, "R", "the dependency carries the content as its head"))
                ver = r.fields.get("version")
                obs.append(Obligation(f"{tag}.version", p.pc, ver.t == z3.StringVal("0.0") if isinstance(ver, SStr) else z3.BoolVal(False), where, "R", "version is the constant 0.0"))
            except (Unsupported, KeyError) as ex:
                obs.append(Obligation(f"{tag}.ensures", p.pc, z3.BoolVal(False), where, "R", str(ex)))
    obs.extend(I.obligations)
    I.obligations = []
    return obs


def _run(I, c, env, qual=None):
    from ..extract import strip_docstring
    from ..symexec import SNone
    qual = qual or c.name
    fn = I.src.find(qual)
    saved = (I.module, I.fn_qual)
    I.module, I.fn_qual = I.src.split(qual)[0], qual

    def run():
        I.st.env = dict(env)
        I.loop_ordinal = I.comp_ordinal = 0
        I.exec_block(strip_docstring(fn.body))
        return SNone()
    try:
        return I.explore(run)
    finally:
        I.module, I.fn_qual = saved


def serialize_harness(I, c):
    from ..symexec import PyRec, SAdt, SStr, SBool, SInt, SNone, Obligation, Unsupported
    obs = []
    qual = c.real_name
    short = qual.replace("htmltools.", "")
    for hk in ("nohead", "head"):
        for ik in ("none", "int"):
            ver = SInt(I.fresh("Int", "version"))
            ver.is_version = True
            ids = {f: I.fresh("Int", f) for f in ("source", "script", "stylesheet", "meta")}
            head = SNone() if hk == "nohead" else SAdt("NodeList", I.fresh("NodeList", "head"), fresh=False, pyclass="TagList")
            fields = {"name": SStr(I.fresh("Str", "name")), "version": ver, "all_files": SBool(I.fresh("Bool", "all_files")), "head": head}
            for f, t in ids.items():
                fields[f] = SAdt("JVal", I.C("JOpq", t), fresh=False)
            selfv = PyRec("HTMLDependency", dict(fields), fresh=False)
            if hk == "head" and getattr(I, "lemma_fn", None) is not None:
                from ..speceval import Val
                I.axioms.extend(I.lemma_fn(I, {"head": Val("NodeList", head.t)}))      # imported lemmas at this head (no quantifier needed)
            indent = SNone() if ik == "none" else SInt(I.fresh("Int", "indent"))
            paths = _run(I, c, {"self": selfv, "indent": indent}, qual)
            obs.extend(I.obligations)
            I.obligations = []
            headt = I.C("NoNL") if hk == "nohead" else I.C("SomeNL", head.t)
            rec = I.C("DepRec", fields["name"].t, ver.t, ids["source"], ids["script"], ids["stylesheet"], ids["meta"], fields["all_files"].t, headt)
            it = z3.IntVal(-1) if ik == "none" else indent.t
            want = I.F("serialTag", rec, it)
            raises = z3.BoolVal(False) if hk == "nohead" else I.F("hasObL", head.t)
            I.fn_qual, I.module = qual, I.src.split(qual)[0]
            for pi, p in enumerate(paths):
                with I.at_path(p):
                    tag = f"R:{short}[{hk},indent={ik}]:path{pi}"
                    where = f"{qual} ({hk}, indent {ik}) decisions={''.join(map(str, p.decisions))}"
                    if p.outcome == "raise":
                        obs.append(Obligation(f"{tag}.raises-{p.value.name}", p.pc, z3.And(raises, z3.BoolVal(p.value.name == "RuntimeError")), where, "R",
                                              "raises only RuntimeError, for a head that still contains an un-expandable object"))
                        continue
                    obs.append(Obligation(f"{tag}.no-raise", p.pc, z3.Not(raises), where, "R", "returns only when the head can be rendered"))
                    try:
                        got = I.to_val(I.coerce_param(p.value, "Node"))
                        obs.append(Obligation(f"{tag}.ensures0", p.pc, got.v == want, where, "R",
                                              "result == serialTag(DepRec(self fields), indent): <script type=application/json data-html-dependency> with the neutralised json.dumps of the eight fields"))
                    except Unsupported as ex:
                        obs.append(Obligation(f"{tag}.ensures0", p.pc, z3.BoolVal(False), where, "R", str(ex)))
                    orig = p.env.get("self")
                    same = isinstance(orig, PyRec) and all(orig.fields.get(f) is fields[f] for f in fields)
                    obs.append(Obligation(f"F:{short}[{hk},indent={ik}]:path{pi}.original-untouched", p.pc, z3.BoolVal(bool(same)), where, "F", "no field of the dependency is reassigned"))
            obs.extend(I.obligations)
            I.obligations = []
    return obs


def extract_harness(I, c):
    from ..symexec import SStr, SAdt, PySeq, Obligation, Unsupported
    html = SStr(I.fresh("Str", "html"))
    paths = _run(I, c, {"html": html})
    obs = list(I.obligations)
    I.obligations = []
    short = c.name.replace("htmltools.", "")
    I.fn_qual, I.module = c.name, I.src.split(c.name)[0]
    for pi, p in enumerate(paths):
        with I.at_path(p):
            tag = f"R:{short}:path{pi}"
            where = f"{c.name} decisions={''.join(map(str, p.decisions))}"
            if p.outcome == "raise":
                obs.append(Obligation(f"{tag}.raises-{p.value.name}", p.pc, z3.BoolVal(False), where, "R", "no exception of its own (json.loads / the constructor are external)"))
                continue
            r = p.value
            if not (isinstance(r, PySeq) and r.kind == "tuple" and len(r.items) == 2):
                obs.append(Obligation(f"{tag}.result", p.pc, z3.BoolVal(False), where, "R", "returns a pair (html, deps)"))
                continue
            try:
                h = I.coerce_param(r.items[0], "Str")
                d = I.to_val(I.coerce_param(r.items[1], "DepRecList"))
                obs.append(Obligation(f"{tag}.ensures-html", p.pc, h.t == I.F("extractHtml", html.t), where, "R", "result[0] == extractHtml(html): every serialised script element removed, nothing else"))
                obs.append(Obligation(f"{tag}.ensures-deps", p.pc, d.v == I.F("depsOfTexts", I.F("extractTexts", html.t)), where, "R",
                                      "result[1] == one reconstructed dependency per distinct serialisation, in order of first appearance"))
            except Unsupported as ex:
                obs.append(Obligation(f"{tag}.ensures", p.pc, z3.BoolVal(False), where, "R", str(ex)))
    obs.extend(I.obligations)
    I.obligations = []
    return obs


def textdoc_render_harness(I, c):
    from ..symexec import PyRec, SStr, SBool, SAdt, PyDict, Obligation, Unsupported
    htmlv = SStr(I.fresh("Str", "html"))
    pat = SStr(I.fresh("Str", "deps_replace_pattern"))
    deps = SAdt("DepList", I.fresh("DepList", "deps"), fresh=False, pyclass="list")
    selfv = PyRec("HTMLTextDocument", {"_html": htmlv, "_deps": deps, "_deps_replace_pattern": pat}, fresh=False)
    lp = SAdt("OptStr", I.fresh("OptStr", "lib_prefix"))
    iv = SBool(I.fresh("Bool", "include_version"))
    paths = _run(I, c, {"self": selfv, "lib_prefix": lp, "include_version": iv})
    obs = list(I.obligations)
    I.obligations = []
    short = c.name.replace("htmltools.", "")
    want = I.F("textDocHtml", htmlv.t, pat.t, deps.t, lp.t, iv.t)
    raises = I.F("textDocRaises", deps.t, lp.t, iv.t)
    I.fn_qual, I.module = c.name, I.src.split(c.name)[0]
    for pi, p in enumerate(paths):
        with I.at_path(p):
            tag = f"R:{short}:path{pi}"
            where = f"{c.name} decisions={''.join(map(str, p.decisions))}"
            if p.outcome == "raise":
                obs.append(Obligation(f"{tag}.raises-{p.value.name}", p.pc, z3.And(raises, z3.BoolVal(p.value.name == "RuntimeError")), where, "R",
                                      "raises only RuntimeError, for dependency markup that still contains an un-expandable object"))
                continue
            obs.append(Obligation(f"{tag}.no-raise", p.pc, z3.Not(raises), where, "R", ""))
            r = p.value
            try:
                if not isinstance(r, PyDict):
                    raise Unsupported("result is not a dict literal")
                items = {z3.simplify(k.t).as_string(): v for k, v in r.items}
                if set(items) != {"dependencies", "html"}:
                    raise Unsupported(f"result keys {sorted(items)}")
                h = I.coerce_param(items["html"], "Str")
                d = I.to_val(I.coerce_param(items["dependencies"], "DepList"))
                obs.append(Obligation(f"{tag}.ensures-html", p.pc, h.t == want, where, "R",
                                      "html == replace-first(stored text, placeholder, rendering of tagify(headExtra(deps, lib_prefix, include_version)))"))
                obs.append(Obligation(f"{tag}.ensures-deps", p.pc, d.v == deps.t, where, "R", "dependencies == the stored list"))
                obs.append(Obligation(f"F:{short}:path{pi}.fresh[dependencies]", p.pc, z3.BoolVal(bool(getattr(items["dependencies"], "fresh", False))), where, "F",
                                      "the returned list is a copy, not the document's own list"))
            except Unsupported as ex:
                obs.append(Obligation(f"{tag}.ensures", p.pc, z3.BoolVal(False), where, "R", str(ex)))
    obs.extend(I.obligations)
    I.obligations = []
    return obs
