"""Contract of HTMLDependency.as_html_tags (C11, C12): [bounded: meta / stylesheet / script lists of length <= 2, contents symbolic]
the markup of one dependency is its meta tags, then its link tags, then its script tags, then its head content, each built from the
item dicts of as_dict() (so with the URLs of C12), in list order."""
import z3
from ..contracts_api import Contract

CORE = "htmltools._core."
DEPQ = CORE + "HTMLDependency."


def register(db):
    c = Contract(name=DEPQ + "as_html_tags#record", params=[("self", "Any"), ("lib_prefix", "Any"), ("include_version", "Bool")], returns="NodeList", props=["C11", "C12"],
                 note="[bounded: lists of length <= 2] result == TagList(<meta ...> for every meta item, <link ...> for every stylesheet, <script ...> for every script, head), "
                      "with the attributes of the item dicts returned by as_dict (URLs joined to the dependency's href)")
    c.harness, c.pure = as_html_tags_harness, True
    c.real_name = DEPQ + "as_html_tags"
    db.add(c)
    c2 = Contract(name=DEPQ + "as_html_tags#comps", params=[("self", "Any")], returns="Any", props=["C11", "C12"],
                  note="every comprehension of as_html_tags is the element-wise map of its iterable (DESIGN 3.4): with it the per-item obligations of the record harness "
                       "(one tag per item, attributes of that item) hold for meta / stylesheet / script lists of every length; decided on the AST alone")
    c2.harness, c2.pure = comps_harness, True
    db.add(c2)


def comps_harness(I, c):
    from ..symexec import Obligation
    from .paths import comprehension_map_findings
    qual = c.name.split("#")[0]
    short = qual.replace("htmltools.", "")
    obs = []
    for k, bad in sorted(comprehension_map_findings(I.src.find(qual)).items()):
        obs.append(Obligation(f"G:{short}:comp{k}.elementwise-map", [], z3.BoolVal(not bad), f"{qual} comprehension {k}", "G",
                              "one `for`, no `if`, element expression over the element alone: " + ("holds" if not bad else "; ".join(bad[:4]))))
    return obs


def as_html_tags_harness(I, c):
    from ..symexec import PyRec, PyDict, PySeq, SStr, SBool, SNone, SAdt, Obligation, Unsupported
    from ..calls import construct
    from .paths import _run, _dep_record, _expected_href
    import ast
    qual = c.real_name
    short = qual.replace("htmltools.", "")
    S = lambda s: SStr(z3.StringVal(s))
    obs = []

    def item(keys, sfx):
        return PyDict([(S(k), SStr(I.fresh("Str", k.replace("-", "_") + sfx))) for k in keys], False)

    for nm, nl, ns, hk in ((0, 0, 0, "nohead"), (1, 1, 1, "head"), (2, 0, 2, "nohead"), (0, 2, 1, "head"), (1, 1, 2, "nohead")):
        metas = [item(["name", "content"], f"_m{i}") for i in range(nm)]
        sheets = [item(["href", "rel"], f"_l{i}") for i in range(nl)]
        scripts = [item(["src"] + (["defer"] if i else []), f"_s{i}") for i in range(ns)]
        # the head content: a TagList of one symbolic node (bounded like the other lists)
        head = SAdt("NodeList", I.C("NCons", I.fresh("Node", "head0"), I.C("NNil")), fresh=False, pyclass="TagList") if hk == "head" else None
        selfv, fields = _dep_record(I, "dir", scripts, sheets, head)
        selfv.fields["meta"] = PySeq(list(metas), "list", False)
        lp = SStr(I.fresh("Str", "lib_prefix"))
        iv = SBool(I.fresh("Bool", "include_version"))
        href = _expected_href(I, fields, "dir", lp, iv)

        def url_items(items, key):
            out = []
            for d in items:
                out.append(PyDict([(k, SStr(I.F("fileUrl", href, v.t)) if z3.simplify(k.t).as_string() == key else v) for k, v in d.items], True))
            return out
        d_script, d_sheet = url_items(scripts, "src"), url_items(sheets, "href")

        def as_dict_model(pos, kw, node):
            # the callee by its contract (hv/contracts/paths.py: as_dict): URLs rewritten on copies, meta as stored
            return PyDict([(S("name"), fields["name"]), (S("version"), SStr(I.F("verStr", fields["version"].t))), (S("script"), PySeq(list(d_script), "list", True)),
                           (S("stylesheet"), PySeq(list(d_sheet), "list", True)), (S("meta"), selfv.fields["meta"]), (S("head"), SNone())], True)
        I.record_methods = {("HTMLDependency", "as_dict"): as_dict_model}
        try:
            paths = _run(I, qual, {"self": selfv, "lib_prefix": lp, "include_version": iv})
        finally:
            I.record_methods = {}
        obs.extend(I.obligations)
        I.obligations = []
        I.fn_qual, I.module = qual, I.src.split(qual)[0]
        # the expected list, built with the same constructors from the item dicts in the order meta, link, script, head
        node = ast.parse("0").body[0]
        node.lineno = 0
        tail = [head] if head is not None else [SNone()]

        def build():
            I.st.env = {}
            expected_items = []
            for name, ds in (("meta", metas), ("link", d_sheet), ("script", d_script)):
                for d in ds:
                    kw = {z3.simplify(k.t).as_string(): v for k, v in d.items}
                    expected_items.append(construct(I, "Tag", [S(name)], kw, node))
            return construct(I, "TagList", expected_items + tail, {}, node)
        wants = [q for q in I.explore(build) if q.outcome == "return"]
        I.obligations = []           # (obligations of building the expectation are not obligations of the code)
        if len(wants) != 1:
            obs.append(Obligation(f"R:{short}[meta={nm},stylesheet={nl},script={ns},{hk}]:expectation", [], z3.BoolVal(False), qual, "R", f"{len(wants)} ways to build the expected list"))
            continue
        want = wants[0].value
        want_pc = list(wants[0].pc)
        for pi, p in enumerate(paths):
            with I.at_path(p):
                tag = f"R:{short}[meta={nm},stylesheet={nl},script={ns},{hk}]:path{pi}"
                where = f"{qual} ({nm} meta, {nl} stylesheets, {ns} scripts, {hk})"
                if p.outcome == "raise":
                    obs.append(Obligation(f"{tag}.raises-{p.value.name}", p.pc, z3.BoolVal(False), where, "R", "no exception for well-formed items"))
                    continue
                try:
                    got = I.to_val(I.coerce_param(p.value, "NodeList"))
                    obs.append(Obligation(f"{tag}.ensures0", p.pc + want_pc, got.v == want.t, where, "R",
                                          "result == TagList(meta tags, link tags, script tags, head) in that order, attributes from the as_dict items"))
                    obs.append(Obligation(f"F:{short}[meta={nm},stylesheet={nl},script={ns},{hk}]:path{pi}.fresh", p.pc, z3.BoolVal(bool(getattr(p.value, "fresh", False))), where, "F", "a new TagList"))
                except Unsupported as ex:
                    obs.append(Obligation(f"{tag}.ensures0", p.pc, z3.BoolVal(False), where, "R", str(ex)))
        obs.extend(I.obligations)
        I.obligations = []
    return obs
