"""Contracts of dependency URLs and save_html (C12): source_path_map, as_dict, HTMLDocument.save_html, Tag/TagList.save_html."""
import z3
from ..contracts_api import Contract

CORE = "htmltools._core."
DEPQ = CORE + "HTMLDependency."
P = ["C12"]


def register(db):
    db.add(Contract(name="htmltools._util.package_dir", params=[("package", "Str")], returns="Str", ensures=["result == pkgDir(package)"], verify=False, props=P,
                    note="assumed: the directory of an installed package is a function of its name (importlib is external)"))
    c = Contract(name=DEPQ + "source_path_map", params=[("self", "Any"), ("lib_prefix", "Any"), ("include_version", "Bool")], returns="Any", props=P + ["C08"],
                 note="record view of the dependency, for each kind of source: none -> ('', ''); URL -> ('', href); directory / package -> (its real path, [prefix/]name[-version])")
    c.harness, c.pure = spm_harness, True
    db.add(c)
    c2 = Contract(name=DEPQ + "as_dict", params=[("self", "Any"), ("lib_prefix", "Any"), ("include_version", "Bool")], returns="Any", props=P + ["C08"],
                  note="[bounded: script and stylesheet lists of length <= 2, contents symbolic] every script src / stylesheet href becomes "
                       "posixpath.join(source href, quote(path)), other keys kept, rel=stylesheet; the dependency's own lists and dicts are not written (deep copy first)")
    c2.harness, c2.pure = as_dict_harness, True
    db.add(c2)
    c2b = Contract(name=DEPQ + "as_dict#loops", params=[("self", "Any")], returns="Any", props=P + ["C08"],
                   note="side conditions of the independent-iteration rule for every loop of as_dict (DESIGN 3.4): with them the element-wise obligations of the "
                        "as_dict harness hold for script / stylesheet lists of every length; decided on the AST alone, so also when the body leaves the verified subset")
    c2b.harness, c2b.pure = as_dict_loops_harness, True
    db.add(c2b)
    c3 = Contract(name=CORE + "HTMLDocument.save_html", params=[("self", "Any"), ("file", "Str"), ("libdir", "Any"), ("include_version", "Bool")], returns="Str", props=P,
                  note="effects, in order: every dependency of render(lib_prefix=libdir, include_version) is copied to saveDest(file, libdir) with the same include_version, "
                       "then the rendered html is written to `file`; returns `file`")
    c3.harness = save_html_harness
    db.add(c3)
    c4 = Contract(name=CORE + "Tag.save_html#delegates", params=[("self", "Any")], returns="Str", props=P,
                  note="Tag.save_html and TagList.save_html build HTMLDocument(self) and forward file, libdir and include_version to its save_html, returning its result")
    c4.harness = delegate_harness
    db.add(c4)


def _run(I, qual, env, effects=False):
    from ..extract import strip_docstring
    from ..symexec import SNone
    fn = I.src.find(qual)
    saved = (I.module, I.fn_qual)
    I.module, I.fn_qual = I.src.split(qual)[0], qual
    I.effects_enabled = effects

    def run():
        I.st.env = dict(env)
        I.loop_ordinal = I.comp_ordinal = 0
        I.exec_block(strip_docstring(fn.body))
        return SNone()
    try:
        return I.explore(run)
    finally:
        I.module, I.fn_qual = saved
        I.effects_enabled = False


def _dep_record(I, source_kind, scripts=(), sheets=(), head=None):
    from ..symexec import PyRec, PyDict, PySeq, SStr, SInt, SBool, SNone
    ver = SInt(I.fresh("Int", "version"))
    ver.is_version = True
    S = lambda s: SStr(z3.StringVal(s))
    src = {"none": SNone(),
           "url": PyDict([(S("href"), SStr(I.fresh("Str", "href")))], False),
           "dir": PyDict([(S("subdir"), SStr(I.fresh("Str", "subdir")))], False),
           "pkg": PyDict([(S("package"), SStr(I.fresh("Str", "package"))), (S("subdir"), SStr(I.fresh("Str", "subdir")))], False)}[source_kind]
    fields = {"name": SStr(I.fresh("Str", "name")), "version": ver, "source": src, "all_files": SBool(I.fresh("Bool", "all_files")),
              "script": PySeq(list(scripts), "list", False), "stylesheet": PySeq(list(sheets), "list", False),
              "meta": PySeq([], "list", False), "head": head if head is not None else SNone()}
    return PyRec("HTMLDependency", fields, fresh=False), fields


def _expected_href(I, fields, kind, lp, iv):
    if kind == "none":
        return z3.StringVal("")
    if kind == "url":
        return fields["source"].items[0][1].t
    from ..symexec import SNone
    lpt = I.C("NoStr") if isinstance(lp, SNone) else I.C("SomeStr", lp.t)
    return I.F("srcHref", fields["name"].t, fields["version"].t, lpt, iv.t)


def spm_harness(I, c):
    from ..symexec import PyDict, SStr, SBool, SNone, Obligation, Unsupported
    qual = c.name
    short = qual.replace("htmltools.", "")
    obs = []
    for kind in ("none", "url", "dir", "pkg"):
        for lpk in ("None", "str"):
            selfv, fields = _dep_record(I, kind)
            lp = SNone() if lpk == "None" else SStr(I.fresh("Str", "lib_prefix"))
            iv = SBool(I.fresh("Bool", "include_version"))
            paths = _run(I, qual, {"self": selfv, "lib_prefix": lp, "include_version": iv})
            obs.extend(I.obligations)
            I.obligations = []
            want_href = _expected_href(I, fields, kind, lp, iv)
            I.fn_qual, I.module = qual, I.src.split(qual)[0]
            for pi, p in enumerate(paths):
                with I.at_path(p):
                    tag = f"R:{short}[{kind},lib_prefix={lpk}]:path{pi}"
                    where = f"{qual} ({kind} source, lib_prefix {lpk})"
                    if p.outcome == "raise":
                        obs.append(Obligation(f"{tag}.raises-{p.value.name}", p.pc, z3.BoolVal(False), where, "R", "no exception"))
                        continue
                    r = p.value
                    try:
                        if not isinstance(r, PyDict):
                            raise Unsupported("result is not a dict literal")
                        items = {z3.simplify(k.t).as_string(): v for k, v in r.items}
                        if set(items) != {"source", "href"}:
                            raise Unsupported(f"result keys {sorted(items)}")
                        obs.append(Obligation(f"{tag}.href", p.pc, I.coerce_param(items["href"], "Str").t == want_href, where, "R",
                                              {"none": "href == ''", "url": "href == source['href']"}.get(kind, "href == [lib_prefix/]name[-version]")))
                        st = I.coerce_param(items["source"], "Str").t
                        if kind in ("none", "url"):
                            obs.append(Obligation(f"{tag}.source", p.pc, st == z3.StringVal(""), where, "R", "source == '' (nothing to copy)"))
                        elif kind == "dir":
                            obs.append(Obligation(f"{tag}.source", p.pc, st == I.F("realPath", fields["source"].items[0][1].t), where, "R", "source == realpath(subdir)"))
                        else:
                            obs.append(Obligation(f"{tag}.source", p.pc, st == I.F("osJoin", I.F("pkgDir", fields["source"].items[0][1].t), fields["source"].items[1][1].t), where, "R",
                                                  "source == join(package directory, subdir)"))
                    except Unsupported as ex:
                        obs.append(Obligation(f"{tag}.ensures", p.pc, z3.BoolVal(False), where, "R", str(ex)))
            obs.extend(I.obligations)
            I.obligations = []
    return obs


def spm_call_model(I, selfv, lp, iv):
    "source_path_map(...) of a record dependency, by its contract (used by as_dict)"
    from ..symexec import PyDict, SStr, SNone, PyRec
    src = selfv.fields["source"]
    S = lambda s: SStr(z3.StringVal(s))
    if isinstance(src, SNone):
        kind = "none"
    else:
        keys = [z3.simplify(k.t).as_string() for k, _ in src.items]
        kind = "url" if "href" in keys else ("pkg" if "package" in keys else "dir")
    href = _expected_href(I, selfv.fields, kind, lp, iv)
    return PyDict([(S("source"), SStr(I.fresh("Str", "source_dir"))), (S("href"), SStr(href))], True), kind



PURE_CALLS = {"urllib.parse.quote", "posixpath.join", "str"}


def independent_iteration_findings(fn, extra_calls=()):
    """Side conditions of the independent-iteration rule for every loop of `fn` (the real AST):
         for T in L: BODY   ==   L[i] := effect(BODY)(L[i]) for every i, in order, nothing else changed
    when (1) T is a plain name and L a plain local name that BODY never mentions, (2) BODY is a straight line of assignments and
    expression statements (no break / continue / return / raise / nested loop / branch), (3) every name BODY assigns is assigned before it is
    read in the same iteration (no value flows from one iteration to the next), (4) the only object BODY stores into or calls a method on is T,
    and every other call is to a function of PURE_CALLS.  Returns {loop ordinal: [what fails]}; an empty list means the rule applies, and the
    per-element obligations of the harness (one generic element, contents symbolic) then hold for every element of a list of any length."""
    import ast
    from ..loops import static_ordinals
    ords = static_ordinals(fn)[0]
    out = {}
    for node in ast.walk(fn):
        if isinstance(node, ast.While):
            out[ords[id(node)]] = ["while loop"]
        if not isinstance(node, ast.For):
            continue
        bad = []
        if not isinstance(node.target, ast.Name) or not isinstance(node.iter, ast.Name):
            out[ords[id(node)]] = ["target / iterable is not a plain name"]
            continue
        T, L = node.target.id, node.iter.id
        if node.orelse:
            bad.append("for-else")
        assigned = set()
        for st in node.body:
            if not isinstance(st, (ast.Assign, ast.AnnAssign, ast.Expr)):
                bad.append(f"line {st.lineno}: {type(st).__name__} statement in the body")
                continue
            for n in ast.walk(st):
                if isinstance(n, (ast.Yield, ast.YieldFrom, ast.Await, ast.NamedExpr, ast.Lambda, ast.ListComp, ast.GeneratorExp, ast.DictComp, ast.SetComp, ast.Starred)):
                    bad.append(f"line {st.lineno}: {type(n).__name__}")
                if isinstance(n, ast.Name) and n.id == L:
                    bad.append(f"line {st.lineno}: the body mentions the list `{L}`")
                if isinstance(n, ast.Name) and isinstance(n.ctx, ast.Load) and n.id != T and n.id in stored_in(node.body) and n.id not in assigned:
                    bad.append(f"line {st.lineno}: `{n.id}` is read before it is assigned in the iteration")
                if isinstance(n, (ast.Subscript, ast.Attribute)) and isinstance(n.ctx, (ast.Store, ast.Del)):
                    if not (isinstance(n.value, ast.Name) and n.value.id == T):
                        bad.append(f"line {st.lineno}: store into something other than `{T}`")
                if isinstance(n, ast.Call):
                    q = dotted(n.func)
                    if q in PURE_CALLS or q in extra_calls:
                        continue
                    if isinstance(n.func, ast.Attribute) and isinstance(n.func.value, ast.Name) and n.func.value.id == T:
                        continue
                    bad.append(f"line {st.lineno}: call of `{q or type(n.func).__name__}`")
            for n in ast.walk(st):
                if isinstance(n, ast.Name) and isinstance(n.ctx, ast.Store):
                    if n.id == T:
                        bad.append(f"line {st.lineno}: the loop variable is rebound")
                    assigned.add(n.id)
        out[ords[id(node)]] = bad
    return out


def comprehension_map_findings(fn):
    """Side conditions under which a list comprehension of the real function is the element-wise map of its iterable, in order and of the same
    length: exactly one `for` clause, no `if`, a plain-name target, and an element expression that mentions only the target, literals and
    module-level names (no local of the function, so nothing the comprehension or a later statement could have changed between elements, and no
    walrus / nested comprehension / lambda).  Returns {comprehension ordinal: [what fails]}."""
    import ast
    from ..loops import static_ordinals, assigned_names
    ords = static_ordinals(fn)[1]
    locals_ = set(assigned_names(fn.body)) | {a.arg for a in fn.args.args + fn.args.kwonlyargs}
    out = {}
    for node in ast.walk(fn):
        if isinstance(node, (ast.GeneratorExp, ast.DictComp, ast.SetComp)):
            out[ords[id(node)]] = [f"{type(node).__name__} (only list comprehensions are covered)"]
        if not isinstance(node, ast.ListComp):
            continue
        bad = []
        if len(node.generators) != 1:
            bad.append("more than one for clause")
        g = node.generators[0]
        if g.ifs:
            bad.append("filtered comprehension")
        if g.is_async or not isinstance(g.target, ast.Name):
            bad.append("target is not a plain name")
        else:
            T = g.target.id
            for n in ast.walk(node.elt):
                if isinstance(n, (ast.NamedExpr, ast.Lambda, ast.ListComp, ast.GeneratorExp, ast.DictComp, ast.SetComp, ast.Yield, ast.Await)):
                    bad.append(type(n).__name__ + " in the element expression")
                if isinstance(n, ast.Name) and n.id != T and n.id in locals_:
                    bad.append(f"the element expression mentions the local `{n.id}`")
        out[ords[id(node)]] = bad
    return out


def stored_in(stmts):
    import ast
    return {n.id for st in stmts for n in ast.walk(st) if isinstance(n, ast.Name) and isinstance(n.ctx, ast.Store)}


def dotted(e):
    import ast
    parts = []
    while isinstance(e, ast.Attribute):
        parts.append(e.attr)
        e = e.value
    if isinstance(e, ast.Name):
        parts.append(e.id)
        return ".".join(reversed(parts))
    return None


def as_dict_loops_harness(I, c):
    from ..symexec import Obligation
    qual = c.name.split("#")[0]
    short = qual.replace("htmltools.", "")
    obs = []
    found = independent_iteration_findings(I.src.find(qual))
    for k, bad in sorted(found.items()):
        obs.append(Obligation(f"G:{short}:loop{k}.independent-iterations", [], z3.BoolVal(not bad), f"{qual} loop {k}", "G",
                              "iterations are independent (straight-line body, stores only into the loop variable, no value carried between iterations, "
                              "the list itself untouched): " + ("holds" if not bad else "; ".join(bad[:4]))))
    return obs


def as_dict_harness(I, c):
    from ..symexec import PyDict, PySeq, SStr, SBool, SNone, SAdt, Obligation, Unsupported
    qual = c.name
    short = qual.replace("htmltools.", "")
    obs = []
    S = lambda s: SStr(z3.StringVal(s))

    def item(key, i, extra):
        d = [(S(key), SStr(I.fresh("Str", f"{key}{i}")))]
        if extra:
            d.append((S("data-x"), SStr(I.fresh("Str", f"extra{i}"))))
        if key == "href":
            d.append((S("rel"), S("stylesheet")))
        return PyDict(d, False)

    for kind in ("url", "dir", "none"):
        for ns, nc in ((0, 0), (1, 1), (2, 1), (1, 2)):
            if kind == "none" and (ns, nc) not in ((1, 1), (2, 1)):
                continue
            scripts = [item("src", i, i == 1) for i in range(ns)]
            sheets = [item("href", i, i == 0 and nc == 2) for i in range(nc)]
            head = SAdt("NodeList", I.fresh("NodeList", "head"), fresh=False, pyclass="TagList") if (ns + nc) % 2 else None
            selfv, fields = _dep_record(I, kind, scripts, sheets, head)
            lp = SStr(I.fresh("Str", "lib_prefix")) if ns != 1 else SNone()
            iv = SBool(I.fresh("Bool", "include_version"))
            href_term = _expected_href(I, fields, kind, lp, iv)
            # the callee by contract
            from ..symexec import SFunc
            I.record_methods = {("HTMLDependency", "source_path_map"): lambda pos, kw, node, selfv=selfv: spm_call_model(I, selfv, kw.get("lib_prefix", lp), kw.get("include_version", iv))[0]}
            try:
                paths = _run(I, qual, {"self": selfv, "lib_prefix": lp, "include_version": iv})
            finally:
                I.record_methods = {}
            obs.extend(I.obligations)
            I.obligations = []
            I.fn_qual, I.module = qual, I.src.split(qual)[0]
            for pi, p in enumerate(paths):
                with I.at_path(p):
                    tag = f"R:{short}[{kind},scripts={ns},stylesheets={nc}]:path{pi}"
                    where = f"{qual} ({kind} source, {ns} scripts, {nc} stylesheets)"
                    if p.outcome == "raise":
                        ok = z3.And(I.F("hasObL", head.t), z3.BoolVal(p.value.name == "RuntimeError")) if head is not None else z3.BoolVal(False)
                        obs.append(Obligation(f"{tag}.raises-{p.value.name}", p.pc, ok, where, "R", "raises only when the head cannot be rendered"))
                        continue
                    r = p.value
                    try:
                        if not isinstance(r, PyDict):
                            raise Unsupported("result is not a dict literal")
                        items = {z3.simplify(k.t).as_string(): v for k, v in r.items}
                        for key, lst, orig in (("script", "src", scripts), ("stylesheet", "href", sheets)):
                            out = items[key]
                            if not (isinstance(out, PySeq) and len(out.items) == len(orig)):
                                raise Unsupported(f"{key}: not a list of the same length")
                            for i, (o, d) in enumerate(zip(orig, out.items)):
                                od = {z3.simplify(k.t).as_string(): v for k, v in o.items}
                                dd = {z3.simplify(k.t).as_string(): v for k, v in d.items}
                                obs.append(Obligation(f"{tag}.{key}[{i}].url", p.pc, I.coerce_param(dd[lst], "Str").t == I.F("fileUrl", href_term, od[lst].t), where, "R",
                                                      f"{key}[{i}][{lst!r}] == posixpath.join(href, quote(path))"))
                                same = set(dd) == set(od) | ({"rel"} if key == "stylesheet" else set())
                                rest = [dd[k].t == od[k].t for k in od if k not in (lst, "rel")]
                                if key == "stylesheet":
                                    rest.append(dd["rel"].t == z3.StringVal("stylesheet"))
                                obs.append(Obligation(f"{tag}.{key}[{i}].rest", p.pc, z3.And(z3.BoolVal(same), *rest) if rest else z3.BoolVal(same), where, "R",
                                                      "the other keys of the item are kept" + (" and rel == 'stylesheet'" if key == "stylesheet" else "")))
                                obs.append(Obligation(f"F:{short}[{kind},scripts={ns},stylesheets={nc}]:path{pi}.{key}[{i}].fresh", p.pc, z3.BoolVal(bool(d.fresh) and d is not o), where, "F",
                                                      "the returned item is a new dict, not the dependency's own"))
                        obs.append(Obligation(f"{tag}.name", p.pc, I.coerce_param(items["name"], "Str").t == fields["name"].t, where, "R", "name"))
                        obs.append(Obligation(f"{tag}.version", p.pc, I.coerce_param(items["version"], "Str").t == I.F("verStr", fields["version"].t), where, "R", "version == str(version)"))
                    except (Unsupported, KeyError) as ex:
                        obs.append(Obligation(f"{tag}.ensures", p.pc, z3.BoolVal(False), where, "R", f"{type(ex).__name__}: {ex}"))
                    orig_ok = all(p.env["self"].fields[k] is fields[k] for k in fields) and all(len(o.items) == n0 for o, n0 in zip(scripts + sheets, [len(o.items) for o in scripts + sheets]))
                    obs.append(Obligation(f"F:{short}[{kind},scripts={ns},stylesheets={nc}]:path{pi}.original-untouched", p.pc, z3.BoolVal(bool(orig_ok)), where, "F", "no field of the dependency is reassigned"))
            obs.extend(I.obligations)
            I.obligations = []
    return obs


def render_call_model(I, selfv, lp, iv):
    "HTMLDocument.render(...) by its contract (docRender / docDeps); raising paths are C11's"
    from ..symexec import PyDict, SStr, SAdt, SNone
    content, attrs = selfv.fields["_content"], selfv.fields["_html_attr_args"]
    lpt = I.C("NoStr") if isinstance(lp, SNone) else (lp.t if isinstance(lp, SAdt) else I.C("SomeStr", lp.t))
    R = I.ctor("Rendered")
    rend = I.F("docRender", content.t, attrs.t, lpt, iv.t)
    S = lambda s: SStr(z3.StringVal(s))
    return PyDict([(S("dependencies"), SAdt("DepList", I.w.acc(R, "deps", rend), fresh=True, pyclass="list")), (S("html"), SStr(I.w.acc(R, "html", rend)))], True), rend


def save_html_harness(I, c):
    from ..symexec import PyRec, PySeq, SStr, SBool, SNone, SAdt, Obligation, Unsupported
    from .document import _doc_self
    from ..interp7 import EFF
    qual = c.name
    short = qual.replace("htmltools.", "")
    obs = []
    for lk in ("None", "str"):
        selfv, content, attrs = _doc_self(I)
        file = SStr(I.fresh("Str", "file"))
        libdir = SNone() if lk == "None" else SStr(I.fresh("Str", "libdir"))
        iv = SBool(I.fresh("Bool", "include_version"))
        calls = []

        def render_model(pos, kw, node):
            lp = kw.get("lib_prefix", pos[0] if pos else SNone())
            v = kw.get("include_version", pos[1] if len(pos) > 1 else SBool(z3.BoolVal(True)))
            calls.append((lp, v))
            return render_call_model(I, selfv, lp, v)[0]
        I.record_methods = {("HTMLDocument", "render"): render_model}
        try:
            paths = _run(I, qual, {"self": selfv, "file": file, "libdir": libdir, "include_version": iv}, effects=True)
        finally:
            I.record_methods = {}
        obs.extend(I.obligations)
        I.obligations = []
        lpt = I.C("NoStr") if lk == "None" else I.C("SomeStr", libdir.t)
        rend = I.F("docRender", content.t, attrs.t, lpt, iv.t)
        R = I.ctor("Rendered")
        dest = I.F("saveDest", file.t, lpt)
        I.fn_qual, I.module = qual, I.src.split(qual)[0]
        for pi, p in enumerate(paths):
            with I.at_path(p):
                tag = f"R:{short}[libdir={lk}]:path{pi}"
                where = f"{qual} (libdir {lk})"
                if p.outcome == "raise":
                    obs.append(Obligation(f"{tag}.raises-{p.value.name}", p.pc, z3.BoolVal(False), where, "R", "no exception of its own (render's are C11's)"))
                    continue
                try:
                    obs.append(Obligation(f"{tag}.returns-file", p.pc, I.coerce_param(p.value, "Str").t == file.t, where, "R", "returns the path it wrote"))
                    log = p.env.get(EFF)
                    ents = [e.items for e in (log.items if isinstance(log, PySeq) else [])]
                    kinds = [z3.simplify(e[0].t).as_string() for e in ents]
                    obs.append(Obligation(f"{tag}.effects-shape", p.pc, z3.BoolVal(kinds == ["foreach", "write", "close"]), where, "R",
                                          f"effects are: copy every dependency, then write the file once (observed {kinds})"))
                    if kinds == ["foreach", "write", "close"]:
                        fe = ents[0]
                        lst, elem, body = fe[1], fe[2], [b.items for b in fe[3].items]
                        obs.append(Obligation(f"{tag}.copies-rendered-deps", p.pc, lst.t == I.w.acc(R, "deps", rend), where, "R",
                                              "the dependencies copied are those returned by render(lib_prefix=libdir, include_version=include_version)"))
                        bk = [z3.simplify(b[0].t).as_string() for b in body]
                        obs.append(Obligation(f"{tag}.one-copy-per-dep", p.pc, z3.BoolVal(bk == ["copy_to"]), where, "R", f"each dependency is copied exactly once (observed {bk})"))
                        if bk == ["copy_to"]:
                            b = body[0]
                            obs.append(Obligation(f"{tag}.copy-receiver", p.pc, b[1].t == elem.t, where, "R", "copy_to is called on the dependency itself"))
                            obs.append(Obligation(f"{tag}.copy-dest", p.pc, I.coerce_param(b[2], "Str").t == dest, where, "R",
                                                  "destination == the file's directory [joined with libdir]: the directory the URLs (lib_prefix=libdir) are relative to"))
                            obs.append(Obligation(f"{tag}.copy-include-version", p.pc, b[3].t == iv.t, where, "R", "the same include_version as the URLs"))
                        w = ents[1]
                        obs.append(Obligation(f"{tag}.writes-file", p.pc, z3.And(w[1].t == file.t, w[2].t == z3.StringVal("w")), where, "R", "the file written is `file`, opened for writing"))
                        obs.append(Obligation(f"{tag}.writes-html", p.pc, I.coerce_param(w[3], "Str").t == I.w.acc(R, "html", rend), where, "R", "what is written is the rendered html"))
                    ok = len(calls) >= 1
                    obs.append(Obligation(f"{tag}.render-called", p.pc, z3.BoolVal(ok), where, "R", "render is called"))
                except (Unsupported, AttributeError, IndexError) as ex:
                    obs.append(Obligation(f"{tag}.ensures", p.pc, z3.BoolVal(False), where, "R", f"{type(ex).__name__}: {ex}"))
        obs.extend(I.obligations)
        I.obligations = []
    return obs


def delegate_harness(I, c):
    from ..symexec import PyRec, SStr, SBool, SNone, SAdt, Obligation, Unsupported
    obs = []
    for cls, sort in (("Tag", "Node"), ("TagList", "NodeList")):
        qual = CORE + cls + ".save_html"
        selfv = SAdt(sort, I.fresh(sort, "self"), fresh=False, pyclass=None if sort == "Node" else "TagList")
        file, libdir, iv = SStr(I.fresh("Str", "file")), SStr(I.fresh("Str", "libdir")), SBool(I.fresh("Bool", "include_version"))
        seen = []

        def model(pos, kw, node, recv=None):
            seen.append((recv, pos, kw))
            return SStr(I.fresh("Str", "saved_path"))
        I.record_methods = {("HTMLDocument", "save_html"): model}
        I.record_method_receivers = True
        pre = [I.F("isEl", selfv.t)] if sort == "Node" else []
        try:
            from ..extract import strip_docstring
            paths = _run(I, qual, {"self": selfv, "file": file, "libdir": libdir, "include_version": iv})
        finally:
            I.record_methods = {}
            I.record_method_receivers = False
        obs.extend(I.obligations)
        I.obligations = []
        short = qual.replace("htmltools.", "")
        I.fn_qual, I.module = qual, I.src.split(qual)[0]
        for pi, p in enumerate(paths):
            with I.at_path(p):
                tag = f"R:{short}:path{pi}"
                if p.outcome == "raise":
                    obs.append(Obligation(f"{tag}.raises-{p.value.name}", p.pc, z3.BoolVal(p.value.name == "TypeError"), qual, "R", "only HTMLDocument(...)'s own TypeError"))
                    continue
                ok = len(seen) >= 1
                obs.append(Obligation(f"{tag}.delegates", p.pc, z3.BoolVal(ok), qual, "R", "HTMLDocument(self).save_html is called"))
                if ok:
                    recv, pos, kw = seen[-1]
                    try:
                        f2 = pos[0] if pos else kw["file"]
                        l2 = kw.get("libdir", pos[1] if len(pos) > 1 else None)
                        v2 = kw.get("include_version", pos[2] if len(pos) > 2 else None)
                        obs.append(Obligation(f"{tag}.forwards", p.pc, z3.And(f2.t == file.t, z3.BoolVal(l2 is not None) if l2 is None else l2.t == libdir.t,
                                                                              z3.BoolVal(v2 is not None) if v2 is None else v2.t == iv.t), qual, "R", "file, libdir and include_version are forwarded unchanged"))
                        obs.append(Obligation(f"{tag}.returns", p.pc, z3.BoolVal(isinstance(p.value, SStr) and "saved_path" in str(p.value.t)), qual, "R", "returns what HTMLDocument.save_html returns (the path written)"))
                        content = recv.fields["_content"] if isinstance(recv, PyRec) else None
                        want = I.F("nodes", I.C("CCons", I.coerce_param(selfv, "Child").t, I.C("CNil")))
                        obs.append(Obligation(f"{tag}.document-of-self", p.pc, content.t == want if content is not None else z3.BoolVal(False), qual, "R", "the document's content is the receiver"))
                    except (Unsupported, KeyError, AttributeError) as ex:
                        obs.append(Obligation(f"{tag}.forwards", p.pc, z3.BoolVal(False), qual, "R", f"{type(ex).__name__}: {ex}"))
        obs.extend(I.obligations)
        I.obligations = []
    return obs
