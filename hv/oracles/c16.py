"""C16 oracle: add_class / remove_class / has_class as whitespace-token algebra, add_style, css().
Independent model: a Python list of tokens."""
import re
import ocommon


def run(R, job):
    ctx = ocommon.Ctx(R, job)
    core, util, r = R.core, R.util, ctx.rnd
    n = job.get("n", 300)
    fails, checked, distinct, samples = [], 0, set(), []
    toks = ["a", "b", "ab", "a-b", "b-a", "btn", "btn-primary", "x", "é", "&q"]
    for _ in range(n):
        init = r.choice([None, "", "a", "a b", " a  b ", "ab a", "a a b", "btn btn-primary", "a\tb", "btn\n   btn-primary\tx", "\tab  a\n"])
        t = core.Tag("div") if init is None else core.Tag("div", class_=init)
        model = (init or "").split()
        log = [f"class={init!r}"]
        for step in range(r.choice([1, 2, 4, 6])):
            op = r.choice(["add", "addp", "remove", "has", "style"])
            c = r.choice(toks)
            pad = r.choice(["", "", " "])
            distinct.add((op, c))
            checked += 1
            if op == "add":
                ret = t.add_class(c); model = model + [c]
            elif op == "addp":
                ret = t.add_class(c, prepend=True); model = [c] + model
            elif op == "remove":
                ret = t.remove_class(pad + c + pad); model = [x for x in model if x != c]
            elif op == "has":
                ret = t
                if t.has_class(c) != (c in model):
                    fails.append({"input": " ; ".join(log) + f" ; has_class({c!r})", "observed": t.has_class(c), "expected": c in model})
            else:
                ret = t
                st = r.choice(["color:red;", "a:b", "x:y;", "color: red; ", "a:b;\n", "x:y;\t ", ";", " ;", "a:b ;", "a:b; c", "", " ", "a;b", ";;", "a:b;\r\n", core.HTML("h:1;"), core.HTML("h:1; ")])
                before = t.attrs.get("style")
                try:
                    ret = t.add_style(st, prepend=r.random() < 0.5)
                    if not st.endswith(";"):
                        fails.append({"input": f"add_style({st!r})", "observed": "accepted", "expected": "ValueError"})
                except ValueError:
                    if st.endswith(";") or t.attrs.get("style") != before:
                        fails.append({"input": f"add_style({st!r})", "observed": "ValueError / tag modified", "expected": "accepted" if st.endswith(";") else "unchanged tag"})
            log.append(f"{op}({c!r})")
            if ret is not t:
                fails.append({"input": " ; ".join(log), "observed": "did not return the tag itself", "expected": "self"})
            got = (t.attrs.get("class") or "").split()
            if got != model or (not model and op == "remove" and "class" in t.attrs and (init or step)):
                if got != model:
                    fails.append({"input": " ; ".join(log), "observed": got, "expected": model})
            if op == "remove" and not model and "class" in t.attrs and t.attrs["class"].split() == [] and (t.attrs["class"] != ""):
                fails.append({"input": " ; ".join(log), "observed": f"class attribute left as {t.attrs['class']!r}", "expected": "attribute dropped"})
        if len(samples) < 3:
            samples.append({"ops": log})
        # css
        # keyword names, some of which collapse to the same property name (font_size / fontSize / font-size): one declaration per argument all the same
        kw = {r.choice(["font_size", "backgroundColor", "color", "margin_top", "zIndex", "a_bC", "WebkitTransition", "borderTLRadius", "margin_Top", "X", "aB2C",
                        "fontSize", "font-size", "marginTop", "margin-top", "z_index", "background_color", "_webkit_transition", "__main_color", "x_", "_", "a__b", "Moz_x_"]): r.choice(["12px", "red", None, 3, ["a", "b"], "", 0, False, [], ["x"]])
              for _ in range(r.choice([0, 1, 2, 3, 4]))}
        checked += 1
        out = util.css(**kw)
        exp = "".join(re.sub("_", "-", re.sub("([A-Z])", r"-\1", k)).lower() + ":" + (" ".join(v) if isinstance(v, list) else str(v)) + ";" for k, v in kw.items() if v is not None)
        if out != (exp or None):
            fails.append({"input": f"css(**{kw!r})", "observed": out, "expected": exp or None})
        elif out is not None:
            try:
                core.Tag("div").add_style(out)
            except ValueError:
                fails.append({"input": f"add_style(css(**{kw!r}))", "observed": "ValueError", "expected": "accepted"})
        if len(fails) >= 3:
            break
    return {"checked": checked, "nontrivial": len(distinct), "failures": fails[:3], "samples": samples}
