"""C03 oracle: attribute values, however supplied and merged, are emitted in double quotes with
& < > " ' CR LF replaced by references that decode to them; True -> empty value, None/False omitted."""
from html.parser import HTMLParser
import ocommon

META = ["&", "<", ">", '"', "'", "\r", "\n", "&quot;", " ", "a", "é", "x=y", "/>", "\t", "&#10;"]


class P(HTMLParser):
    def __init__(s):
        super().__init__(convert_charrefs=True)
        s.ev = []

    def handle_starttag(s, t, a): s.ev.append(("S", t, a))
    def handle_startendtag(s, t, a): s.ev.append(("V", t, a))
    def handle_endtag(s, t): s.ev.append(("E", t))
    def handle_data(s, d): s.ev.append(("T", d))


def esca(s):
    return ocommon.esca(s)


def run(R, job):
    ctx = ocommon.Ctx(R, job)
    core, r = R.core, ctx.rnd
    HTML = core.HTML
    n = job.get("n", 300)
    fails, checked, distinct, samples = [], 0, set(), []

    def rs():
        return "".join(r.choice(META + ctx.texts) for _ in range(r.choice([1, 1, 2, 3])))

    def check(how, t, want, name="div"):
        nonlocal checked
        checked += 1
        out = t.get_html_string()
        first = out.split(">", 1)[0] if False else out
        exp = "<" + name + "".join(f' {k}="{v}"' for k, v in want) + ("/>" if name in ocommon.VOID else "></" + name + ">")
        if out != exp:
            fails.append({"input": f"{how}: {ctx.describe(t)}", "observed": out, "expected": exp})
            return
        if "\n" in out or "\r" in out:
            fails.append({"input": f"{how}: {ctx.describe(t)}", "observed": out, "expected": "single line"})
        if len(samples) < 3:
            samples.append({"how": how, "out": out[:150]})

    for _ in range(n):
        a, b = rs(), rs()
        h = r.choice(["<b>", "x&y", "&amp;", "z"])
        distinct.add((a, b, h))
        check("keyword", core.Tag("div", title=a), [("title", esca(a))])
        # the same for every kind of element: raw-text elements, void elements, inline elements, custom names
        nm = r.choice(["script", "style", "span", "input", "img", "textarea", "title", "pre", "x-custom", "a", "meta", "link", "option"])
        check(f"keyword + HTML on <{nm}>", core.Tag(nm, title=a, class_=HTML(h), _add_ws=r.random() < 0.5), [("title", esca(a)), ("class", h)], name=nm)
        check("dict", core.Tag("div", {"title": a}), [("title", esca(a))])
        check("two values", core.Tag("div", {"class": a}, class_=b), [("class", esca(a) + " " + esca(b))])
        check("plain+HTML", core.Tag("div", {"class": a}, class_=HTML(h)), [("class", esca(a) + " " + h)])
        check("HTML+plain", core.Tag("div", {"class": HTML(h)}, class_=a), [("class", h + " " + esca(a))])
        check("HTML+HTML", core.Tag("div", {"class": HTML(h)}, class_=HTML(h)), [("class", h + " " + h)])
        check("three", core.Tag("div", {"class": a}, {"class": HTML(h)}, class_=b), [("class", esca(a) + " " + h + " " + esca(b))])
        at, _ = core.consolidate_attrs({"class": a}, class_=HTML(h)); check("consolidate_attrs then Tag", core.Tag("div", at), [("class", esca(a) + " " + h)])
        at, _ = core.consolidate_attrs(title=a); check("consolidate_attrs (plain) then Tag", core.Tag("div", **at), [("title", esca(a))])
        check("add_class plain onto HTML", core.Tag("div", class_=HTML(h)).add_class(a), [("class", h + " " + esca(a))])
        check("add_class HTML onto plain (prepend)", core.Tag("div", class_=a).add_class(HTML(h), prepend=True), [("class", h + " " + esca(a))])
        class MyStr(str):
            pass
        check("str subclass value", core.Tag("div", title=MyStr(a)), [("title", esca(a))])
        t = core.Tag("div"); t.attrs["title"] = MyStr(a); check("str subclass via setitem", t, [("title", esca(a))])
        t = core.Tag("div"); t.attrs.update(title=a); check("attrs.update", t, [("title", esca(a))])
        t = core.Tag("div"); t.attrs["title"] = a; check("setitem", t, [("title", esca(a))])
        tok = a.replace(" ", "") or "k"
        t = core.Tag("div", class_=b); t.add_class(tok); check("add_class", t, [("class", esca(b) + " " + esca(tok))])
        t = core.Tag("div", class_=HTML(h)); t.add_class(tok); check("add_class on HTML", t, [("class", h + " " + esca(tok))])
        t = core.Tag("div", style=b + ";"); t.add_style(a + ";"); check("add_style", t, [("style", esca(b + ";") + " " + esca(a + ";"))])
        check("bool/None/num", core.Tag("div", a=True, b=None, c=False, d=3, e=2.5), [("a", ""), ("d", "3"), ("e", "2.5")])
        # parse back
        t = core.Tag("div", {"x": a, "y": b})
        p = P(); p.feed(t.get_html_string())
        got = dict(p.ev[0][2]) if p.ev and p.ev[0][0] == "S" else None
        checked += 1
        if got != {"x": a, "y": b}:
            fails.append({"input": ctx.describe(t), "observed": str(p.ev)[:300], "expected": f"attributes x={a!r} y={b!r} after parsing"})
        if len(fails) >= 3:
            break
    return {"checked": checked, "nontrivial": len(distinct), "failures": fails[:3], "samples": samples}
