"""C15 oracle: attribute names/values normalised and merged in argument order; later update/assignment
replaces; consolidate_attrs round trip.  Independent model: an ordered list of (name, value) pairs."""
import ocommon


def norm_name(k):
    if k.endswith("_"):
        k = k[:-1]
    return k.replace("_", "-")


def run(R, job):
    ctx = ocommon.Ctx(R, job)
    core, r = R.core, ctx.rnd
    HTML = core.HTML
    n = job.get("n", 300)
    fails, checked, distinct, samples = [], 0, set(), []
    names = ["x", "x_", "x__", "a_b", "a-b", "class_", "class", "data_foo_bar", "_", "for_", "id"]
    vals = ["v", "", "a b", True, False, None, 3, 2.5, 0, "w&<", HTML("<h>"), HTML(""), 3.14159265, 1234567.5, 0.1 + 0.2, 1e21, 1e-7, 2.0, -0.0, 10 ** 20, float("inf")]

    def text(v):
        return "" if v is True else str(v) if not isinstance(v, str) and not isinstance(v, HTML) else v

    def model(dicts):
        out = []          # [[name, value]] ordered by first appearance
        for d in dicts:
            for k, v in d.items():
                if v is None or v is False:
                    continue
                nm = norm_name(k)
                tv = text(v)
                for e in out:
                    if e[0] == nm:
                        prev = e[1]
                        if isinstance(prev, HTML) or isinstance(tv, HTML):
                            a = prev.data if isinstance(prev, HTML) else ocommon.esca(prev)
                            b = tv.data if isinstance(tv, HTML) else ocommon.esca(tv)
                            e[1] = HTML(a + " " + b)
                        else:
                            e[1] = prev + " " + tv
                        break
                else:
                    out.append([nm, tv])
        return out

    def same(attrs, m):
        got = list(attrs.items())
        return len(got) == len(m) and all(k == e[0] and type(v) is type(e[1]) and str(v) == str(e[1]) for (k, v), e in zip(got, m))

    for _ in range(n):
        dicts = [{r.choice(names): r.choice(vals) for _ in range(r.choice([0, 1, 2, 3]))} for _ in range(r.choice([0, 1, 2, 3]))]
        kw = {r.choice([x for x in names if x.isidentifier()]): r.choice(vals) for _ in range(r.choice([0, 1, 2]))}
        kids = [r.choice(["t", 1, None, core.Tag("b")]) for _ in range(r.choice([0, 1, 2]))]
        mixed = list(dicts) + kids
        r.shuffle(mixed)
        pos_dicts = [x for x in mixed if isinstance(x, dict)]
        checked += 1
        distinct.add(str(mixed)[:80])
        t = core.Tag("div", *mixed, **kw)
        m = model(pos_dicts + ([kw] if kw else []))
        if not same(t.attrs, m):
            fails.append({"input": f"Tag('div', *{mixed!r}, **{kw!r})", "observed": repr(dict(t.attrs)), "expected": repr(m)})
        # later update replaces, keeps position of existing names, appends new ones
        upd = {r.choice(names): r.choice(vals) for _ in range(r.choice([1, 2]))}
        before = [[k, v] for k, v in t.attrs.items()]
        t.attrs.update(upd)
        um = model([upd])
        exp = [list(e) for e in before]
        for nm, v in um:
            for e in exp:
                if e[0] == nm:
                    e[1] = v
                    break
            else:
                exp.append([nm, v])
        checked += 1
        if not same(t.attrs, exp):
            fails.append({"input": f"attrs {before!r} .update({upd!r})", "observed": repr(dict(t.attrs)), "expected": repr(exp)})
        k, v = r.choice(names), r.choice(vals)
        before = [[a, b] for a, b in t.attrs.items()]
        t.attrs[k] = v
        exp = [list(e) for e in before]
        if not (v is None or v is False):
            for e in exp:
                if e[0] == norm_name(k):
                    e[1] = text(v)
                    break
            else:
                exp.append([norm_name(k), text(v)])
        checked += 1
        if not same(t.attrs, exp):
            fails.append({"input": f"attrs {before!r} [{k!r}] = {v!r}", "observed": repr(dict(t.attrs)), "expected": repr(exp)})
        # dict subclasses (another tag's attribute map, OrderedDict) are attribute dicts too, in the constructor and in consolidate_attrs alike
        if len(fails) < 3:
            import collections
            other = core.Tag("i", {"class": "a", "id": "o"})
            od = collections.OrderedDict([("data_x", "1")])
            a2, ch2 = core.consolidate_attrs(other.attrs, "kid", od, class_="c")
            t2 = core.Tag("div", other.attrs, "kid", od, class_="c")
            checked += 1
            if list(a2.items()) != list(t2.attrs.items()) or list(ch2) != ["kid"] or str(core.Tag("div", a2, *ch2)) != str(t2):
                fails.append({"input": "consolidate_attrs(other.attrs, 'kid', OrderedDict(data_x='1'), class_='c')", "observed": repr((a2, ch2))[:300], "expected": repr((dict(t2.attrs), ["kid"]))})
        # consolidate_attrs
        a, ch = core.consolidate_attrs(*mixed, **kw)
        checked += 1
        t0 = core.Tag("div", *mixed, **kw)
        if type(a) is not dict or list(a.items()) != list(t0.attrs.items()) or [type(v) for v in a.values()] != [type(v) for v in t0.attrs.values()] or len(ch) != len(kids) or any(x is not y for x, y in zip(ch, [x for x in mixed if not isinstance(x, dict)])):
            fails.append({"input": f"consolidate_attrs(*{mixed!r}, **{kw!r})", "observed": repr((a, ch))[:300], "expected": "attributes of the tag + non-dict args unchanged"})
        elif not (core.Tag("div", a, *ch) == t0) or str(core.Tag("div", a, *ch)) != str(t0):
            fails.append({"input": f"rebuild from consolidate_attrs(*{mixed!r}, **{kw!r})", "observed": str(core.Tag("div", a, *ch)), "expected": str(t0)})
        if len(samples) < 3:
            samples.append({"call": f"Tag('div', *{mixed!r}, **{kw!r})"[:200], "attrs": repr(dict(t0.attrs))[:200]})
        if len(fails) >= 3:
            break
    return {"checked": checked, "nontrivial": len(distinct), "failures": fails[:3], "samples": samples}
