"""C04 oracle: HTML(), _repr_html_() output and script/style text are emitted byte-for-byte; + over
str/HTML in any order and grouping yields HTML whose rendering equals the operands rendered as siblings."""
import ocommon

MARK = ["<b>", "&amp;", "&", "</script>", "\n", "<!--", '"', "x", "é", "]]>", "\r\n", "\r", "\t", " ", "</", "&#13;", "\u2028", "\x0b"]


def run(R, job):
    ctx = ocommon.Ctx(R, job)
    core, r = R.core, ctx.rnd
    HTML = core.HTML
    n = job.get("n", 300)
    fails, checked, distinct, samples = [], 0, set(), []

    def rs():
        return "".join(r.choice(MARK + ctx.texts) for _ in range(r.choice([1, 2, 3])))

    def expr(d):
        if d == 0 or r.random() < 0.3:
            s = rs()
            return (HTML(s), f"HTML({s!r})", [HTML(s)]) if r.random() < 0.5 else (s, repr(s), [s])
        (a, da, la), (b, db, lb) = expr(d - 1), expr(d - 1)
        return a + b, f"({da} + {db})", la + lb

    for _ in range(n):
        m = rs()
        distinct.add(m)
        cases = [
            ("child", core.Tag("div", HTML(m)), "<div>" + m + "</div>"),
            ("child among siblings", core.Tag("span", "a", HTML(m), "b", _add_ws=False), "<span>a" + m + "b</span>"),
            ("repr child", core.Tag("div", ctx.reprobj(m), core.Tag("span", _add_ws=False), _add_ws=False), "<div>" + m + "<span></span></div>"),
            ("attr", core.Tag("div", title=HTML(m)), '<div title="' + m + '"></div>'),
            ("attr via consolidate_attrs", core.Tag("div", core.consolidate_attrs(title=HTML(m))[0]), '<div title="' + m + '"></div>'),
            ("class helper on an HTML() class", core.Tag("div", class_=HTML(m)).add_class("x"), '<div class="' + m + ' x"></div>'),
            ("class helper (prepend) on an HTML() class", core.Tag("div", class_=HTML(m)).add_class("x", prepend=True), '<div class="x ' + m + '"></div>'),
            ("style helper on an HTML() style", core.Tag("div", style=HTML(m)).add_style("a:b;"), '<div style="' + m + ' a:b;"></div>'),
            ("HTML() class added to a plain one", core.Tag("div", class_="p").add_class(HTML(m)), '<div class="p ' + m + '"></div>'),
            ("script single", core.Tag("script", m), "<script>" + m + "</script>"),
            ("style single", core.Tag("style", m), "<style>" + m + "</style>"),
            ("script multi", core.Tag("script", m, HTML(m), _add_ws=False), "<script>" + m + m + "</script>"),
            ("list", core.TagList(HTML(m)), m),
        ]
        for how, t, exp in cases:
            checked += 1
            out = t.get_html_string()
            if out != exp:
                fails.append({"input": f"{how}: {ctx.describe(t)}", "observed": out, "expected": exp})
            if len(samples) < 3:
                samples.append({"how": how, "out": out[:120]})
            # every rendering path: str(), _repr_html_(), render()
            for path, got in (("str(x)", str(t)), ("x._repr_html_()", t._repr_html_()), ("x.render()['html']", t.render()["html"])):
                if got != exp:
                    fails.append({"input": f"{how} via {path}: {ctx.describe(t)}", "observed": got, "expected": exp})
                    break
        # ... and the saved file (HTMLDocument(x).save_html / x.save_html): the markup is in the file byte-for-byte
        import tempfile, os, shutil
        how, t, exp = r.choice(cases)
        tmpd = tempfile.mkdtemp(prefix="c04")
        try:
            f_ = os.path.join(tmpd, "o.html")
            (t if r.random() < 0.5 else core.HTMLDocument(t)).save_html(f_)
            with open(f_, "rb") as fh:
                saved = fh.read().decode("utf-8")
            checked += 1
            if exp not in saved:
                fails.append({"input": f"{how} via save_html: {ctx.describe(t)}", "observed": saved[:400], "expected": "contains " + exp})
        finally:
            shutil.rmtree(tmpd, ignore_errors=True)
        # other rendering paths: the display hook of `with tag:`, HTMLDocument, HTMLTextDocument (dependency head markup)
        import sys
        m2 = m + r.choice(["\\n", "\\d+", "\\1", "\\\\", "\\g<0>", ""])
        saved_hook = sys.displayhook
        try:
            sys.displayhook = lambda v: None
            t = core.Tag("div", _add_ws=False)
            with t:
                sys.displayhook(HTML(m2))
                sys.displayhook(ctx.reprobj(m2))
                sys.displayhook(core.Tag("span", _add_ws=False))
        finally:
            sys.displayhook = saved_hook
        checked += 1
        out = t.get_html_string()
        if out != "<div>" + m2 + m2 + "<span></span></div>":
            fails.append({"input": f"with div(): display HTML({m2!r}); display <object with _repr_html_ {m2!r}>; display span()", "observed": out, "expected": "<div>" + m2 + m2 + "<span></span></div>"})
        dep = core.HTMLDependency("h", "1.0", head=HTML("<script>" + m2 + "</script>"))
        checked += 2
        out = core.HTMLTextDocument("<head>@@</head>", deps=[dep], deps_replace_pattern="@@").render()["html"]
        if "<script>" + m2 + "</script>" not in out:
            fails.append({"input": f"HTMLTextDocument with a dependency whose head is HTML('<script>{m2}</script>')", "observed": out[:300], "expected": "the head markup byte-for-byte"})
        out = core.HTMLDocument(core.Tag("div", HTML(m2), dep)).render()["html"]
        if "<script>" + m2 + "</script>" not in out or "<div>" + m2 + "</div>" not in out:
            fails.append({"input": f"HTMLDocument(div(HTML({m2!r}), dependency with head script))", "observed": out[:400], "expected": "both byte-for-byte"})
        v, desc, leaves = expr(3)
        checked += 1
        any_html = any(isinstance(x, HTML) for x in leaves)
        if any_html:
            got = core.TagList(v).get_html_string()
            exp = "".join(core.TagList(x).get_html_string() for x in leaves)
            if not isinstance(v, HTML) or got != exp:
                fails.append({"input": desc, "observed": f"{type(v).__name__}: {got}", "expected": "HTML: " + exp})
        else:
            if type(v) is not str or v != "".join(leaves):
                fails.append({"input": desc, "observed": repr(v), "expected": "plain str concatenation"})
        class Obj:
            def __init__(self, t): self.t = t
            def __str__(self): return self.t
        for other in (ValueError(m), Obj(m), 12, 2.5, None, [m], 0, 0.0, False, True, -1, Obj("")):
            checked += 2
            a_ = HTML("<i>") + other
            b_ = other + HTML("<i>") if not isinstance(other, list) else None
            if not isinstance(a_, HTML) or a_.data != "<i>" + ocommon.esc(str(other)):
                fails.append({"input": f"HTML('<i>') + {other!r}", "observed": repr(a_), "expected": "HTML('<i>' + escaped str(other))"})
            if b_ is not None and (not isinstance(b_, HTML) or b_.data != ocommon.esc(str(other)) + "<i>"):
                fails.append({"input": f"{other!r} + HTML('<i>')", "observed": repr(b_), "expected": "HTML(escaped str(other) + '<i>')"})
        x = HTML("a"); x += m; y = m; y += HTML("a")
        checked += 2
        if not isinstance(x, HTML) or x.data != "a" + ocommon.esc(m) or not isinstance(y, HTML) or y.data != ocommon.esc(m) + "a":
            fails.append({"input": f"HTML('a') += {m!r} / {m!r} += HTML('a')", "observed": f"{x!r} / {y!r}", "expected": "escaped once"})
        if len(fails) >= 3:
            break
    return {"checked": checked, "nontrivial": len(distinct), "failures": fails[:3], "samples": samples}
