"""C01 oracle: the rendering of a tree of ordinary elements parses back (html.parser) to the same element
tree: elements in document order with identical nesting, void elements self-closed, attributes in insertion
order with values decoding to the stored values, text runs decoding to the adjacent text leaves up to
whitespace at the ends."""
from html.parser import HTMLParser
import ocommon


class P(HTMLParser):
    def __init__(s):
        super().__init__(convert_charrefs=True)
        s.ev = []

    def handle_starttag(s, t, a): s.ev.append(("S", t, a))
    def handle_startendtag(s, t, a): s.ev.append(("V", t, a))
    def handle_endtag(s, t): s.ev.append(("E", t))
    def handle_data(s, d): s.ev.append(("T", d))
    def handle_comment(s, d): s.ev.append(("C", d))
    def handle_decl(s, d): s.ev.append(("D", d))


# attribute names: syntactic corner cases and the names a renderer might be tempted to treat specially
ANAMES = ["id", "class", "data-x", "title", "x:y", "a.b", "x__", "y-", "x", "data_a_", "z--", "href", "src", "alt", "value", "style", "name", "type", "action",
          "placeholder", "content", "srcset", "onclick", "aria-label", "for", "lang", "charset", "rel", "download", "checked", "hidden"]


def norm(ev):
    res = []
    for e in ev:
        if e[0] == "T" and res and res[-1][0] == "T":
            res[-1] = ("T", res[-1][1] + e[1])
        else:
            res.append(e)
    return [e if e[0] != "T" else ("T", e[1].strip()) for e in res if not (e[0] == "T" and e[1].strip() == "")]


def run(R, job):
    ctx = ocommon.Ctx(R, job)
    core, r = R.core, ctx.rnd
    n = job.get("n", 300)
    fails, checked, nontrivial, samples = [], 0, 0, []
    names = [x for x in ocommon.BLOCK + ocommon.INL if x not in ("script", "style")] + sorted(ocommon.VOID) + ["x-custom", "my_tag", "a1"]
    texts = ctx.texts + ["&", "<", ">", "&amp;", "a < b > c & d", "]]>", "<!--x-->", "<!DOCTYPE>", "</p>", "é😀", 3, 2.5, True]
    avals = ["v", "", 'q"q', "a'b", "x\ny", "l\rm", "&lt;", "<>", " sp ", "é", 7, True, "?a=1&b=2", "?a=1&amp;b=2", "&#38;", "a&amp;amp;b", "http://h/p?q=<x>&r='s'"]

    def tree(d):
        if d <= 0 or r.random() < 0.3:
            return r.choice(texts)
        at = {}
        for _ in range(r.choice([0, 0, 1, 2, 3])):
            at[r.choice(ANAMES)] = r.choice(avals)
        kids = [tree(d - 1) for _ in range(r.choice([0, 0, 1, 2, 3, 4]))]
        return core.Tag(r.choice(names), *kids, at, _add_ws=r.random() < 0.5)

    def events(x, out):
        if isinstance(x, core.Tag):
            at = [(k, str(v)) for k, v in x.attrs.items()]
            kids = list(x.children)
            if not kids and x.name in ocommon.VOID:
                out.append(("V", x.name, at))
                return
            out.append(("S", x.name, at))
            for k in kids:
                events(k, out)
            out.append(("E", x.name))
        else:
            out.append(("T", str(x)))

    for num in (0, 7, -3, 2.5, 2.0, 1234567.25, 3.14159265, 1e21, 1e-7, True):
        checked += 1
        for how, s2 in (("get_html_string", core.Tag("td", num).get_html_string()), ("str", str(core.Tag("td", "a", num, _add_ws=False)))):
            p0 = P(); p0.feed(s2); p0.close()
            seen = "".join(e[1] for e in p0.ev if e[0] == "T")
            if str(num) not in seen:
                fails.append({"input": f"Tag('td', {num!r}) via {how}", "observed": s2, "expected": "text run " + str(num)})
    for _ in range(n):
        t = tree(4)
        if not isinstance(t, core.Tag):
            continue
        ind = r.choice([0, 1, 3])
        eol = r.choice(["\n", "\r\n", "", " ", "\n\n"])
        s = t.get_html_string(indent=ind, eol=eol)
        checked += 1
        p = P()
        p.feed(s)
        p.close()
        exp = []
        events(t, exp)
        nontrivial += len(exp) > 3
        if norm(p.ev) != norm(exp):
            fails.append({"input": ctx.describe(t), "indent": ind, "eol": eol, "observed": str(norm(p.ev))[:400], "expected": str(norm(exp))[:400], "markup": s[:400]})
        else:
            # the other observation points: str(x) and x.render()['html'] (they work on a tagified copy of the tree)
            for how, s2 in (("str(x)", str(t)), ("x.render()['html']", t.render()["html"])):
                p2 = P()
                p2.feed(s2)
                p2.close()
                if norm(p2.ev) != norm(exp):
                    fails.append({"input": ctx.describe(t), "via": how, "observed": str(norm(p2.ev))[:400], "expected": str(norm(exp))[:400], "markup": s2[:400]})
                    break
        if len(samples) < 3:
            samples.append({"tree": ctx.describe(t)[:200], "indent": ind, "eol": eol})
        if len(fails) >= 3:
            break
    return {"checked": checked, "nontrivial": nontrivial, "failures": fails[:3], "samples": samples}
