"""C19 oracle: call every function of htmltools.tags / htmltools.svg (and the 17 top-level shortcuts)
with sample argument lists and compare with the Tag constructor; defaults against the project's
inline classification (read from scripts/generate_tags.py with ast, not from the generated files)."""
import ast, os, inspect


def run(R, job):
    import htmltools
    from htmltools import tags, svg, Tag, HTML
    repo = os.path.dirname(os.path.dirname(htmltools.__file__))
    inline = None
    for n in ast.parse(open(os.path.join(repo, "scripts", "generate_tags.py")).read()).body:
        if isinstance(n, ast.Assign) and getattr(n.targets[0], "id", "") == "_INLINE_TAG_NAMES":
            inline = set(ast.literal_eval(n.value))
    samples = [((), {}), (("x", 1, None, ["a", ("b",)]), {"class_": "c", "data_x": True}), (({"id": "i"}, "t", HTML("<b>")), {"id": "j", "hidden": None}),
               (("only",), {"_add_ws": True}), (("only",), {"_add_ws": False})]
    fails, checked = [], 0
    for m in (tags, svg):
        for nm, f in vars(m).items():
            if not (inspect.isfunction(f) and f.__module__ == m.__name__):
                continue
            for args, kw in samples:
                checked += 1
                got = f(*args, **kw)
                kw2 = dict(kw)
                kw2.setdefault("_add_ws", nm not in inline)
                exp = Tag(nm, *args, **kw2)
                if not (type(got) is Tag and got.name == nm and got.add_ws == exp.add_ws and got == exp):
                    fails.append({"input": f"{m.__name__}.{nm}(*{args!r}, **{kw!r})", "observed": str(got)[:200] + f" add_ws={got.add_ws}", "expected": str(exp)[:200] + f" add_ws={exp.add_ws}"})
            # its own element: the attribute map and child list are new objects, also when the only argument is another tag's attribute map
            card = Tag("div", {"class": "card", "id": "c"}, "kid")
            before = (dict(card.attrs), list(card.children))
            for argv in ((card.attrs,), (card.attrs, "x"), (card.children,), (dict(card.attrs),)):
                checked += 1
                el = f(*argv)
                el.attrs["data-new"] = "1"; el.add_class("added"); el.append("more")
                if (dict(card.attrs), list(card.children)) != before or el.attrs is card.attrs or el.children is card.children:
                    fails.append({"input": f"el = {m.__name__}.{nm}(card.attrs ...); el.add_class('added'); el.append('more')", "observed": f"the other tag changed: {dict(card.attrs)} {list(card.children)}",
                                  "expected": "the new element shares nothing with its arguments"})
                    card = Tag("div", {"class": "card", "id": "c"}, "kid")
            for bad in (1, "True", None):
                checked += 1
                try:
                    f(_add_ws=bad)
                    fails.append({"input": f"{m.__name__}.{nm}(_add_ws={bad!r})", "observed": "no exception", "expected": "TypeError"})
                except TypeError:
                    pass
    for nm in ["a", "br", "code", "div", "em", "h1", "h2", "h3", "h4", "h5", "h6", "hr", "img", "p", "pre", "span", "strong"]:
        checked += 1
        if getattr(htmltools, nm) is not getattr(tags, nm):
            fails.append({"input": f"htmltools.{nm}", "observed": "different object", "expected": f"htmltools.tags.{nm}"})
    return {"checked": checked, "nontrivial": checked, "failures": fails[:3], "samples": [{"call": "tags.div(*('x', 1, None, ['a', ('b',)]), class_='c', data_x=True)"}]}
