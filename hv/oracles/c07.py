"""C07 oracle: inserting / removing metadata nodes at random positions (any depth, several in a row,
as only child, first, last) never changes the markup; only the dependency list may change."""
import copy
import ocommon


def strip(ctx, n):
    core = ctx.core
    if isinstance(n, core.Tag):
        cp = copy.copy(n)
        cp.children = core.TagList()
        cp.children.data = [strip(ctx, k) for k in n.children if not isinstance(k, core.MetadataNode)]
        return cp
    return n


def sprinkle(ctx, n):
    core, r = ctx.core, ctx.rnd
    if isinstance(n, core.Tag):
        cp = copy.copy(n)
        out = []
        for k in list(n.children) + [None]:
            for _ in range(r.choice([0, 0, 0, 1, 2])):
                out.append(core.MetadataNode() if r.random() < 0.5 else core.HTMLDependency("m" + str(r.randint(0, 3)), "1.0"))
            if k is not None:
                out.append(sprinkle(ctx, k))
        cp.children = core.TagList()
        cp.children.data = out
        return cp
    return n


def run(R, job):
    ctx = ocommon.Ctx(R, job)
    n = job.get("n", 300)
    fails, checked, nontrivial, samples = [], 0, 0, []
    for it in range(n):
        t = ctx.rtree(4, meta=True)
        if not isinstance(t, R.core.Tag):
            t = R.core.Tag("div", t)
        base = strip(ctx, t)
        more = sprinkle(ctx, t)
        ind = ctx.rnd.choice([0, 1, 3])
        eol = ctx.rnd.choice(["\n", "\r\n", "", "@"])
        outs = []
        for v in (base, t, more):
            try:
                outs.append(v.get_html_string(ind, eol))
            except Exception as ex:
                outs.append("EXC:" + type(ex).__name__)
        checked += 1
        if ctx.describe(more) != ctx.describe(base):
            nontrivial += 1
        if len(samples) < 3:
            samples.append({"tree": ctx.describe(more)[:300], "indent": ind, "eol": eol})
        if not (outs[0] == outs[1] == outs[2]):
            fails.append({"input": ctx.describe(more), "without_metadata": ctx.describe(base), "indent": ind, "eol": eol,
                          "observed": outs[2] if outs[2] != outs[0] else outs[1], "expected": outs[0]})
            if len(fails) >= 3:
                break
        # the other way of adding children: the display hook of `with tag:`
        if it % 4 == 0:
            import sys
            saved_hook = sys.displayhook
            w1, w2 = R.core.Tag("div"), R.core.Tag("div")
            try:
                sys.displayhook = lambda v: None
                with w1:
                    sys.displayhook("a"); sys.displayhook(R.core.HTMLDependency("wd", "1.0", script={"src": "w.js"}, source={"subdir": "lib"})); sys.displayhook(R.core.MetadataNode()); sys.displayhook(R.core.Tag("span", "b"))
                with w2:
                    sys.displayhook("a"); sys.displayhook(R.core.Tag("span", "b"))
            finally:
                sys.displayhook = saved_hook
            if w1.get_html_string(ind, eol) != w2.get_html_string(ind, eol):
                fails.append({"input": "with div(): display 'a', an HTMLDependency, a MetadataNode, span('b')", "observed": w1.get_html_string(ind, eol), "expected": w2.get_html_string(ind, eol)})
        # top-level list as well
        tl = R.core.TagList(); tl.data = list(more.children)
        tb = R.core.TagList(); tb.data = list(base.children)
        try:
            a, b = tl.get_html_string(ind, eol), tb.get_html_string(ind, eol)
        except Exception as ex:
            a = b = None
        if a != b:
            fails.append({"input": ctx.describe(tl), "without_metadata": ctx.describe(tb), "indent": ind, "eol": eol, "observed": a, "expected": b})
    return {"checked": checked, "nontrivial": nontrivial, "failures": fails, "samples": samples}
