"""C08 oracle (independent executable reading of the statement, run against the real code):
(a) the read-only operations leave every object reachable from the receiver structurally unchanged (deep snapshot with
    object identities), and repeating them in any order gives identical results;
(b) tagify(): equals the original when nothing needed expansion, is a fixed point, shares no tag / child list /
    attribute map / metadata node object with the original, and mutating either through the public API leaves the other alone;
(c) str(x) == repr(x) == x._repr_html_() == x.render()['html'] in the default dependency render mode;
(d) == is true for structurally identical objects, false for different kinds and for single differences in name,
    whitespace flag, attribute set / values, child structure / text."""
import copy
import os
import shutil
import tempfile
import ocommon


def run(R, job):
    ctx = ocommon.Ctx(R, job)
    core, r = R.core, ctx.rnd
    n = job.get("n", 150)
    fails, checked, nontrivial = [], 0, 0
    tmp = tempfile.mkdtemp(prefix="hv-c08-")
    srcdir = os.path.join(tmp, "src")
    os.makedirs(os.path.join(srcdir, "sub"))
    for f in ("a.js", "b.css", "sub/c.js"):
        with open(os.path.join(srcdir, f), "w") as fh:
            fh.write("/* " + f + " */")

    class Tg:
        "a tagifiable object with a fixed expansion"
        def __init__(self, mk):
            self.mk = mk

        def tagify(self):
            return self.mk()

    def dep(i):
        kw = {}
        k = r.random()
        if k < 0.4:
            kw = dict(source={"subdir": srcdir}, script=[{"src": "a.js"}, {"src": "sub/c.js", "defer": True}], stylesheet={"href": "b.css"})
        elif k < 0.6:
            kw = dict(source={"href": "https://x.org/lib"}, script={"src": "a.js"})
        if r.random() < 0.3:
            kw["meta"] = {"name": "m", "content": "c"}
        if r.random() < 0.3:
            kw["head"] = core.Tag("title", "T%d" % i)
        return core.HTMLDependency("d%d" % i, r.choice(["1.0", "1.1", "2.0"]), **kw)

    def tree(d, objs):
        if d <= 0 or r.random() < 0.3:
            k = r.random()
            if k < 0.4: return r.choice(ctx.texts)
            if k < 0.55: return core.HTML(r.choice(["<b>r</b>", "&raw;"]))
            if k < 0.75: return dep(r.randint(0, 3))
            if k < 0.8: return core.head_content(core.Tag("link", rel="x"))
            if k < 0.9 and objs:
                sub = tree(d - 1, False) if d > 0 else "exp"
                if r.random() < 0.5:
                    return Tg(lambda sub=sub: core.TagList(sub, "tail"))
                d7 = dep(7)
                return Tg(lambda: core.Tag("em", "expanded", d7))
            if objs: return ctx.reprobj("<r/>")
            return "t"
        name = r.choice(["div", "span", "p", "head", "body", "ul", "script"])
        kids = [tree(d - 1, objs) for _ in range(r.choice([0, 1, 2, 3]))]
        at = {}
        for _ in range(r.choice([0, 1, 2])):
            at[r.choice(["id", "class", "data_x", "x__", "x", "y_-", "z--"])] = r.choice(["v", "a b", core.HTML("&h;"), True, 3])
        return core.Tag(name, *kids, at, _add_ws=r.random() < 0.5)

    def snap(x, seen=None):
        "deep structural snapshot with object identities"
        if isinstance(x, core.Tag):
            return ("Tag", id(x), x.name, x.add_ws, id(x.attrs), tuple((k, type(v).__name__, str(v)) for k, v in x.attrs.items()),
                    id(x.children), id(x.children.data), tuple(snap(c) for c in x.children), repr(getattr(x, "prev_displayhook", None)), tuple(sorted(x.__dict__)))
        if isinstance(x, core.TagList):
            return ("TagList", id(x), id(x.data), tuple(snap(c) for c in x))
        if isinstance(x, str):
            return (type(x).__name__, str(x))
        if isinstance(x, core.HTMLDependency):
            return ("Dep", id(x), x.name, str(x.version), repr(x.source), repr(x.script), id(x.script), repr(x.stylesheet), id(x.stylesheet),
                    repr(x.meta), id(x.meta), x.all_files, snap(x.head) if x.head is not None else None)
        if isinstance(x, core.HTMLDocument):
            return ("Doc", id(x), snap(x._content), repr(x._html_attr_args))
        if isinstance(x, Tg):
            return ("Tg", id(x), id(x.mk))
        if isinstance(x, (list, tuple)):
            return (type(x).__name__, tuple(snap(c) for c in x))
        return (type(x).__name__, id(x), repr(getattr(x, "__dict__", None)))

    def ids(x, acc):
        "identities of every tag, child list, attribute map and metadata node"
        if isinstance(x, core.Tag):
            acc.update({id(x), id(x.attrs), id(x.children), id(x.children.data)})
            for c in x.children: ids(c, acc)
        elif isinstance(x, core.TagList):
            acc.update({id(x), id(x.data)})
            for c in x: ids(c, acc)
        elif isinstance(x, core.MetadataNode):
            acc.add(id(x))
        return acc

    def deps_in(x, acc):
        if isinstance(x, core.Tag):
            for c in x.children: deps_in(c, acc)
        elif isinstance(x, core.TagList):
            for c in x: deps_in(c, acc)
        elif isinstance(x, core.HTMLDependency):
            acc.append(x)
        return acc

    def canon(v):
        if isinstance(v, dict) and "html" in v and "dependencies" in v:
            return ("rendered", v["html"], tuple((d.name, str(d.version)) for d in v["dependencies"]))
        if isinstance(v, (core.Tag, core.TagList)):
            return ("tree", desnap(snap(v)))
        if isinstance(v, list):
            return tuple(canon(i) for i in v)
        if isinstance(v, core.HTMLDependency):
            return ("dep", v.name, str(v.version))
        return repr(v)

    def desnap(s):
        "snapshot with the identities removed"
        if isinstance(s, tuple):
            if s and s[0] == "Tag":
                return ("Tag", s[2], s[3], s[5], tuple(desnap(c) for c in s[8]))
            if s and s[0] == "TagList":
                return ("TagList", tuple(desnap(c) for c in s[3]))
            if s and s[0] == "Dep":
                return ("Dep",) + tuple(v for i, v in enumerate(s[2:12]) if i not in (4, 6, 8)) + (desnap(s[12]) if s[12] else None,)
            return tuple(desnap(c) for c in s)
        return s

    def ops_for(x, has_objs):
        out = {}
        if isinstance(x, (core.Tag, core.TagList)):
            out["tagify"] = lambda: x.tagify()
            out["get_dependencies"] = lambda: x.get_dependencies()
            out["get_dependencies(dedup=False)"] = lambda: x.get_dependencies(dedup=False)
            out["copy.copy"] = lambda: copy.copy(x)
            if not has_objs or True:
                out["render"] = lambda: x.render()
                out["str"] = lambda: str(x)
                out["repr"] = lambda: repr(x)
                out["_repr_html_"] = lambda: x._repr_html_()
            if not has_objs:
                out["get_html_string"] = lambda: x.get_html_string()
            out["HTMLDocument(x).render"] = lambda: core.HTMLDocument(x).render()
            out["HTMLDocument(x, lang).render"] = lambda: core.HTMLDocument(x, lang="en", class_="c").render(lib_prefix="L")

            def save():
                d = tempfile.mkdtemp(prefix="out", dir=tmp)
                p = core.HTMLDocument(x).save_html(os.path.join(d, "o.html"), libdir="lib")
                with open(p) as fh:
                    return fh.read()
            out["HTMLDocument(x).save_html"] = save
        for i, d in enumerate(deps_in(x, [])[:2]):
            out[f"dep{i}.as_html_tags"] = lambda d=d: d.as_html_tags(lib_prefix="P")
            out[f"dep{i}.as_dict"] = lambda d=d: d.as_dict(lib_prefix="P", include_version=False)
            out[f"dep{i}.source_path_map"] = lambda d=d: d.source_path_map(lib_prefix="Q")
            out[f"dep{i}.serialize"] = lambda d=d: str(d.serialize_to_script_json())
        return out

    try:
        for it in range(n):
            has_objs = r.random() < 0.4
            shape = r.choice(["tag", "list", "html", "html+head", "body"])
            if shape == "tag":
                x = tree(3, has_objs)
                if not isinstance(x, core.Tag):
                    x = core.Tag("div", x)
            elif shape == "list":
                x = core.TagList(*[tree(2, has_objs) for _ in range(r.choice([0, 1, 2, 3]))])
            elif shape == "html":
                x = core.Tag("html", core.Tag("body", tree(2, has_objs), dep(5)), lang="x")
            elif shape == "html+head":
                x = core.Tag("html", core.Tag("head", core.Tag("title", "t"), dep(4)), core.Tag("body", tree(2, has_objs)))
            else:
                x = core.Tag("body", tree(2, has_objs), class_="b")
            checked += 1
            before = snap(x)
            ops = ops_for(x, has_objs)
            names = list(ops)
            r.shuffle(names)
            first = {}
            problem = None
            for rnd in range(2):
                order = list(names)
                if rnd == 1:
                    r.shuffle(order)
                for nm in order:
                    try:
                        res = canon(ops[nm]())
                    except Exception as ex:
                        res = ("EXC", type(ex).__name__)
                    if snap(x) != before:
                        problem = {"input": shape + ": " + str(desnap(before))[:300], "observed": f"{nm} changed an object reachable from its receiver", "expected": "input structurally unchanged"}
                        break
                    if nm == "HTMLDocument(x).save_html":
                        import re as _re
                        res = _re.sub(r"out\w+", "out", str(res))
                    if rnd == 0:
                        first[nm] = res
                    elif first[nm] != res:
                        problem = {"input": shape + ": " + str(desnap(before))[:300], "observed": f"{nm} gave a different result when repeated (after {order})", "expected": "identical results in any order"}
                        break
                if problem:
                    break
            if problem:
                fails.append(problem)
                if len(fails) >= 3: break
                continue
            # (c) four spellings of the markup
            try:
                s4 = [str(x), repr(x), x._repr_html_(), x.render()["html"]]
            except RuntimeError:
                s4 = None
            if s4 is not None and len(set(s4)) != 1:
                fails.append({"input": str(desnap(before))[:300], "observed": "str/repr/_repr_html_/render()['html'] differ: " + repr(s4)[:300], "expected": "the same string"})
            # (b) tagify: independent copy
            try:
                t = x.tagify()
            except Exception as ex:
                fails.append({"input": str(desnap(before))[:300], "observed": "tagify raised " + type(ex).__name__, "expected": "a copy"})
                continue
            nontrivial += 1
            if not has_objs and not (t == x):
                fails.append({"input": str(desnap(before))[:300], "observed": "tagify() != original although nothing needed expansion", "expected": "equal"})
            if desnap(snap(t.tagify())) != desnap(snap(t)) or not (t.tagify() == t):
                fails.append({"input": str(desnap(before))[:300], "observed": "tagify() is not a fixed point of tagify()", "expected": "t.tagify() == t"})
            shared = ids(t, set()) & ids(x, set())
            if shared:
                fails.append({"input": str(desnap(before))[:300], "observed": f"tagify() result shares {len(shared)} tag/list/attribute-map/metadata object(s) with the original", "expected": "no shared objects"})
            # mutate the copy everywhere through the public API; the original must not move (and vice versa)
            def mutate(y):
                if isinstance(y, core.Tag):
                    kids = list(y.children)
                    for i_, c_ in enumerate(kids):
                        if isinstance(c_, core.HTML):
                            y.children[i_] += "<!--appended-->"            # `+=` on a raw-HTML child of the copy
                    for k_, v_ in list(y.attrs.items()):
                        if isinstance(v_, core.HTML):
                            y.attrs[k_] += ";x"
                    y.attrs.update({"data-m": "1"}); y.add_class("mut"); y.append("added"); y.insert(0, core.Tag("i"))
                    y.name = y.name + "x"; y.add_ws = not y.add_ws
                    for c in kids: mutate(c)
                elif isinstance(y, core.TagList):
                    for c in list(y): mutate(c)
                    y.append("added"); y.insert(0, "first")
                elif isinstance(y, core.HTMLDependency):
                    y.name = y.name + "-mut"          # the metadata node object itself is not shared (its field values may be)
                    y.all_files = not y.all_files
            t_before = snap(t)
            mutate(t)
            if snap(x) != before:
                fails.append({"input": str(desnap(before))[:300], "observed": "mutating the tagify() result changed the original", "expected": "independent"})
            else:
                t2 = x.tagify()
                t2s = snap(t2)
                mutate(x)
                if snap(t2) != t2s:
                    fails.append({"input": str(desnap(before))[:300], "observed": "mutating the original changed an earlier tagify() result", "expected": "independent"})
            if len(fails) >= 3: break

        # repeating in any order gives identical results - also in a fresh process, before and after other renderings
        import subprocess, sys as _sys, json as _json
        prog = r"""
import sys, json
sys.path.insert(0, %r)
from htmltools import div, span, HTML, TagList
x = div('say "hi" & \'bye\'\nnext', span("it's"), title="t")
y = TagList('a "quoted" text', HTML("<b>"))
out = [str(div('q"q')), str(x), str(y), x.get_html_string(), str(div(title='"v"', id="i'd")), str(div('q"q')), str(x), str(y), x.get_html_string(), repr(x.render()["html"])]
print(json.dumps(out))
""" % (os.environ.get("HV_REPO") or "/repo",)
        try:
            pr = subprocess.run([_sys.executable, "-c", prog], capture_output=True, text=True, timeout=60)
            o = _json.loads(pr.stdout.strip().splitlines()[-1])
            checked += 1
            if o[0] != o[5] or o[1] != o[6] or o[2] != o[7] or o[3] != o[8]:
                fails.append({"input": "fresh process: render texts with quotes, then a tag with attribute values, then the same texts again", "observed": [o[0], o[5], o[1][:80], o[6][:80]], "expected": "identical before and after"})
        except Exception as ex:
            fails.append({"input": "fresh-process repetition", "observed": "EXC " + type(ex).__name__ + ": " + str(ex)[:200] + (pr.stderr[-300:] if 'pr' in dir() else ""), "expected": "runs"})
        # (d) equality
        def rebuild(y):
            if isinstance(y, core.Tag):
                t = core.Tag(y.name, *[rebuild(c) for c in y.children], _add_ws=y.add_ws)
                for k, v in reversed(list(y.attrs.items())):      # attribute *set*: order must not matter
                    dict.__setitem__(t.attrs, k, v)
                return t
            if isinstance(y, core.TagList):
                return core.TagList(*[rebuild(c) for c in y])
            if isinstance(y, core.HTMLDependency):
                return copy.deepcopy(y)
            if isinstance(y, core.HTML):
                return core.HTML(str(y))
            if isinstance(y, str):
                return "".join(list(y))
            return y

        def tags_of(y, acc):
            if isinstance(y, core.Tag):
                acc.append(y)
                for c in y.children: tags_of(c, acc)
            elif isinstance(y, core.TagList):
                for c in y: tags_of(c, acc)
            return acc

        for it in range(n):
            x = tree(3, False)
            if not isinstance(x, core.Tag):
                x = core.Tag("div", x)
            if r.random() < 0.3:
                x = core.TagList(x, tree(1, False))
            checked += 1
            y = rebuild(x)
            if not (x == y) or not (y == x) or (x != y):
                fails.append({"input": str(desnap(snap(x)))[:300], "observed": "== is false for a structurally identical rebuild", "expected": "True"})
                break
            others = ["s", 3, None, core.TagList(), core.Tag("div"), core.HTMLDependency("a", "1.0"), core.MetadataNode()]
            # look-alikes of another kind: the same items in a plain list / tuple / UserList, a tag's child list, a list around the tag
            import collections
            if isinstance(x, core.TagList):
                others += [list(x), tuple(x), collections.UserList(list(x)), core.Tag("div", *x)]
                if (core.TagList() == []) or ([] == core.TagList()):
                    fails.append({"input": "TagList() == []", "observed": True, "expected": "False (different kinds)"})
            else:
                others += [x.children, list(x.children), core.TagList(x), [x], dict(x.attrs), str(x), core.HTML(str(x))]
                if x.children == list(x.children) or list(x.children) == x.children:
                    fails.append({"input": str(desnap(snap(x)))[:200] + ": x.children == list(x.children)", "observed": True, "expected": "False (a TagList and a list are different kinds)"})
            for o in others:
                if type(o) is not type(x) and (x == o or o == x):
                    fails.append({"input": str(desnap(snap(x)))[:200] + " vs " + repr(o)[:50], "observed": "== is true for objects of different kinds", "expected": "False"})
            ts = tags_of(y, [])
            if not ts:
                continue
            t = r.choice(ts)
            kind = r.choice(["name", "ws", "add-attr", "del-attr", "attr-value", "child-text", "add-child", "del-child", "child-kind", "dep-version"])
            if kind == "name": t.name = t.name + "z"
            elif kind == "ws": t.add_ws = not t.add_ws
            elif kind == "add-attr": t.attrs["data-new"] = "1"
            elif kind == "del-attr":
                if not t.attrs: continue
                del t.attrs[next(iter(t.attrs))]
            elif kind == "attr-value":
                if not t.attrs: continue
                k = r.choice(list(t.attrs)); dict.__setitem__(t.attrs, k, str(t.attrs[k]) + "!")
            elif kind == "child-text":
                idx = [i for i, c in enumerate(t.children) if isinstance(c, str)]
                if not idx: continue
                i = r.choice(idx); t.children[i] = type(t.children[i])(str(t.children[i]) + "?")
            elif kind == "add-child": t.children.insert(r.randint(0, len(t.children)), core.Tag("wbr"))
            elif kind == "del-child":
                if not t.children: continue
                del t.children[r.randrange(len(t.children))]
            elif kind == "child-kind":
                idx = [i for i, c in enumerate(t.children) if isinstance(c, str)]
                if not idx: continue
                i = r.choice(idx); t.children[i] = core.Tag("span", t.children[i])
            elif kind == "dep-version":
                idx = [i for i, c in enumerate(t.children) if isinstance(c, core.HTMLDependency)]
                if not idx: continue
                i = r.choice(idx); d = t.children[i]
                t.children[i] = core.HTMLDependency(d.name, "9.9")
            nontrivial += 1
            if x == y or y == x or not (x != y):
                fails.append({"input": str(desnap(snap(x)))[:300], "observed": f"== is true although the trees differ ({kind} of a <{t.name}>)", "expected": "False"})
                break
    finally:
        shutil.rmtree(tmp, ignore_errors=True)
    return {"checked": checked, "nontrivial": nontrivial, "failures": fails[:3]}
