"""C18 oracle (bounded): the same construction yields byte-identical HTML, identical dependency order and identical
head_content names in every interpreter process regardless of the hash seed, and regardless of what was built or rendered
earlier in the process; equal head_content payloads get equal names, different payloads different names."""
import hashlib
import json
import os
import subprocess
import sys

BATTERY = r'''
import sys, json, hashlib, random
import htmltools
from htmltools import *
from htmltools._jsx import jsx_tag_create, jsx
from htmltools import _core as core
order = json.loads(sys.argv[1])

def dep(n, v, **kw):
    return HTMLDependency(n, v, source={"subdir": "lib"}, **kw)

def items():
    out = {}
    out["deps-many"] = lambda: div(*[dep(n, v, script={"src": n + ".js"}) for n, v in [("zeta", "1.0"), ("alpha", "2.0"), ("mid", "1.1"), ("zeta", "1.2"), ("beta", "0.1"), ("alpha", "1.0"), ("q", "3"), ("r", "3"), ("s", "3"), ("t", "3"), ("u", "3")]], "x").render()
    out["doc"] = lambda: HTMLDocument(div(dep("b", "1.0"), span(dep("a", "1.0"), head_content(tags.title("T")), head_content(tags.link(rel="x")), head_content(tags.title("T")))), lang="en").render()
    out["attrs"] = lambda: div({"class": "a", "id": "i", "data-z": "1"}, class_="b", style="x:1", **{"data_a": "2"}).render()
    out["head-names"] = lambda: {"html": ";".join(head_content(x).name for x in [tags.title("a"), tags.title("b"), "a", HTML("a"), TagList("a", "b"), tags.title("a")]), "dependencies": []}
    out["textdoc"] = lambda: HTMLTextDocument("".join(str(dep(n, "1.0").serialize_to_script_json()) for n in ["k", "c", "k", "a", "zz", "b", "c"]) + "X@@", deps_replace_pattern="@@").render()
    out["textdoc2"] = lambda: HTMLTextDocument(str(dep("second", "2.0").serialize_to_script_json()) + "Y@@", deps_replace_pattern="@@").render()
    out["jsx"] = lambda: {"html": str(jsx_tag_create("Foo")(div("x", dep("j", "1")), p=1, q={"b": 1, "a": 2}, style="color:red;top:1px")), "dependencies": []}
    out["list"] = lambda: TagList(dep("x", "1"), [dep("w", "1"), dep("x", "2")], "t").render()
    out["classes"] = lambda: (lambda t: (t.add_class("c d"), t.remove_class("c"), t.add_style("a:b;"), t.render())[-1])(div(class_="a b c"))
    return out

page = tags.html(tags.body("shared page"))
# one dependency object used by several documents: its head markup carries relative URLs
shared_dep = HTMLDependency("shared", "1.0", source={"subdir": "lib"}, script={"src": "s.js"}, head=TagList(tags.script(src="rel/init.js"), tags.link(href="rel/a.css", rel="stylesheet")))


def _more(out):
    out["scripts-attrs"] = lambda: div(dep("sa", "1.0", script={"src": "s.js", "integrity": "sha-x", "crossorigin": "anonymous", "defer": True, "type": "module", "nomodule": False})).render()
    out["page-lang"] = lambda: HTMLDocument(page, lang="en").render()
    out["page-plain"] = lambda: HTMLDocument(page).render()
    out["text-quotes"] = lambda: div('say "hi" it\'s', title='t"q').render()
    out["shared-dep-doc"] = lambda: HTMLDocument(div("a", shared_dep)).render(lib_prefix="lib")
    out["shared-dep-doc2"] = lambda: HTMLDocument(span(shared_dep), shared_dep).render(lib_prefix="x/y")
    out["shared-dep-tags"] = lambda: {"html": str(shared_dep.as_html_tags(lib_prefix="p")), "dependencies": []}
    return out


_items0 = items
items = lambda: _more(_items0())
its = items()
res = {}
dig = lambda r: hashlib.sha1((r["html"] + "|" + ";".join(d.name + "@" + str(d.version) for d in r["dependencies"])).encode()).hexdigest()
for k in order:
    res[k] = dig(its[k]())
# ... and once more at the end of the process, after everything else has been rendered: same bytes
for k in order:
    res[k + "#again"] = dig(items()[k]())
    if res[k + "#again"] != res[k]:
        res[k + "#again"] = "DIFFERS-FROM-FIRST-RENDER"
print(json.dumps(res, sort_keys=True))
'''


def run(R, job):
    import random
    rnd = random.Random(job.get("seed", 0))
    n = job.get("n", 150)
    nproc = 6 if n <= 200 else 24
    keys = ["deps-many", "doc", "attrs", "head-names", "textdoc", "textdoc2", "jsx", "list", "classes", "scripts-attrs", "page-lang", "page-plain", "text-quotes", "shared-dep-doc", "shared-dep-doc2", "shared-dep-tags"]
    repo = os.environ.get("HV_REPO") or "/repo"
    fails, checked = [], 0
    ref = None
    for i in range(nproc):
        order = list(keys)
        if i:
            rnd.shuffle(order)
        env = dict(os.environ, PYTHONHASHSEED=str(rnd.randint(0, 4000000) if i else 0), PYTHONPATH=repo)
        p = subprocess.run([sys.executable, "-c", BATTERY, json.dumps(order)], capture_output=True, text=True, env=env, cwd=repo, timeout=120)
        checked += 1
        if p.returncode != 0:
            fails.append({"input": f"battery in a fresh process (PYTHONHASHSEED={env['PYTHONHASHSEED']}, order {order})", "observed": p.stderr[-400:], "expected": "runs"})
            break
        got = json.loads(p.stdout.strip().splitlines()[-1])
        stale = [k for k, v in got.items() if v == "DIFFERS-FROM-FIRST-RENDER"]
        if stale:
            fails.append({"input": f"PYTHONHASHSEED={env['PYTHONHASHSEED']}, render order {order}, then each construction rendered once more at the end of the process",
                          "observed": f"{[k[:-6] for k in stale]} rendered differently the second time", "expected": "the same bytes regardless of what was rendered earlier"})
            break
        if ref is None:
            ref = got
        elif got != ref:
            diff = [k for k in sorted(got) if got.get(k) != ref.get(k)]
            fails.append({"input": f"PYTHONHASHSEED={env['PYTHONHASHSEED']}, render order {order}", "observed": f"digests of {diff} differ from the first process (seed 0, order {keys})",
                          "expected": "byte-identical output in every process and order"})
            break
    # names of head_content: a function of the rendered content only; injective on distinct contents
    core = R.core
    payloads = [core.Tag("title", "a"), core.Tag("title", "b"), "a", "a ", core.HTML("<a>"), "<a>", core.TagList("a", "b"), "ab", core.Tag("title", "a", _add_ws=False), core.Tag("meta", name="x"),
                core.Tag("meta", name="y"), core.TagList(core.Tag("title", "a"), core.Tag("meta")),
                # contents that differ only in characters an encoder might treat alike (unpaired surrogates, replacement characters)
                core.Tag("meta", content="?"), core.Tag("meta", content="\udc80"), core.Tag("meta", content="\ud800"), core.Tag("meta", content="\ufffd"), "\udc80", "?", "\ufffd"]
    by_content = {}
    for pl in payloads:
        checked += 1
        try:
            d1, d2 = core.head_content(pl), core.head_content(pl)
        except UnicodeEncodeError:
            continue          # refusing a content that cannot be encoded is not a merge
        content = core.TagList(pl).get_html_string()
        if d1.name != d2.name:
            fails.append({"input": "head_content(" + repr(content) + ") twice", "observed": [d1.name, d2.name], "expected": "equal names for equal content"})
        if not d1.name.startswith("headcontent_"):
            fails.append({"input": repr(content), "observed": d1.name, "expected": "headcontent_<digest>"})
        by_content.setdefault(content, set()).add(d1.name)
    names = {}
    for c, ns in by_content.items():
        for nm in ns:
            if nm in names and names[nm] != c:
                fails.append({"input": f"head_content payloads {names[nm]!r} and {c!r}", "observed": "same name " + nm, "expected": "different content is never merged"})
            names[nm] = c
    # names do not depend on the process-global render mode (history independence)
    import htmltools
    mode0 = htmltools.html_dependency_render_mode
    try:
        mk = lambda: core.head_content(core.Tag("script", "init()"), core.HTMLDependency("inner", "1.0", script={"src": "i.js"}, source={"subdir": "lib"}))
        n_default = mk().name
        htmltools.html_dependency_render_mode = "json"
        n_json = mk().name
        checked += 1
        if n_default != n_json:
            fails.append({"input": "head_content(<script>, dependency) built in the default mode and after html_dependency_render_mode = 'json'", "observed": [n_default, n_json],
                          "expected": "the same name: equal content regardless of what happened earlier in the process"})
    finally:
        htmltools.html_dependency_render_mode = mode0
    # equal content once per document, also when it arrives as serialised dependencies in a text document, in any arrangement (A, B, A)
    hc, other = core.head_content(core.Tag("title", "T")), core.head_content(core.Tag("title", "U"))
    for arrangement in ((hc, other, hc), (hc, hc, other), (other, hc, other, hc)):
        checked += 1
        txt = "<p>x</p>".join(str(x.serialize_to_script_json()) for x in arrangement) + "@@"
        out = core.HTMLTextDocument(txt, deps_replace_pattern="@@").render()
        nm = [d.name for d in out["dependencies"]]
        if out["html"].count("<title>T</title>") != 1 or out["html"].count("<title>U</title>") != 1 or nm.count(hc.name) != 1 or nm.count(other.name) != 1:
            fails.append({"input": "text document with serialised head_content items arranged " + "".join("T" if x is hc else "U" for x in arrangement),
                          "observed": f"T {out['html'].count('<title>T</title>')}x, U {out['html'].count('<title>U</title>')}x, names {[n[:16] for n in nm]}", "expected": "each once"})
    doc = core.HTMLDocument(core.Tag("div", core.head_content(core.Tag("title", "T")), core.head_content(core.Tag("title", "T")), core.head_content(core.Tag("title", "U")))).render()["html"]
    if doc.count("<title>T</title>") != 1 or doc.count("<title>U</title>") != 1:
        fails.append({"input": "document with head_content(title T) twice and head_content(title U)", "observed": doc[:400], "expected": "T once, U once"})
    return {"checked": checked, "nontrivial": checked, "failures": fails[:3], "processes": nproc}
