"""C10 oracle: dependencies collected from every nesting level in document order and resolved to one
per name (highest version, numeric not lexical; earliest on ties; names by first occurrence);
idempotent; placement independent; dedup=False keeps everything; constructor validation."""
import ocommon
from packaging.version import Version


def run(R, job):
    ctx = ocommon.Ctx(R, job)
    core, r = R.core, ctx.rnd
    n = job.get("n", 300)
    fails, checked, nontrivial, samples = [], 0, 0, []
    versions = ["1.9", "1.10", "1.10.0", "1.2", "2.0", "0.0", "10.0", "1.9.9", "1.10.1"]

    def mk(i):
        return core.HTMLDependency(r.choice(["a", "b", "c", "d"]), r.choice(versions), head=f"<!--{i}-->")

    def model(deps):
        order, best = [], {}
        for d in deps:
            if d.name not in best:
                order.append(d.name)
                best[d.name] = d
            elif Version(str(d.version)) > Version(str(best[d.name].version)):
                best[d.name] = d
        return [best[k] for k in order]

    def place(deps, depth):
        """a random tree containing exactly these dependencies in this document order"""
        items = list(deps)
        def build(d, chunk):
            kids = []
            i = 0
            while i < len(chunk):
                if d > 0 and r.random() < 0.4:
                    j = r.randint(i, len(chunk))
                    kids.append(build(d - 1, chunk[i:j]))
                    i = j
                else:
                    kids.append(chunk[i]); i += 1
                if r.random() < 0.3:
                    kids.append(r.choice(["t", core.HTML("<b>")]))
            return core.Tag(r.choice(["div", "span"]), *kids)
        return build(depth, items)

    for it in range(n):
        deps = [mk(i) for i in range(r.choice([0, 1, 2, 3, 5, 8]))]
        # the very same object several times, and distinct objects that are equal by value
        for _ in range(r.choice([0, 0, 1, 2, 3])):
            if deps:
                d0 = r.choice(deps)
                deps.insert(r.randint(0, len(deps)), d0 if r.random() < 0.6 else core.HTMLDependency(d0.name, str(d0.version), head=d0.head))
        t = place(deps, 3)
        t2 = place(deps, 2)
        checked += 1
        nontrivial += len({d.name for d in deps}) < len(deps)
        exp = model(deps)
        for tree in (t, t2, core.TagList(*deps)):
            got = tree.get_dependencies()
            if len(got) != len(exp) or any(a is not b for a, b in zip(got, exp)):
                fails.append({"input": f"deps {[(d.name, str(d.version)) for d in deps]} placed as {ctx.describe(tree)[:200]}",
                              "observed": [(d.name, str(d.version)) for d in got], "expected": [(d.name, str(d.version)) for d in exp]})
            raw = tree.get_dependencies(dedup=False)
            if len(raw) != len(deps) or any(a is not b for a, b in zip(raw, deps)):
                fails.append({"input": f"dedup=False on {ctx.describe(tree)[:200]}", "observed": [d.name for d in raw], "expected": [d.name for d in deps]})
        again = core.TagList(*exp).get_dependencies()
        if len(again) != len(exp) or any(a is not b for a, b in zip(again, exp)):
            fails.append({"input": "resolve(resolve(deps))", "observed": [d.name for d in again], "expected": [d.name for d in exp]})
        if len(samples) < 3:
            samples.append({"deps": [(d.name, str(d.version)) for d in deps]})
        if len(fails) >= 3:
            break
    # constructor validation and single-item normalisation
    D = core.HTMLDependency
    bad = [dict(source="x"), dict(source={"package": "p"}), dict(script="s.js"), dict(script=[{"src": "a.js"}, "b.js"]), dict(script={"href": "x"}),
           dict(stylesheet={"src": "x"}), dict(stylesheet=[1]), dict(meta={"name": "n"}), dict(meta={"content": "c"}), dict(meta=[{"name": "n", "content": "c"}, {}]),
           dict(script={}), dict(stylesheet={}), dict(meta={}), dict(script=[{}]), dict(script=0),
           # non-dict values that merely CONTAIN the key names
           dict(source="static/subdir/lib"), dict(source=["subdir", "www"]), dict(source={"subdir"}), dict(source=("href",)), dict(source="href"), dict(source=4),
           dict(source=[("subdir", "x")]), dict(script="src"), dict(script=["src"]), dict(script=[["src"]]), dict(stylesheet="href"), dict(stylesheet=[("href",)]),
           dict(meta=["name", "content"]), dict(meta="name content"), dict(meta=[("name", "content")]), dict(source={}), dict(source={"package": "htmltools", "href": None} if False else {"x": "subdir"})]
    for kw in bad:
        checked += 1
        try:
            D("n", "1.0", **kw)
            fails.append({"input": f"HTMLDependency('n', '1.0', **{kw!r})", "observed": "accepted", "expected": "TypeError/KeyError at construction"})
        except (TypeError, KeyError):
            pass
    good = [(dict(script={"src": "a.js"}), dict(script=[{"src": "a.js"}])), (dict(stylesheet={"href": "a.css"}), dict(stylesheet=[{"href": "a.css"}])),
            (dict(meta={"name": "n", "content": "c"}), dict(meta=[{"name": "n", "content": "c"}])), (dict(source={"href": "http://x/"}), dict(source={"href": "http://x/"})),
            (dict(source={"subdir": "lib"}), dict(source={"subdir": "lib"}))]
    for a, b in good:
        checked += 1
        try:
            if not (D("n", "1.0", **a) == D("n", "1.0", **b)):
                fails.append({"input": f"{a!r} vs {b!r}", "observed": "different objects", "expected": "identical results"})
        except Exception as ex:
            fails.append({"input": f"HTMLDependency('n', '1.0', **{a!r})", "observed": "EXC " + type(ex).__name__, "expected": "accepted"})
    return {"checked": checked, "nontrivial": nontrivial, "failures": fails[:3], "samples": samples}
