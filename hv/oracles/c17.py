"""C17 oracle: random nestings of `with tag:` blocks with displayed values and exceptions raised at random
points; after each block sys.displayhook must be the hook installed at its entry; displayed values are
appended in order under the child rules; each tag is handed exactly once, on exit, to the enclosing hook;
re-entering an active tag raises and leaves the hook chain intact."""
import sys
import ocommon


class Boom(Exception):
    pass


def run(R, job):
    ctx = ocommon.Ctx(R, job)
    core, r = R.core, ctx.rnd
    n = job.get("n", 300)
    fails, checked, nontrivial, samples = [], 0, 0, []

    class Rp:
        def _repr_html_(self): return "<repr/>"

    class Widget:
        "both protocols: tagify() (so it is a Tagifiable: kept as itself) and _repr_html_()"
        def tagify(self): return core.Tag("b", "w")
        def _repr_html_(self): return "<b>w</b>"

    class SRp(str):
        "a str subclass that is self-rendering: kept as HTML like every other _repr_html_ object"
        def _repr_html_(self): return "<srepr/>"

    class IRp(int):
        def _repr_html_(self): return "<irepr/>"

    class HookBoom(Exception):
        pass

    for it in range(n):
        outer_log = []
        raising_base = it % 5 == 4          # an enclosing hook that fails when it is handed a finished tag

        truthy_base = it % 3 == 1           # an ordinary hook that returns something (like stream.write does)

        def base(v):
            outer_log.append(v)
            if raising_base and isinstance(v, core.Tag):
                raise HookBoom()
            if truthy_base:
                return 7
        if it % 7 == 6:
            class FalsyHook(list):
                "a callable hook object that is falsy (an empty recorder)"
                def __call__(self, v): base_fn(v)
            base_fn = base
            base = FalsyHook()
        saved = sys.displayhook
        sys.displayhook = base
        tags = [core.Tag("div") for _ in range(4)]
        expected_kids = {id(t): [] for t in tags}
        active = []
        desc = []
        problems = []

        def block(depth):
            k = r.random()
            if depth <= 0 or k < 0.35:
                import collections
                v = r.choice(["text", 3, None, Ellipsis, Rp(), Widget(), core.Tag("span"), core.TagList("a"), {"bad": 1}, object(), b"<raw bytes>", range(3), collections.deque(["x"]), ["in", [b"list"]], 2.5,
                              SRp("plain <text>"), IRp(5), "", 0, False, " world", "\n    indented\n    lines\n", "\t", "  ", 0.0, core.HTML("<i>h</i>"), {1, 2}, 2 + 3j])
                desc.append(f"display({type(v).__name__})")
                target = active[-1] if active else None
                ok = True
                try:
                    sys.displayhook(v)
                except TypeError:
                    ok = False
                if target is None:
                    return
                acceptable = isinstance(v, (str, int, float, core.Tag, core.TagList, Rp, Widget, core.HTML))
                if v is None or v is Ellipsis:
                    if not ok: problems.append("None/Ellipsis raised")
                elif acceptable:
                    if not ok: problems.append(f"valid value {type(v).__name__} rejected")
                    if isinstance(v, (Rp, SRp, IRp)): expected_kids[id(target)].append(("html", v._repr_html_()))
                    elif isinstance(v, core.HTML): expected_kids[id(target)].append(("html", v.data))
                    elif isinstance(v, core.TagList): expected_kids[id(target)].extend(("obj", x) for x in v)
                    elif isinstance(v, (int, float)): expected_kids[id(target)].append(("obj", str(v)))
                    else: expected_kids[id(target)].append(("obj", v))
                else:
                    if ok: problems.append(f"invalid value {type(v).__name__} accepted")
                    else: raise TypeError("invalid displayed value")      # as the REPL would: the exception propagates
                return
            if k < 0.45:
                desc.append("raise")
                raise Boom()
            if k < 0.55 and active:
                t = r.choice(active)
                desc.append("re-enter active")
                before = sys.displayhook
                try:
                    with t:
                        problems.append("re-entering an active tag did not raise")
                except RuntimeError:
                    if sys.displayhook is not before:
                        problems.append("hook chain changed by a failed re-enter")
                return
            free = [t for t in tags if t.prev_displayhook is None]
            if not free:
                return
            t = r.choice(free)
            desc.append("with(")
            entry_hook = sys.displayhook
            parent = active[-1] if active else None
            leaving = []
            try:
                with t:
                    if sys.displayhook is entry_hook: problems.append("hook not replaced on enter")
                    active.append(t)
                    try:
                        for _ in range(r.choice([0, 1, 2, 3])):
                            block(depth - 1)
                    except BaseException as ex_:
                        leaving.append(type(ex_).__name__)
                        raise
                    finally:
                        active.pop()
                if leaving:
                    problems.append(f"a {leaving[0]} raised inside the block did not propagate out of it")
            finally:
                desc.append(")")
                if sys.displayhook is not entry_hook:
                    problems.append("hook after the block is not the hook at its entry")
                if parent is not None: expected_kids[id(parent)].append(("obj", t))
                else: outer_expect.append(t)

        outer_expect = []
        try:
            for _ in range(r.choice([1, 2, 3])):
                try:
                    block(3)
                except (Boom, TypeError, HookBoom):
                    desc.append("!exc")
        finally:
            final = sys.displayhook
            sys.displayhook = saved
        checked += 1
        nontrivial += desc.count("with(") >= 2
        if final is not base:
            problems.append("hook at the end is not the initial hook")
        for t in tags:
            got = []
            for x in t.children:
                got.append(("html", x.data) if isinstance(x, core.HTML) else ("obj", x))
            exp = expected_kids[id(t)]
            if len(got) != len(exp) or any(a[0] != b[0] or (a[1] is not b[1] and a[1] != b[1]) for a, b in zip(got, exp)):
                problems.append(f"children of a tag differ: got {len(got)} expected {len(exp)}")
        outer_tags = [x for x in outer_log if isinstance(x, core.Tag) and any(x is t for t in tags)]
        if len(outer_tags) != len(outer_expect) or any(a is not b for a, b in zip(outer_tags, outer_expect)):
            problems.append("tags handed to the outer hook differ")
        if problems:
            fails.append({"input": " ".join(desc)[:400], "observed": problems[:3], "expected": "hook restored, values collected in order, each tag delivered once"})
        if len(samples) < 3:
            samples.append({"program": " ".join(desc)[:200]})
        if len(fails) >= 3:
            break
    return {"checked": checked, "nontrivial": nontrivial, "failures": fails[:3], "samples": samples}
