"""C06 oracle: for validly nested trees the output equals the declarative line layout of the Tag
docstring (open line / one line per maximal run of non-block children / block children / close line,
two spaces per level, one line for empty and single-text tags), joined by eol; lists by the sibling rule."""
import ocommon


def isblock(ctx, n):
    return isinstance(n, ctx.core.Tag) and n.add_ws


def hasblock(ctx, n):
    return isinstance(n, ctx.core.Tag) and (n.add_ws or any(hasblock(ctx, k) for k in ctx.kids(n)))


def valid(ctx, n):
    if not isinstance(n, ctx.core.Tag):
        return True
    ks = ctx.kids(n)
    if not n.add_ws and any(hasblock(ctx, k) for k in ks):
        return False
    return all(valid(ctx, k) for k in ks)


def sib_lines(ctx, ks, lvl, e=True):
    out, run = [], []
    for k in ks:
        if isblock(ctx, k):
            if run:
                out.append("  " * lvl + "".join(ctx.flat(r, e) for r in run))
                run = []
            out += lines(ctx, k, lvl)
        else:
            run.append(k)
    if run:
        out.append("  " * lvl + "".join(ctx.flat(r, e) for r in run))
    return out


def lines(ctx, t, lvl):
    core = ctx.core
    ks = ctx.kids(t)
    I = "  " * lvl
    if not t.add_ws:
        return [I + ctx.flat(t)]
    if not ks or (len(ks) == 1 and isinstance(ks[0], (str, core.HTML))):
        return [I + ctx.flat(t)]
    return [I + ctx.opent(t) + ">"] + sib_lines(ctx, ks, lvl + 1, t.name not in ocommon.NOESC) + [I + "</" + t.name + ">"]


def run(R, job):
    ctx = ocommon.Ctx(R, job)
    core = R.core
    n = job.get("n", 300)
    fails, checked, nontrivial, samples = [], 0, 0, []
    for it in range(n * 3):
        if checked >= n:
            break
        t = ctx.rtree(4)
        if not isinstance(t, core.Tag) or not valid(ctx, t):
            continue
        ind = ctx.rnd.choice([0, 1, 2, 5])
        eol = ctx.rnd.choice(["\n", "\r\n", "<EOL>", ""])
        checked += 1
        try:
            got = t.get_html_string(indent=ind, eol=eol)
        except Exception as ex:
            got = "EXC:" + type(ex).__name__
        ls = lines(ctx, t, ind)
        if len(ls) > 1:
            nontrivial += 1
        exp = eol.join(ls)
        if len(samples) < 3:
            samples.append({"tree": ctx.describe(t)[:300], "indent": ind, "eol": eol, "lines": len(ls)})
        if got != exp:
            fails.append({"input": ctx.describe(t), "indent": ind, "eol": eol, "observed": got, "expected": exp})
        # top-level list
        ks = [k for k in t.children]
        tl = core.TagList(); tl.data = ks
        try:
            got = tl.get_html_string(indent=ind, eol=eol)
        except Exception as ex:
            got = "EXC:" + type(ex).__name__
        exp = eol.join(sib_lines(ctx, ctx.kids(t), ind))
        if got != exp:
            fails.append({"input": ctx.describe(tl), "indent": ind, "eol": eol, "observed": got, "expected": exp})
        if len(fails) >= 3:
            break
    return {"checked": checked, "nontrivial": nontrivial, "failures": fails[:3], "samples": samples}
