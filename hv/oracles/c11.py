"""C11 oracle: HTMLDocument.render() yields '<!DOCTYPE html>' + one <html> (the user's own if it is the sole content,
else a new one whose <body> is the user's sole <body> or wraps the content) with exactly one <head> child that starts
with <meta charset="utf-8"/>, keeps the user's head content, then the dependency listing and each dependency's meta,
link, script and head markup once in resolved order; the returned list is the resolved list."""
import re
from html.parser import HTMLParser
import ocommon


class P(HTMLParser):
    def __init__(s):
        super().__init__(convert_charrefs=True)
        s.stack, s.root = [], None
        s.doctype = None

    def handle_decl(s, d): s.doctype = d
    def handle_starttag(s, t, a):
        n = {"t": t, "a": a, "k": []}
        if s.stack: s.stack[-1]["k"].append(n)
        else: s.root = s.root or n
        if t not in ocommon.VOID: s.stack.append(n)
    def handle_startendtag(s, t, a):
        n = {"t": t, "a": a, "k": []}
        if s.stack: s.stack[-1]["k"].append(n)
    def handle_endtag(s, t):
        if s.stack and s.stack[-1]["t"] == t: s.stack.pop()
    def handle_data(s, d):
        if s.stack and d.strip(): s.stack[-1]["k"].append({"t": "#text", "d": d.strip(), "k": []})


def run(R, job):
    ctx = ocommon.Ctx(R, job)
    core, r = R.core, ctx.rnd
    tags = R.h.tags
    n = job.get("n", 300)
    fails, checked, nontrivial, samples = [], 0, 0, []

    def dep(i):
        # every line of a dependency's markup is unique to (name, version, i), so that it can be located in the document
        nm, ver = r.choice(["a", "b", "c"]), r.choice(["1.0", "1.2", "1.10"])
        u = f"{nm}-{ver}-{i}"
        kw = {}
        if r.random() < 0.6: kw["script"] = {"src": f"s{u}.js"}
        if r.random() < 0.4: kw["stylesheet"] = [{"href": f"c{u}.css"}]
        if r.random() < 0.3: kw["meta"] = {"name": f"m{u}", "content": "c"}
        if r.random() < 0.3: kw["head"] = f"<!--head{u}-->"
        return core.HTMLDependency(nm, ver, source={"subdir": "lib"}, **kw)

    def frag(d):
        kids = []
        for _ in range(r.choice([0, 1, 2, 3])):
            k = r.random()
            if k < 0.3: kids.append(r.choice(["text", "b&c"]))
            elif k < 0.55: kids.append(dep(r.randint(0, 5)))
            elif k < 0.65: kids.append(core.head_content(core.Tag("title", "T" + str(r.randint(0, 2)))))
            elif d > 0: kids.append(core.Tag(r.choice(["div", "p", "span"]), *frag(d - 1)))
        return kids

    for _ in range(n):
        shape = r.choice(["fragment", "list", "body", "html", "html+head", "html head later", "html no body", "appended", "body beside deps", "html beside deps"])
        attrs = r.choice([{}, {"lang": "en"}, {"lang": "en", "class_": "x y"}])
        # the user's own head content: anything, including a charset declaration of its own in any position
        user_head_kids = [core.Tag("title", "t"), core.Tag("meta", name="x"), core.Tag("meta", charset="latin-1"), core.Tag("link", rel="icon", href="i.png"),
                          core.Tag("meta", charset="utf-8")]
        r.shuffle(user_head_kids)
        user_head_kids = user_head_kids[: r.choice([0, 1, 2, 3, 5])]
        if shape == "fragment":
            content = [core.Tag("div", *frag(2))]
        elif shape == "list":
            content = frag(2) + [core.Tag("p", "x")]
        elif shape == "body":
            content = [core.Tag("body", *frag(2), class_="b")]
        elif shape == "html":
            content = [core.Tag("html", core.Tag("body", *frag(2)))]
        elif shape == "html+head":
            content = [core.Tag("html", core.Tag("head", *user_head_kids, id="uh", data_k="v"), core.Tag("body", *frag(2)))]
        elif shape == "html head later":
            content = [core.Tag("html", dep(9), core.Tag("body", *frag(1)), core.Tag("head", *user_head_kids))]
        elif shape == "html no body":
            content = [core.Tag("html", *frag(1))]
        elif shape == "body beside deps":
            # a <body> (or <html>) with dependencies / head_content items next to it at the top level: whatever the layout, every dependency is hoisted and reported
            content = [dep(8)][: r.choice([0, 1])] + [core.Tag("body", *frag(1), class_="b"), dep(7), core.head_content(core.Tag("title", "TT"))][: r.choice([2, 3])]
        elif shape == "html beside deps":
            content = [dep(8)][: r.choice([0, 1])] + [core.Tag("html", core.Tag("body", *frag(1))), dep(7)]
        else:
            content = []
        doc = core.HTMLDocument(*content, **attrs)
        if shape == "appended":
            doc.render(lib_prefix=r.choice(["lib", None, "x/y"]), include_version=r.random() < 0.5)      # an earlier render must not be remembered
            doc.render()
            doc.append(core.Tag("div", *frag(2)), dep(7))
            content = list(doc._content)
        lp = r.choice(["lib", None, "x/y"])
        iv = r.random() < 0.5
        checked += 1
        try:
            res = doc.render(lib_prefix=lp, include_version=iv)
        except Exception as ex:
            fails.append({"input": shape, "observed": "EXC " + type(ex).__name__ + str(ex)[:80], "expected": "a document"})
            continue
        html = res["html"]
        problems = []
        if not html.startswith("<!DOCTYPE html>\n<html"):
            problems.append("does not start with the doctype followed by <html>")
        p = P(); p.feed(html); p.close()
        root = p.root
        if root is None or root["t"] != "html" or (html.count("<html") != 1 and shape != "html beside deps"):
            problems.append("not exactly one <html> root")
        else:
            heads = [k for k in root["k"] if k["t"] == "head"]
            expect_heads = max(1, sum(1 for k in (content[0].children if shape.startswith("html") and "beside" not in shape else []) if isinstance(k, core.Tag) and k.name == "head"))
            if len(heads) != expect_heads:
                problems.append(f"{len(heads)} <head> children")
            elif shape == "html+head" and dict(heads[0]["a"]).get("id") != "uh":
                problems.append("the user's own <head> (its attributes) was not kept")
            elif not heads[0]["k"] or heads[0]["k"][0]["t"] != "meta" or dict(heads[0]["k"][0]["a"]).get("charset") != "utf-8":
                problems.append("head does not start with <meta charset=utf-8>")
            elif shape in ("html+head", "html head later"):
                # the user's head content is kept, in order, after the charset declaration the document adds
                mine = [(k.name, sorted((a, str(v)) for a, v in k.attrs.items())) for k in user_head_kids]
                theirs = [(k["t"], sorted((a, str(v)) for a, v in k["a"])) for k in heads[0]["k"][1:]]
                it_ = iter(theirs)
                if not all(any(x == y for y in it_) for x in mine):
                    problems.append(f"the user's head content {mine} is not kept in order after the added charset declaration: {theirs[:8]}")
            if shape in ("fragment", "list", "body", "appended"):
                bodies = [k for k in root["k"] if k["t"] == "body"]
                if len(bodies) != 1:
                    problems.append(f"{len(bodies)} <body> children")
                elif shape == "body" and dict(bodies[0]["a"]).get("class") != "b":
                    problems.append("the user's <body> tag was not used as the body")
            for k, v in attrs.items():
                if dict(root["a"]).get(k.rstrip("_")) != v:
                    problems.append(f"html attribute {k} missing")
        # dependencies: resolved list == independent resolution of the document-order collection
        def walk_deps(x, acc):
            "document order, every nesting level (independent of get_dependencies)"
            if isinstance(x, core.HTMLDependency):
                acc.append(x)
            elif isinstance(x, core.Tag):
                for k in x.children: walk_deps(k, acc)
            elif isinstance(x, (core.TagList, list, tuple)):
                for k in x: walk_deps(k, acc)
            return acc
        all_deps = walk_deps(core.TagList(*content).tagify(), [])
        order, best = [], {}
        from packaging.version import Version
        for d in all_deps:
            if d.name not in best:
                order.append(d.name); best[d.name] = d
            elif Version(str(d.version)) > Version(str(best[d.name].version)):
                best[d.name] = d
        exp = [best[k] for k in order]
        got = res["dependencies"]
        if [(d.name, str(d.version)) for d in got] != [(d.name, str(d.version)) for d in exp]:
            problems.append(f"returned dependencies {[(d.name, str(d.version)) for d in got]} != resolved {[(d.name, str(d.version)) for d in exp]}")
        listing = re.findall(r'<script type="application/html-dependencies">(.*?)</script>', html)
        want_listing = ";".join(d.name + "[" + str(d.version) + "]" for d in exp)
        if exp and listing != [want_listing]:
            problems.append(f"listing {listing} != [{want_listing!r}]")
        if not exp and listing:
            problems.append("listing without dependencies")
        if exp and root is not None:
            nontrivial += 1
            headhtml = html.split("</head>")[0]
            pos = -1
            for d in exp:
                piece = d.as_html_tags(lib_prefix=lp, include_version=iv).get_html_string(indent=2)
                # compare line by line, ignoring indentation: adjacent inline pieces (e.g. two head comments) share a line in the document
                plines = [l.strip() for l in piece.splitlines() if l.strip()]
                if not plines:
                    continue
                bad = None
                for l in plines:
                    if html.count(l) != 1:
                        bad = f"markup line {l!r} of dependency {d.name} occurs {html.count(l)} times"
                    elif l not in headhtml:
                        bad = f"markup of dependency {d.name} is not inside the first head"
                if bad:
                    problems.append(bad)
                    break
                np_ = html.index(plines[0])
                if np_ < pos:
                    problems.append("dependency markup not in resolved order")
                pos = np_
            body_part = html.split("</head>", 1)[1] if "</head>" in html else ""
            if 'data-html-dependency' in body_part or "application/html-dependencies" in body_part:
                problems.append("dependency markup outside head")
        if problems:
            fails.append({"input": shape + " " + str(attrs) + f" lib_prefix={lp!r} include_version={iv}", "observed": problems[:3], "markup": html[:500], "expected": "document structure of C11"})
        if len(samples) < 3:
            samples.append({"shape": shape, "deps": [(d.name, str(d.version)) for d in exp]})
        if len(fails) >= 3:
            break
    # contents appended later give the document the same contents given at construction would - whatever they are (falsy values, several at once, nothing)
    for extra in ((0,), (0.0,), (False,), ("",), (0, ""), ([],), (None,), ("a", 0), (core.Tag("i"), None, 0), ([0, [""]],)):
        checked += 1
        try:
            d1 = core.HTMLDocument(core.Tag("p", "x")); d1.append(*extra)
            d2 = core.HTMLDocument(core.Tag("p", "x"), *extra)
            h1, h2 = d1.render()["html"], d2.render()["html"]
        except Exception as ex:
            fails.append({"input": f"HTMLDocument(p('x')).append(*{extra!r})", "observed": "EXC " + type(ex).__name__ + ": " + str(ex)[:100], "expected": "a document"})
            continue
        if h1 != h2:
            fails.append({"input": f"HTMLDocument(p('x')).append(*{extra!r}) vs HTMLDocument(p('x'), *{extra!r})", "observed": h1[-200:], "expected": h2[-200:]})
    return {"checked": checked, "nontrivial": nontrivial, "failures": fails[:3], "samples": samples}
