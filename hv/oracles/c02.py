"""C02 oracle: a plain string child, however it is added, is emitted with & < > replaced by references
that decode to them and everything else unchanged; numbers as their str() text; html_escape() same map."""
import html as htmlmod
import ocommon

META = ["&", "<", ">", "&amp;", "<!--", "-->", "<![CDATA[", "</div>", "&#38;", "&lt", ";", "a", " ", "\n", "é", "\U0001F600", '"', "'"]


def expected(s):
    return "".join({"&": "&amp;", "<": "&lt;", ">": "&gt;"}.get(c, c) for c in s)


def run(R, job):
    ctx = ocommon.Ctx(R, job)
    core, util, r = R.core, R.util, ctx.rnd
    n = job.get("n", 300)
    fails, checked, distinct, samples = [], 0, set(), []

    class Tg:
        def __init__(self, x): self.x = x
        def tagify(self): return self.x

    def ways(s):
        yield "ctor", core.Tag("div", s)
        yield "nested", core.Tag("div", [[s], ()], None)
        t = core.Tag("div"); t.append(s); yield "append", t
        t = core.Tag("div"); t.extend([s]); yield "extend", t
        t = core.Tag("div", core.Tag("br")); t.insert(0, s); yield "insert", t
        t = core.Tag("div"); t.extend(x for x in [s]); yield "extend-generator", t
        t = core.Tag("div"); t.extend(iter([s])); yield "extend-iterator", t
        t = core.Tag("div"); t.children.extend(map(str, [s])); yield "children-extend-map", t
        t = core.Tag("div"); t.append(None, [s]); yield "append-several", t
        t = core.Tag("div"); t.children += (x for x in [s]); yield "iadd-generator", t
        t = core.Tag("div"); t.children = core.TagList(s); yield "children", t
        yield "tagify", core.Tag("div", Tg(s)).tagify()
        yield "tagify-list", core.Tag("div", Tg(core.TagList(s))).tagify()
        yield "inline-parent", core.Tag("span", s, _add_ws=False)
        yield "siblings", core.Tag("div", core.Tag("b", "x"), s, core.Tag("i"))
        dep = core.HTMLDependency("d", "1.0")
        yield "after-metadata", core.Tag("div", dep, s)
        yield "before-metadata", core.Tag("div", s, core.MetadataNode())
        t = core.Tag("div", s); t.insert(0, core.MetadataNode()); yield "metadata-inserted-first", t
        yield "tagify-dep-text", core.Tag("div", Tg(core.TagList(dep, s))).tagify()
        yield "inline-after-metadata", core.Tag("span", dep, s, _add_ws=False)
        yield "list", core.TagList(s)
        # next to trusted markup and self-rendering objects: the plain string is escaped all the same
        yield "after-html", core.Tag("div", core.HTML("<i>h</i>"), s)
        yield "after-repr", core.Tag("div", ctx.reprobj("<r/>"), s)
        yield "between-html", core.Tag("span", core.HTML("<i>"), s, core.HTML("</i>"), s, _add_ws=False)
        yield "list-after-html", core.TagList(core.HTML("<hr>"), s, ctx.reprobj("<r/>"), s)
        yield "after-script", core.Tag("div", core.Tag("script", "a<b"), s)
        yield "after-empty-html", core.Tag("div", core.HTML(""), s, _add_ws=False)
        yield "deep", core.Tag("div", core.Tag("p", core.Tag("span", s, _add_ws=False)))
        for nm in ("textarea", "title", "pre", "noscript", "option", "xmp"):
            yield "name:" + nm, core.Tag(nm, s)
            yield "name2:" + nm, core.Tag(nm, s, core.Tag("b", _add_ws=False), _add_ws=False)
    strs = [("".join(r.choice(META + ctx.texts) for _ in range(r.choice([1, 1, 2, 3, 5])))) for _ in range(n)] + META + [s for s in ctx.texts]
    # long strings: many metacharacters in one string (every one of them is escaped, not only the first few)
    strs += ["".join(r.choice(["<", ">", "&", "a", " "]) for _ in range(r.choice([12, 20, 40, 70]))) for _ in range(max(4, n // 20))] + ["1<2, 2<3, 3<4, 4<5, 5<6, 6<7, 7<8, 8<9; <script>alert(1)</script>", "&" * 33, "label:   "]
    for s in strs:
        e = expected(s)
        if util.html_escape(s) != e or htmlmod.unescape(e) != s and "&" not in s:
            fails.append({"input": f"html_escape({s!r})", "observed": util.html_escape(s), "expected": e})
        for how, t in ways(s):
            checked += 1
            distinct.add((how, s))
            out = t.get_html_string()
            ok = e in out and out.count("<") == out.count("</") * 2 - (0) if False else e in out
            # exact expectation for the simple shapes
            if how in ("after-metadata", "before-metadata", "metadata-inserted-first", "tagify-dep-text"):
                ok = out == "<div>" + e + "</div>"
            elif how == "inline-after-metadata":
                ok = out == "<span>" + e + "</span>"
            elif how == "list":
                ok = out == e
            elif how == "after-html":
                ok = out == "<div>\n  <i>h</i>" + e + "\n</div>"
            elif how == "after-repr":
                ok = out == "<div>\n  <r/>" + e + "\n</div>"
            elif how == "between-html":
                ok = out == "<span><i>" + e + "</i>" + e + "</span>"
            elif how == "list-after-html":
                ok = out == "<hr>" + e + "<r/>" + e
            elif how == "after-script":
                ok = out == "<div>\n  <script>a<b</script>\n  " + e + "\n</div>"
            elif how == "after-empty-html":
                ok = out == "<div>" + e + "</div>"
            elif how == "deep":
                ok = out == "<div>\n  <p>\n    <span>" + e + "</span>\n  </p>\n</div>"
            elif how in ("ctor", "nested", "append", "extend", "children", "tagify", "tagify-list", "extend-generator", "extend-iterator", "children-extend-map", "append-several", "iadd-generator"):
                ok = out == "<div>" + e + "</div>"
            elif how.startswith("name:"):
                ok = out == "<" + how[5:] + ">" + e + "</" + how[5:] + ">"
            elif how.startswith("name2:"):
                ok = out == "<" + how[6:] + ">" + e + "<b></b></" + how[6:] + ">"
            elif how == "inline-parent":
                ok = out == "<span>" + e + "</span>"
            elif how == "insert":
                ok = out == "<div>\n  " + e + "\n  <br/>\n</div>"
            elif how == "siblings":
                ok = out == "<div>\n  <b>x</b>\n  " + e + "\n  <i></i>\n</div>"
            if not ok:
                fails.append({"input": f"{how}: {ctx.describe(t)}", "observed": out, "expected_segment": e})
            if len(samples) < 3:
                samples.append({"how": how, "s": s, "out": out[:120]})
        if len(fails) >= 3:
            break
    # numbers are rendered as their str() text UNDER THE SAME RULE: also numbers whose str() contains metacharacters
    class PValue(float):
        def __str__(self): return "<0.001 & falling"
    class Flag(int):
        def __str__(self): return "<Flag.A: 1>"
    for num, adders in ((PValue(0.00004), "ctor append list"), (Flag(1), "ctor append list")):
        e = expected(str(num))
        for how, t in (("ctor", core.Tag("td", num)), ("append", (lambda x: (x.append(num), x)[1])(core.Tag("td"))), ("list", core.Tag("td", [num]))):
            checked += 1
            out = t.get_html_string()
            if out != "<td>" + e + "</td>":
                fails.append({"input": f"{how}: a {type(num).__name__} child whose str() is {str(num)!r}", "observed": out, "expected": "<td>" + e + "</td>"})
    for num in (0, 1, -5, 2.5, 1e21, True):
        checked += 1
        out = core.Tag("div", num).get_html_string()
        if out != "<div>" + expected(str(num)) + "</div>":
            fails.append({"input": f"Tag('div', {num!r})", "observed": out, "expected": "<div>" + str(num) + "</div>"})
    if job.get("n", 0) >= 1000:      # thorough: every code point through the exported html_escape
        import htmltools
        for cp in range(0x110000):
            c = chr(cp)
            checked += 1
            if htmltools.html_escape(c) != expected(c):
                fails.append({"input": f"html_escape(chr({cp}))", "observed": htmltools.html_escape(c), "expected": expected(c)})
                break
    return {"checked": checked, "nontrivial": len(distinct), "failures": fails[:3], "samples": samples}
