"""Shared pieces of the executable property oracles.  These run inside hv/realrun.py under the
baseline interpreter against the REAL code.  They are independent readings of the property
statements: nothing here is derived from the L1 specs or from constants of the code under test."""
import random

VOID = {"area", "base", "br", "col", "command", "embed", "hr", "img", "input", "keygen", "link", "meta", "param", "source", "track", "wbr"}
NOESC = {"script", "style"}
BLOCK = ["div", "p", "ul", "section", "hr", "meta", "link", "h1", "html", "body", "head", "script", "style"]
INL = ["span", "a", "b", "i", "br", "img", "input", "wbr", "em"]
TEXTS = ["a", "<x>", "&amp;", " sp ", "\n", "a\nb", "", "é ", "]]>", "<!--", "&lt", '"q\'', "</div>", "x" * 3]


def esc(s):
    return "".join({"&": "&amp;", "<": "&lt;", ">": "&gt;"}.get(c, c) for c in s)


def esca(s):
    return "".join({"&": "&amp;", "<": "&lt;", ">": "&gt;", '"': "&quot;", "'": "&apos;", "\r": "&#13;", "\n": "&#10;"}.get(c, c) for c in s)


class Ctx:
    def __init__(self, R, job):
        self.R = R
        self.core = R.core
        self.rnd = random.Random(job.get("seed", 0))
        self.texts = list(TEXTS) + [s for s in job.get("atoms", {}).get("Str", []) if isinstance(s, str)]
        self.extra_nodes = job.get("atoms", {}).get("Node", [])

    def reprobj(self, s):
        o = self.R.ReprObj(s, 100)
        # a self-rendering object is any object with _repr_html_(): it may well carry attributes that happen to be named like a tag's
        # (add_ws, name, attrs, children) - they mean nothing to the renderer
        k = self.rnd.random()
        if k < 0.15:
            o.add_ws = True
        elif k < 0.25:
            o.add_ws, o.name, o.attrs, o.children = self.rnd.choice([True, False]), "div", {"class": "x"}, ["kid"]
        elif k < 0.3:
            o.name, o.data = "script", "<data>"
        return o

    def rtree(self, d, meta=True, objs=True, blocks=True, names=None):
        core, r = self.core, self.rnd
        if self.extra_nodes and r.random() < 0.15:
            try:
                return self.R.dec(r.choice(self.extra_nodes))
            except Exception:
                pass
        if d <= 0 or r.random() < 0.35:
            k = r.random()
            if k < 0.55:
                return r.choice(self.texts)
            if k < 0.7:
                return core.HTML(r.choice(["<b>r</b>", "&raw;", "", "\n"]))
            if k < 0.85 and meta:
                return core.MetadataNode() if r.random() < 0.5 else core.HTMLDependency("dep" + str(r.randint(0, 2)), "1." + str(r.randint(0, 3)))
            if objs:
                return self.reprobj(r.choice(["<r/>", "obj", ""]))
            return r.choice(self.texts)
        blk = blocks and r.random() < 0.5
        name = r.choice(names or (BLOCK if blk else INL))
        if names is None and r.random() < 0.15:
            name = r.choice(BLOCK + INL)          # any name with any whitespace flag (inline <script>, block <span>, ...)
        n = r.choice([0, 0, 1, 1, 2, 3, 4])
        kids = [self.rtree(d - 1, meta, objs, blocks, names) for _ in range(n)]
        at = {}
        for _ in range(r.choice([0, 0, 1, 2, 3])):
            at[r.choice(["id", "class", "data-x", "x_y", "z_"])] = r.choice(self.texts + [True, None, False, 3, core.HTML("&h;")])
        return core.Tag(name, *kids, at, _add_ws=blk)

    # ---- independent declarative functions on REAL objects ----
    def kids(self, t):
        return [k for k in t.children if not isinstance(k, self.core.MetadataNode)]

    def opent(self, t):
        return "<" + t.name + "".join(f' {k}="{v.data if isinstance(v, self.core.HTML) else esca(v)}"' for k, v in t.attrs.items())

    def flat(self, n, e=True):
        core = self.core
        if isinstance(n, core.Tag):
            ks = self.kids(n)
            if not ks and n.name in VOID:
                return self.opent(n) + "/>"
            ee = n.name not in NOESC
            return self.opent(n) + ">" + "".join(self.flat(k, ee) for k in ks) + "</" + n.name + ">"
        if isinstance(n, core.HTML):
            return n.data
        if isinstance(n, str):
            return esc(n) if e else n
        return n._repr_html_()

    def allinline(self, n):
        core = self.core
        if isinstance(n, core.Tag):
            return (not n.add_ws) and all(self.allinline(k) for k in self.kids(n))
        return True

    def describe(self, n):
        core = self.core
        if isinstance(n, core.Tag):
            a = ", ".join(f"{k!r}: {('HTML(%r)' % v.data) if isinstance(v, core.HTML) else repr(v)}" for k, v in n.attrs.items())
            ch = ", ".join(self.describe(k) for k in n.children)
            return f"Tag({n.name!r}, {{{a}}}, {ch}{', ' if ch else ''}_add_ws={n.add_ws})"
        if isinstance(n, core.HTML):
            return f"HTML({n.data!r})"
        if isinstance(n, core.HTMLDependency):
            return f"HTMLDependency({n.name!r}, {str(n.version)!r})"
        if isinstance(n, core.MetadataNode):
            return "MetadataNode()"
        if isinstance(n, core.TagList):
            return "TagList(" + ", ".join(self.describe(k) for k in n) + ")"
        if isinstance(n, str):
            return repr(n)
        if hasattr(n, "_repr_html_"):
            return f"ReprObj({n._repr_html_()!r})"
        return repr(n)
