"""C05 oracle: every all-inline subtree renders as its exact flat concatenation, contiguously, wherever
it is placed (block-inside-inline nestings included); adjacent inline siblings have nothing between."""
import ocommon


def subs(ctx, n):
    yield n
    if isinstance(n, ctx.core.Tag):
        for k in ctx.kids(n):
            yield from subs(ctx, k)


def run(R, job):
    ctx = ocommon.Ctx(R, job)
    core = R.core
    n = job.get("n", 300)
    fails, checked, nontrivial, samples = [], 0, 0, []
    for it in range(n):
        t = ctx.rtree(4)
        if not isinstance(t, core.Tag):
            continue
        ind = ctx.rnd.choice([0, 2])
        eol = ctx.rnd.choice(["\n", "@@", ""])
        try:
            s = t.get_html_string(indent=ind, eol=eol)
        except Exception as ex:
            fails.append({"input": ctx.describe(t), "observed": "EXC:" + type(ex).__name__, "expected": "a string"})
            continue
        checked += 1
        if len(samples) < 3:
            samples.append({"tree": ctx.describe(t)[:300], "indent": ind, "eol": eol})
        for u in subs(ctx, t):
            if isinstance(u, core.Tag) and ctx.allinline(u):
                nontrivial += 1
                f = ctx.flat(u)
                if f not in s:
                    fails.append({"input": ctx.describe(t), "indent": ind, "eol": eol, "subtree": ctx.describe(u), "expected_substring": f, "observed": s})
            if isinstance(u, core.Tag):
                ks = ctx.kids(u)
                ee = u.name not in ocommon.NOESC
                if len(ks) >= 2:
                    for a, b in zip(ks, ks[1:]):
                        if ctx.allinline(a) and ctx.allinline(b):
                            pair = ctx.flat(a, ee) + ctx.flat(b, ee)
                            if pair not in s:
                                fails.append({"input": ctx.describe(t), "indent": ind, "eol": eol, "siblings": [ctx.describe(a), ctx.describe(b)],
                                              "expected_substring": pair, "observed": s})
        if len(fails) >= 3:
            break
    return {"checked": checked, "nontrivial": nontrivial, "failures": fails[:3], "samples": samples}
