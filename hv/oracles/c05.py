"""C05 oracle: every all-inline subtree renders as its exact flat concatenation, contiguously, wherever
it is placed (block-inside-inline nestings included); adjacent inline siblings have nothing between."""
import ocommon


def subs(ctx, n):
    yield n
    if isinstance(n, ctx.core.Tag):
        for k in ctx.kids(n):
            yield from subs(ctx, k)


def skeleton(ctx, n, counter):
    """the same tree shape with whitespace-free, unique leaves and unique tag names: returns (tree, {name: add_ws})"""
    core = ctx.core
    if isinstance(n, core.Tag):
        counter[0] += 1
        nm = f"t{counter[0]}"
        flags = {nm: n.add_ws}
        kids = []
        for k in n.children:
            if isinstance(k, core.MetadataNode):
                kids.append(k)
                continue
            t, f = skeleton(ctx, k, counter)
            kids.append(t)
            flags.update(f)
        return core.Tag(nm, *kids, _add_ws=n.add_ws), flags
    counter[0] += 1
    return core.HTML(f"§{counter[0]}§"), {}


def ws_placement_ok(out, flags):
    """clause (d): every whitespace run of the layout touches the open or close tag of a whitespace-enabled tag"""
    import re
    toks = re.findall(r"</?t\d+[^>]*>|§\d+§|[ \n]+", out)
    if "".join(toks) != out:
        return False, "unexpected characters in skeleton rendering"
    for i, t in enumerate(toks):
        if t.strip() == "" and t != "":
            near = []
            for j in (i - 1, i + 1):
                if 0 <= j < len(toks):
                    m = re.match(r"</?(t\d+)", toks[j])
                    if m:
                        near.append(flags.get(m.group(1), False))
            if not any(near):
                return False, f"whitespace {t!r} at token {i} is not next to a whitespace-enabled tag"
    return True, ""


def run(R, job):
    ctx = ocommon.Ctx(R, job)
    core = R.core
    n = job.get("n", 300)
    fails, checked, nontrivial, samples = [], 0, 0, []
    for it in range(n):
        t = ctx.rtree(4)
        if not isinstance(t, core.Tag):
            continue
        ind = ctx.rnd.choice([0, 2])
        eol = ctx.rnd.choice(["\n", "@@", ""])
        try:
            s = t.get_html_string(indent=ind, eol=eol)
        except Exception as ex:
            fails.append({"input": ctx.describe(t), "observed": "EXC:" + type(ex).__name__, "expected": "a string"})
            continue
        checked += 1
        if len(samples) < 3:
            samples.append({"tree": ctx.describe(t)[:300], "indent": ind, "eol": eol})
        if ctx.allinline(t) and it % 3 == 0:
            # wherever the subtree is placed: as the document's own <body> (whitespace-disabled) and inside a document
            f = ctx.flat(t)
            b = core.Tag("body", *t.children, _add_ws=False)
            for how, doc in (("HTMLDocument(<body _add_ws=False> of the subtree's children)", core.HTMLDocument(b)), ("HTMLDocument(subtree)", core.HTMLDocument(t))):
                if t.name == "html" and how == "HTMLDocument(subtree)":
                    continue           # a lone <html> tag IS the document: a <head> is inserted into it
                try:
                    dh = doc.render()["html"]
                except Exception:
                    continue
                want = ctx.flat(b) if "body _add_ws" in how else f
                if want not in dh:
                    fails.append({"input": how + ": " + ctx.describe(t), "expected_substring": want, "observed": dh[:600]})
        for u in subs(ctx, t):
            if isinstance(u, core.Tag) and ctx.allinline(u):
                nontrivial += 1
                f = ctx.flat(u)
                if f not in s:
                    fails.append({"input": ctx.describe(t), "indent": ind, "eol": eol, "subtree": ctx.describe(u), "expected_substring": f, "observed": s})
            if isinstance(u, core.Tag):
                ks = ctx.kids(u)
                ee = u.name not in ocommon.NOESC
                if len(ks) >= 2:
                    for a, b in zip(ks, ks[1:]):
                        if ctx.allinline(a) and ctx.allinline(b):
                            pair = ctx.flat(a, ee) + ctx.flat(b, ee)
                            if pair not in s:
                                fails.append({"input": ctx.describe(t), "indent": ind, "eol": eol, "siblings": [ctx.describe(a), ctx.describe(b)],
                                              "expected_substring": pair, "observed": s})
        # clause (d) on the skeleton of the same tree (any nesting, block inside inline included)
        sk, flags = skeleton(ctx, t, [0])
        try:
            out = sk.get_html_string(indent=0, eol="\n")
            ok, why = ws_placement_ok(out, flags)
            if not ok:
                fails.append({"input": ctx.describe(sk), "indent": 0, "eol": "\n", "observed": out, "expected": "layout whitespace only next to tags of whitespace-enabled elements: " + why})
        except Exception as ex:
            pass
        if len(fails) >= 3:
            break
    return {"checked": checked, "nontrivial": nontrivial, "failures": fails[:3], "samples": samples}
