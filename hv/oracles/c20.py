"""C20 oracle (bounded, independent reading of the statement, run against the real code):
(a) converting a JSX component (tagify()/str()) leaves the component and everything reachable from it unchanged, any number of times;
(b) the result is one <script> element carrying react and react-dom (whose script files exist) plus every metadata node found among
    its children, nested tags and components, props whose value is a tag or component, and the expansions of tagifiable descendants;
(c) the React.createElement expression mirrors the component: each prop once under its normalised name with None / booleans / numbers /
    strings / lists / dicts / jsx() expressions / tags as the corresponding JavaScript, each child once in order, nesting preserved,
    strings free of backslashes and line breaks as double-quoted literals denoting the original text;
(d) a prop outside a declared allow-list is rejected at construction."""
import os
import re
import ocommon


class JS:
    """a small reader of the generated expression: React.createElement(NAME [, {props} [, child ...]])"""
    def __init__(self, s):
        self.s, self.i = s, 0

    def ws(self):
        while self.i < len(self.s) and self.s[self.i] in " \n\r\t":
            self.i += 1

    def eat(self, t):
        self.ws()
        if not self.s.startswith(t, self.i):
            raise ValueError(f"expected {t!r} at {self.i}: {self.s[self.i:self.i + 30]!r}")
        self.i += len(t)

    def peek(self, t):
        self.ws()
        return self.s.startswith(t, self.i)

    def string(self):
        self.eat('"')
        out = []
        while True:
            c = self.s[self.i]
            if c == "\\":
                out.append(self.s[self.i + 1]); self.i += 2
            elif c == '"':
                self.i += 1
                return "".join(out)
            elif c in "\n\r":
                raise ValueError("line break inside a string literal")
            else:
                out.append(c); self.i += 1

    def value(self):
        self.ws()
        if self.peek("React.createElement("):
            return self.element()
        if self.peek('"'):
            return ("str", self.string())
        if self.peek("["):
            self.eat("[")
            items = []
            while not self.peek("]"):
                items.append(self.value())
                if self.peek(","): self.eat(",")
            self.eat("]")
            return ("list", items)
        if self.peek("{"):
            return ("dict", self.obj())
        m = re.compile(r"null|true|false|-?\d+(\.\d+)?|JSX_[A-Za-z0-9_]+").match(self.s, self.i)
        if not m:
            raise ValueError(f"unexpected value at {self.i}: {self.s[self.i:self.i + 30]!r}")
        self.i = m.end()
        t = m.group(0)
        if t in ("null", "true", "false"):
            return ("lit", {"null": None, "true": True, "false": False}[t])
        if t.startswith("JSX_"):
            return ("jsx", t)
        return ("num", float(t))

    def obj(self):
        self.eat("{")
        items = []
        while not self.peek("}"):
            k = self.string()
            self.eat(":")
            items.append((k, self.value()))
            if self.peek(","): self.eat(",")
        self.eat("}")
        return items

    def element(self):
        self.eat("React.createElement(")
        self.ws()
        if self.peek("'"):
            self.eat("'")
            j = self.s.index("'", self.i)
            name = ("tag", self.s[self.i:j]); self.i = j + 1
        else:
            m = re.compile(r"[A-Za-z_][A-Za-z0-9_.]*").match(self.s, self.i)
            name = ("component", m.group(0)); self.i = m.end()
        props, kids = [], []
        if self.peek(","):
            self.eat(",")
            props = self.obj()
            while self.peek(","):
                self.eat(",")
                kids.append(self.value())
        self.eat(")")
        return ("el", name, props, kids)


def run(R, job):
    ctx = ocommon.Ctx(R, job)
    core, r = R.core, ctx.rnd
    from htmltools import _jsx
    n = job.get("n", 150)
    fails, checked, nontrivial = [], 0, 0
    STR = ["a", "it's", 'say "hi"', "é😀", "a<b>&c", "", " sp ", "x/y", "</script>", "{}", "[1]"]

    class Tg:
        def __init__(self, mk): self.mk = mk
        def tagify(self): return self.mk()

    counter = [0]

    def dep():
        counter[0] += 1
        if r.random() < 0.3:
            # distinct dependencies may share a name (different versions): every metadata node must be carried, not one per name
            return core.HTMLDependency("shared", "1.%d" % counter[0])
        if r.random() < 0.15:
            # other packages of the React ecosystem are ordinary dependencies: they neither replace nor hide react / react-dom
            return core.HTMLDependency(r.choice(["react-select", "reactable", "react-dom-extras", "preact"]) + str(counter[0]), "1.0")
        return core.HTMLDependency("d%d" % counter[0], "1.0")

    def scalar():
        return r.choice([None, True, False, 3, 2.5, r.choice(STR), _jsx.jsx("JSX_" + r.choice(["a", "fn1", "Z"])), [1, "x", None], {"k": 1, "b": "v"}, ["n", [True, {"z": None}]], (0, 10), ("t", (1, 2)), {"range": (0, 1)}, [("a",)], {"cb": _jsx.jsx("JSX_cb"), "n": 1}, [_jsx.jsx("JSX_a"), "s"], {"deep": {"f": _jsx.jsx("JSX_f")}}, {"style": "compact"}, {"style": 2, "k": {"style": {"a": 1}}}, [{"style": None}], {"className": "c", "children": [1]}, [True, False, 1], (False,), [0, 1.5, True], {"on": [False, 2]}, [[True], 7]])

    def tag(d):
        kids = [child(d - 1) for _ in range(r.choice([0, 1, 2]))]
        at = {}
        if r.random() < 0.4:
            at[r.choice(["id", "className", "data_x"])] = r.choice(["v", "w x"])
        return core.Tag(r.choice(["div", "span", "p"]), *kids, at)

    def comp(d):
        kids = [child(d - 1) for _ in range(r.choice([0, 1, 2, 3]))]
        props = {}
        for _ in range(r.choice([0, 1, 2, 3])):
            k = r.choice(["p", "q_r", "class_", "data_x", "onClick", "style", "t"])
            if k == "style":
                props[k] = r.choice([{"color": "red"}, "color:red;top:1px", None])
            elif k == "t" and d > 0:
                props[k] = r.choice([tag(d - 1), comp(d - 1)])
            else:
                props[k] = scalar()
        c = _jsx.JSXTag(r.choice(["Foo", "Bar", "My.Comp"]), *kids[:1], **props)
        for k in kids[1:]:
            if r.random() < 0.5: c.append(k)
            else: c.extend([k])
        return c

    def child(d):
        k = r.random()
        if d <= 0 or k < 0.3:
            return r.choice(STR[:9])
        if k < 0.45: return dep()
        if k < 0.6: return tag(d)
        if k < 0.8: return comp(d)
        if k < 0.9:
            # expansions that are a single tag (a TagList result in a child position of a component is not supported by the
            # library's React renderer and is not demanded by the statement)
            e = tag(d - 1) if r.random() < 0.5 else core.Tag("em", "exp", dep())
            return Tg(lambda e=e: e)
        return tag(d)

    def snap(x):
        if isinstance(x, _jsx.JSXTag):
            return ("JSX", id(x), x.name, id(x.attrs), tuple((k, snap(v)) for k, v in x.attrs.items()), id(x.children), id(x.children.data), tuple(snap(c) for c in x.children), tuple(sorted(x.__dict__)))
        if isinstance(x, core.Tag):
            return ("Tag", id(x), x.name, x.add_ws, id(x.attrs), tuple((k, str(v)) for k, v in x.attrs.items()), id(x.children), id(x.children.data), tuple(snap(c) for c in x.children))
        if isinstance(x, core.TagList):
            return ("TagList", id(x), tuple(snap(c) for c in x))
        if isinstance(x, (list, tuple)):
            return (type(x).__name__, id(x), tuple(snap(c) for c in x))
        if isinstance(x, dict):
            return ("dict", id(x), tuple((k, snap(v)) for k, v in x.items()))
        if isinstance(x, core.HTMLDependency):
            return ("Dep", id(x), x.name, str(x.version))
        return (type(x).__name__, id(x) if not isinstance(x, (str, int, float, bool, type(None))) else None, repr(x) if isinstance(x, (str, int, float, bool, type(None))) else None)

    def metas(x, acc):
        "every metadata node the statement lists"
        if isinstance(x, core.MetadataNode):
            acc.append(x.name + "@" + str(x.version))
        elif isinstance(x, Tg):
            metas(x.tagify(), acc)
        elif isinstance(x, _jsx.JSXTag):
            for v in x.attrs.values():
                if isinstance(v, (core.Tag, _jsx.JSXTag)): metas(v, acc)
            for c in x.children: metas(c, acc)
        elif isinstance(x, (core.Tag, core.TagList)):
            for c in (x.children if isinstance(x, core.Tag) else x): metas(c, acc)
        return acc

    def norm_name(k):
        if k.endswith("_"): k = k[:-1]
        return k.replace("_", "-")

    def expect(x):
        "the mirror of x as the JS reader would see it (None = no element: metadata)"
        if isinstance(x, core.MetadataNode):
            return None
        if isinstance(x, Tg):
            e = x.tagify()
            return [y for k in e for y in (expect_list(k))] if isinstance(e, core.TagList) else expect_list(e)
        if isinstance(x, str):
            return ("str", str(x))
        if isinstance(x, _jsx.JSXTag) or isinstance(x, core.Tag):
            name = ("component", x.name) if isinstance(x, _jsx.JSXTag) else ("tag", x.name)
            props = []
            for k, v in x.attrs.items():
                props.append((k, val(v, k == "style" and isinstance(x, _jsx.JSXTag) or k == "style")))
            kids = [y for c in x.children for y in expect_list(c)]
            return ("el", name, props, kids)
        raise ValueError(type(x))

    def expect_list(x):
        e = expect(x)
        if e is None: return []
        return e if isinstance(e, list) else [e]

    def val(v, style=False):
        if style:
            if v is None: return ("dict", [])
            if isinstance(v, str):
                v = dict(tuple(y.split(":")) for y in v.split(";") if ":" in y)
        if v is None: return ("lit", None)
        if isinstance(v, (core.Tag, _jsx.JSXTag)): return expect(v)
        if isinstance(v, bool): return ("lit", v)
        if isinstance(v, _jsx.jsx): return ("jsx", str(v))
        if isinstance(v, (int, float)): return ("num", float(v))
        if isinstance(v, (list, tuple)): return ("list", [val(y) for y in v])
        if isinstance(v, dict): return ("dict", [(str(k), val(y)) for k, y in v.items()])
        return ("str", str(v))

    for pkg, f in (("react", "react.production.min.js"), ("react-dom", "react-dom.production.min.js")):
        p = os.path.join(os.path.dirname(_jsx.__file__), "lib", pkg, f)
        checked += 1
        if not os.path.isfile(p):
            fails.append({"input": pkg, "observed": "missing " + p, "expected": "script file in the package"})

    # a fixed battery first (whatever the seed): a dependency below a tag-valued prop, below a component-valued prop, below a nested tag, in an expansion
    J, T = _jsx.JSXTag, core.Tag

    def fixed(e):
        return Tg(lambda e=e: e)
    directed = [
        lambda: J("Foo", icon=T("span", "i", dep())),
        lambda: J("Foo", header=J("Bar", dep(), "h")),
        lambda: J("Foo", T("div", J("Bar", dep())), dep()),
        lambda: J("Foo", t=T("div", fixed(T("em", "e", dep())))),
        lambda: J("Foo", fixed(T("em", dep())), p=T("div", T("p", J("Baz", q=T("i", dep()))))),
        lambda: J("Foo", T("ul", T("li", dep(), "x"), T("li", J("Bar", icon=T("b", dep()))))),
        lambda: J("Foo", dep(), dep(), class_="c", data_x=3, style={"color": "red"}),
        # different metadata nodes that share a name (two versions of one library, on a prop and on a child): every one is carried
        lambda: J("Foo", T("div", core.HTMLDependency("widget", "2.3.0")), icon=J("Bar", core.HTMLDependency("widget", "1.0.0"))),
        lambda: J("Foo", core.HTMLDependency("w", "1.0"), core.HTMLDependency("w", "1.1"), T("p", core.HTMLDependency("w", "1.0", head="<!--other-->"))),
    ]
    for it in range(n + len(directed)):
        counter[0] = 0
        x = directed[it]() if it < len(directed) else comp(3)
        checked += 1
        before = snap(x)
        try:
            t1 = x.tagify()
            s1 = str(x)
            t2 = x.tagify()
            s2 = str(x)
        except Exception as ex:
            fails.append({"input": repr(before)[:300], "observed": "EXC " + type(ex).__name__ + ": " + str(ex)[:200], "expected": "a script tag"})
            if len(fails) >= 3: break
            continue
        if snap(x) != before:
            fails.append({"input": repr(before)[:400], "observed": "the component (or something reachable from it) was changed by tagify()/str()", "expected": "unchanged"})
            if len(fails) >= 3: break
            continue
        if s1 != s2 or str(t1) != str(t2):
            fails.append({"input": repr(before)[:300], "observed": "converting twice gave different results", "expected": "identical"})
        if not (isinstance(t1, core.Tag) and t1.name == "script"):
            fails.append({"input": repr(before)[:300], "observed": repr(t1)[:100], "expected": "one <script> element"})
            continue
        got_deps = [d.name + "@" + str(d.version) for d in t1.get_dependencies(dedup=False)]
        got_deps = [g.split("@")[0] if g.split("@")[0] in ("react", "react-dom") else g for g in got_deps]
        want = ["react", "react-dom"] + metas(x, [])
        nontrivial += len(want) > 2
        if got_deps[:2] != ["react", "react-dom"] or sorted(got_deps) != sorted(want):
            fails.append({"input": repr(before)[:300], "observed": "dependencies " + repr(got_deps), "expected": repr(want)})
        # (c) mirror
        js = str(t1.children[0]) if t1.children else ""
        m = re.search(r"ReactDOM\.render\(\n(.*)\n  , container\);", js, flags=re.S)
        if not m:
            fails.append({"input": repr(before)[:300], "observed": js[:300], "expected": "ReactDOM.render(<expression>, container)"})
            continue
        try:
            rd = JS(m.group(1))
            got = rd.element()
            rd.ws()
            if rd.i != len(rd.s):
                raise ValueError("trailing text after the expression")
        except Exception as ex:
            safe = all("\\" not in s_ and "\n" not in s_ for s_ in STR)
            fails.append({"input": repr(before)[:300], "observed": "expression does not read back: " + str(ex)[:200], "expected": "a React.createElement expression", "markup": m.group(1)[:400]})
            continue
        exp = expect(x)
        if got != exp:
            fails.append({"input": repr(before)[:300], "observed": repr(got)[:500], "expected": repr(exp)[:500]})
        if len(fails) >= 3:
            break
    # (d) allow-list
    Comp = _jsx.jsx_tag_create("Comp", allowedProps=["alpha", "b_c", "onChange"])
    for props, ok in (({"alpha": 1}, True), ({"b_c": 1}, True), ({"z": 1}, False), ({"alpha": 1, "q": 2}, False), ({}, True), ({"a": 1}, False), ({"al": 1}, False),
                      ({"Change": 1}, False), ({"on": 1}, False), ({"c": 1}, False), ({"b": 1}, False), ({"alpha, b_c": 1}, False)):
        checked += 1
        try:
            Comp(**props)
            rej = False
        except NotImplementedError:
            rej = True
        except Exception as ex:
            rej = "other " + type(ex).__name__
        if rej is not (not ok):
            fails.append({"input": f"allowedProps=['alpha','b_c','onChange'], props={props}", "observed": f"rejected={rej}", "expected": f"rejected={not ok}"})
    # a component accepted under an allow-list converts like any other (the allow-list is a check at construction, nothing else)
    Listed = _jsx.jsx_tag_create("Listed", allowedProps=["class_", "data_id", "b_c", "child", "onChange"])
    for props in ({"class_": "a"}, {"data_id": 3, "class_": "k"}, {"b_c": True, "child": core.Tag("i", "t")}, {"child": Listed(class_="inner")}, {}):
        checked += 1
        try:
            x = Listed("kid", core.Tag("b"), **props)
            s1, s2 = str(x), str(x.tagify())
            for k in props:
                nm = k.rstrip("_").replace("_", "-")
                if s1.count('"' + nm + '":') < 1:
                    fails.append({"input": f"Listed('kid', b(), **{sorted(props)!r}) with allowedProps naming them", "observed": s1[-300:], "expected": f"prop {nm!r} in the expression"})
            if s1 != s2:
                fails.append({"input": f"Listed(**{sorted(props)!r})", "observed": "str(x) != str(x.tagify())", "expected": "same"})
        except Exception as ex:
            fails.append({"input": f"Listed('kid', b(), **{sorted(props)!r}) with allowedProps=['class_', 'data_id', 'b_c', 'child', 'onChange']", "observed": "EXC " + type(ex).__name__ + ": " + str(ex)[:120],
                          "expected": "constructs and converts"})
    # the allow-list belongs to each created function, whatever was created before under the same name
    Free = _jsx.jsx_tag_create("Twice")
    Strict = _jsx.jsx_tag_create("Twice", allowedProps=["ok"])
    Other = _jsx.jsx_tag_create("Twice", allowedProps=["different"])
    for fn, props, ok in ((Free, {"anything": 1}, True), (Strict, {"ok": 1}, True), (Strict, {"anything": 1}, False), (Other, {"ok": 1}, False), (Other, {"different": 1}, True)):
        checked += 1
        try:
            fn(**props); rej = False
        except NotImplementedError:
            rej = True
        if rej is not (not ok):
            fails.append({"input": f"jsx_tag_create('Twice', ...) created three times with different allow-lists; props={props}", "observed": f"rejected={rej}", "expected": f"rejected={not ok}"})
    try:
        _jsx.JSXTag("lower")
        fails.append({"input": "JSXTag('lower')", "observed": "accepted", "expected": "NotImplementedError (component names start with a capital letter)"})
    except NotImplementedError:
        pass
    return {"checked": checked, "nontrivial": nontrivial, "failures": fails[:3]}
