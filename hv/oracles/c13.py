"""C13 oracle (bounded, independent reading of the statement, run against the real code):
(a) a dependency serialised to its JSON <script> form and embedded in text is recovered by HTMLTextDocument as an equal
    dependency, once per distinct serialisation in order of appearance, and every serialised script is removed from the text;
(b) no end-tag-like '</script' in any letter case occurs inside the serialised element before its own closing tag;
(c) HTMLTextDocument.render() replaces only the first occurrence of the placeholder, with the listing and dependency markup
    HTMLDocument puts in <head>, leaving all other text untouched;
(d) rendering in JSON mode and post-processing with HTMLTextDocument is equivalent to rendering directly."""
import re
import ocommon

HOSTILE = ['"', "\\", "\n", "é😀", "</script>", "</SCRIPT>", "</ScRiPt >", "<!--", "-->", "</", "<\\/", "\\u003c/script>", "\r", "\t", "'", "<script>", "&amp;", " ",
           "</script", "<\\/script>", "\\", "\\\\", "/", "<"]


def run(R, job):
    ctx = ocommon.Ctx(R, job)
    core, r = R.core, ctx.rnd
    import htmltools
    n = job.get("n", 150)
    fails, checked, nontrivial, samples = [], 0, 0, []

    def hs(k=3):
        return "".join(r.choice(HOSTILE + ["a", "b", "x.js", "lib", "1"]) for _ in range(r.choice([1, 1, 2, k])))

    def dep(i):
        kw = {}
        k = r.random()
        if k < 0.35:
            kw["source"] = {"subdir": hs()}
        elif k < 0.55:
            kw["source"] = {"href": "https://x.org/" + hs()}
        elif k < 0.7:
            kw["source"] = {"package": "htmltools", "subdir": hs()}
        if r.random() < 0.6:
            kw["script"] = [{"src": hs(), **({"defer": True} if r.random() < 0.3 else {}), **({"data-x": hs()} if r.random() < 0.3 else {})} for _ in range(r.choice([1, 1, 2]))]
            if r.random() < 0.3:
                kw["script"] = kw["script"][0]
        if r.random() < 0.4:
            kw["stylesheet"] = [{"href": hs()} for _ in range(r.choice([1, 2]))]
        if r.random() < 0.4:
            kw["meta"] = [{"name": hs(), "content": hs()}]
        if r.random() < 0.3:
            kw["all_files"] = True
        h = r.random()
        if h < 0.25:
            kw["head"] = "<title>" + hs() + "</title><script>1 && 1</script>"
        elif h < 0.45:
            kw["head"] = core.TagList(core.Tag("script", "if (a</b>) {}" + hs()), core.Tag("meta", name=hs()))
        elif h < 0.55:
            kw["head"] = core.Tag("SCRIPT", hs())
        return core.HTMLDependency(r.choice(["d", "n"]) + str(i) + (hs(2) if r.random() < 0.3 else ""), r.choice(["1.0", "2.3.4", "0.0.1.9000"]), **kw)

    def fields(d):
        return {"name": d.name, "version": str(d.version), "source": d.source, "script": d.script, "stylesheet": d.stylesheet, "meta": d.meta,
                "all_files": d.all_files, "head": None if d.head is None else core.TagList(d.head).get_html_string()}

    mode0 = htmltools.html_dependency_render_mode
    try:
        for it in range(n):
            checked += 1
            deps = [dep(i) for i in range(r.choice([1, 1, 2, 3]))]
            if r.random() < 0.35:
                # two distinct serialisations that agree on name and version (one per distinct serialisation must be recovered)
                twin = core.HTMLDependency(deps[0].name, str(deps[0].version), script={"src": "twin-" + hs(1)}, head="<!--twin-->")
                deps.append(twin)
            indent = r.choice([None, None, 0, 2, 4])
            ser = [d.serialize_to_script_json(indent=indent).get_html_string() for d in deps]
            # (b)
            bad_b = None
            for s, d in zip(ser, deps):
                low = s.lower()
                if not s.endswith("</script>") or low.count("</script") != 1 or not s.startswith('<script type="application/json" data-html-dependency="">'):
                    bad_b = {"input": repr(fields(d))[:400], "observed": s[:500], "expected": "exactly one '</script' (any letter case): the element's own closing tag"}
                    break
            if bad_b:
                fails.append(bad_b)
                if len(fails) >= 3: break
                continue
            # (a)
            filler = [r.choice(["", "text", "<p>x</p>", "<script>var a = 1;</script>", "\n", "<script type=\"application/json\">{}</script>", hs()]).replace(ser[0], "") for _ in range(8)]
            filler = [f if 'data-html-dependency' not in f else "" for f in filler]
            order = list(range(len(ser)))
            seq = order + [r.choice(order) for _ in range(r.choice([0, 1, 2]))]     # repeated copies
            r.shuffle(seq)
            text, plain = "", ""
            for j, k in enumerate(seq):
                f = filler[j % len(filler)]
                text += f + ser[k]
                plain += f
            text += filler[-1]
            plain += filler[-1]
            try:
                doc = core.HTMLTextDocument(text, deps_replace_pattern="@@DEPS@@")
            except Exception as ex:
                fails.append({"input": text[:500], "observed": "EXC " + type(ex).__name__ + ": " + str(ex)[:200], "expected": "dependencies recovered"})
                if len(fails) >= 3: break
                continue
            first_seen = []
            for k in seq:
                if ser[k] not in [ser[q] for q in first_seen]:
                    first_seen.append(k)
            got = [fields(d) for d in doc._deps]
            want = [fields(deps[k]) for k in first_seen]
            nontrivial += 1
            if got != want:
                fails.append({"input": text[:600], "observed": repr(got)[:600], "expected": repr(want)[:600]})
            elif doc._html != plain:
                fails.append({"input": text[:600], "observed": "remaining text " + repr(doc._html)[:400], "expected": repr(plain)[:400]})
            # (c)
            base = r.choice(["<html><head>@@DEPS@@</head><body>@@DEPS@@ x</body></html>", "a@@DEPS@@b@@DEPS@@c", "no placeholder", "@@DEPS@@"])
            lp = r.choice(["lib", None, "x/y"])
            iv = r.random() < 0.5
            safe = [d for d in deps if d.source is None or "href" in d.source or "package" not in d.source]
            try:
                doc2 = core.HTMLTextDocument(base, deps=list(safe), deps_replace_pattern="@@DEPS@@")
                out = doc2.render(lib_prefix=lp, include_version=iv)
                ref = core.HTMLDocument(core.TagList(*safe)).render(lib_prefix=lp, include_version=iv)["html"]
            except Exception as ex:
                out = None
            if out is not None:
                pre, sep, post = base.partition("@@DEPS@@")
                if not sep:
                    if out["html"] != base:
                        fails.append({"input": base, "observed": out["html"][:300], "expected": "text without placeholder unchanged"})
                elif not (out["html"].startswith(pre) and out["html"].endswith(post)) or (post.count("@@DEPS@@") != out["html"][len(pre):].count("@@DEPS@@")):
                    fails.append({"input": base, "observed": out["html"][:400], "expected": "only the first placeholder replaced, the rest of the text untouched"})
                else:
                    ins = out["html"][len(pre):len(out["html"]) - len(post)]
                    m = re.search(r'<meta charset="utf-8"/>\n(.*?)\n?  </head>', ref, flags=re.S)
                    head_lines = [l.strip() for l in (m.group(1) if m else "").splitlines() if l.strip()]
                    ins_lines = [l.strip() for l in ins.splitlines() if l.strip()]
                    # every dependency here was given to HTMLDocument directly, so they resolve (same names -> one survives); compare only when names are distinct
                    if len({d.name for d in safe}) == len(safe) and head_lines != ins_lines:
                        fails.append({"input": base + " deps=" + repr([fields(d)["name"] for d in safe]), "observed": repr(ins_lines)[:500], "expected": repr(head_lines)[:500]})
                    if [fields(d) for d in out["dependencies"]] != [fields(d) for d in safe]:
                        fails.append({"input": base, "observed": "dependencies " + repr([d.name for d in out["dependencies"]]), "expected": repr([d.name for d in safe])})
            # (d)
            clean = [d for d in deps if len({x.name for x in deps}) == len(deps)]
            if clean:
                tree = core.Tag("div", "t", clean[0], core.Tag("span", *clean[1:], "u"))
                direct = tree.render()
                htmltools.html_dependency_render_mode = "json"
                try:
                    js = str(tree)
                finally:
                    htmltools.html_dependency_render_mode = mode0
                doc3 = core.HTMLTextDocument(js, deps_replace_pattern="@@NONE@@")
                r3 = doc3.render()
                if r3["html"].strip() != direct["html"].strip() or [fields(d) for d in r3["dependencies"]] != [fields(d) for d in direct["dependencies"]]:
                    fails.append({"input": "json mode: " + repr([fields(d)["name"] for d in clean]), "observed": r3["html"][:300] + " deps=" + repr([d.name for d in r3["dependencies"]]),
                                  "expected": direct["html"][:300] + " deps=" + repr([d.name for d in direct["dependencies"]])})
            if len(samples) < 2:
                samples.append({"serialised": ser[0][:200]})
            if len(fails) >= 3:
                break
    finally:
        htmltools.html_dependency_render_mode = mode0
    return {"checked": checked, "nontrivial": nontrivial, "failures": fails[:3], "samples": samples}
