"""C09 oracle: tagifiable objects render as their expansion, spliced in place (TagList results spliced
in order, possibly empty; other results take the object's place); dependencies of expansions are
reported; asking for markup with an un-expanded (non self-rendering) object raises."""
import copy
import ocommon


def run(R, job):
    ctx = ocommon.Ctx(R, job)
    core, r = R.core, ctx.rnd
    n = job.get("n", 300)
    fails, checked, nontrivial, samples = [], 0, 0, []

    class Tg:
        def __init__(self, res): self.res = res
        def tagify(self): return self.res

    class TgRepr(Tg):
        def _repr_html_(self): return "<never-rendered-after-tagify/>"

    class TgMeta(core.MetadataNode):
        "a metadata node that also has tagify(): still an object with a tagify() method"
        def __init__(self, res): self.res = res
        def tagify(self): return self.res

    import collections

    class TgSeq(collections.UserList):
        "a component that is also a sequence (a UserList of its parts): an object with a tagify() method like any other"
        def __init__(self, res): super().__init__(["part", "<part>"]); self.res = res
        def tagify(self): return self.res

    class Inst:
        "tagify() given per instance: some instances of the class have it, others are only self-rendering"
        def _repr_html_(self): return "<inst/>"

    def TgInst(res):
        o = Inst(); o.res = res; o.tagify = lambda: res
        return o

    lost = []

    def dep(i):
        return core.HTMLDependency(f"d{i}", f"1.{i}")

    def expansion(d):
        k = r.random()
        if k < 0.3:
            # a returned TagList must already be fully tagified (Tagifiable protocol): substitute nested objects by hand
            items = [y for _ in range(r.choice([0, 0, 1, 2, 3])) for y in subst(leaf(d))]
            tl = core.TagList(); tl.data = items
            if items and r.random() < 0.25:
                # a list put into the result by item assignment: still "a returned TagList spliced into the sibling list in order"
                j = r.randrange(len(items))
                inner = core.TagList(); inner.data = [items[j]] + ([dep(3)] if r.random() < 0.5 else [])
                tl[j] = inner
            return tl
        if k < 0.5:
            return core.Tag("em", "x", _add_ws=False)
        if k < 0.65:
            return r.choice(ctx.texts)
        if k < 0.8:
            return core.HTML("<i>h</i>")
        return dep(r.randint(0, 3))

    def leaf(d):
        k = r.random()
        if k < 0.4:
            return r.choice(ctx.texts)
        if k < 0.5:
            return dep(r.randint(0, 3))
        if k < 0.6:
            return core.HTML("<b>")
        return build(d - 1)

    def build(d):
        """returns (tree with objects, same tree with expansions substituted by hand)"""
        if d <= 0:
            return r.choice(ctx.texts)
        kids = []
        for _ in range(r.choice([0, 1, 2, 3, 4])):
            if r.random() < 0.35:
                kids.append(r.choice([Tg, Tg, Tg, TgRepr, TgMeta, TgSeq, TgInst])(expansion(d)))
            elif r.random() < 0.05:
                kids.append(Inst())
            else:
                kids.append(leaf(d))
        t_ = core.Tag(r.choice(["div", "span", "p", "ul"]), *kids, _add_ws=r.random() < 0.6)
        # an object with a tagify() method given as a child sits in the tree as that object (it is expanded by tagify(), not taken apart on the way in)
        for k_ in kids:
            if (isinstance(k_, (Tg, TgMeta, TgSeq)) or isinstance(k_, Inst)) and not any(c_ is k_ for c_ in t_.children):
                lost.append(type(k_).__name__)
        return t_

    def subst(x):
        if isinstance(x, (Tg, TgMeta, TgSeq)) or (isinstance(x, Inst) and hasattr(x, "res")):
            e = x.res
            if isinstance(e, core.TagList):
                return [y for k in e for y in subst(k)]
            return subst(e) if not isinstance(e, (str, core.HTML)) else [e]
        if isinstance(x, core.TagList):
            return [y for k in x for y in subst(k)]
        if isinstance(x, core.Tag):
            cp = copy.copy(x)
            cp.children = core.TagList()
            cp.children.data = [y for k in x.children for y in subst(k)]
            return [cp]
        return [x]

    class Field:
        "a component with a .name attribute that happens to be 'body' / 'html'"
        def __init__(self, name): self.name = name
        def tagify(self): return core.Tag("textarea", "v", name=self.name)

    class Hidden(core.Tag):
        "a component written as a Tag subclass whose tagify() returns a (possibly empty) list"
        def __init__(self, *kids): super().__init__("x-hidden"); self.kids = kids
        def tagify(self): return core.TagList(*self.kids)

    for nm in ("body", "html", "head", "other"):
        checked += 1
        try:
            d1 = core.HTMLDocument(Field(nm)).render()["html"]
            d2 = core.HTMLDocument(Field(nm).tagify()).render()["html"]
            if d1 != d2:
                fails.append({"input": f"HTMLDocument(<component with .name == {nm!r}>)", "observed": d1[:400], "expected": d2[:400]})
        except Exception as ex:
            fails.append({"input": f"HTMLDocument(<component with .name == {nm!r}>)", "observed": "EXC " + type(ex).__name__ + ": " + str(ex)[:100], "expected": "rendering of the expansion"})
    for kids in ((), ("a",), (core.Tag("b", "x"), dep(1))):
        checked += 1
        t1 = core.Tag("div", "pre", Hidden(*kids), "post")
        t2 = core.Tag("div", "pre", *kids, "post")
        r1, r2 = t1.render(), t2.render()
        if r1["html"] != r2["html"] or [d.name for d in r1["dependencies"]] != [d.name for d in r2["dependencies"]]:
            fails.append({"input": f"div('pre', <Tag subclass whose tagify() returns TagList{kids!r}>, 'post')", "observed": r1["html"] + " deps=" + str([d.name for d in r1["dependencies"]]),
                          "expected": r2["html"] + " deps=" + str([d.name for d in r2["dependencies"]])})
    for _ in range(n):
        del lost[:]
        t = build(3)
        if not isinstance(t, core.Tag):
            continue
        checked += 1
        if lost:
            fails.append({"input": describe(t, ctx), "observed": f"a {lost[0]} object (it has a tagify() method) given as a child is not in the tree: it was taken apart or dropped when the tag was built",
                          "expected": "the object itself as a child, expanded by tagify()"})
        has_obj = "Tg" in repr([type(k).__name__ for k in walk(t, core)])
        nontrivial += has_obj
        manual = subst(t)[0]
        try:
            got = t.render()
            exp = {"html": manual.get_html_string(), "dependencies": manual.get_dependencies()}
            if got["html"] != exp["html"] or [(d.name, str(d.version)) for d in got["dependencies"]] != [(d.name, str(d.version)) for d in exp["dependencies"]]:
                fails.append({"input": describe(t, ctx), "observed": got["html"] + " deps=" + str([d.name for d in got["dependencies"]]),
                              "expected": exp["html"] + " deps=" + str([d.name for d in exp["dependencies"]])})
            doc = core.HTMLDocument(t).render()["html"]
            doc2 = core.HTMLDocument(manual).render()["html"]
            if doc != doc2:
                fails.append({"input": "HTMLDocument(" + describe(t, ctx) + ")", "observed": doc, "expected": doc2})
            # the user's own <html> / <body> as the sole content (the other two branches of the document builder)
            for wrap in ("html", "body"):
                mk = (lambda x: core.Tag("html", core.Tag("head", core.Tag("title", "t")), core.Tag("body", x))) if wrap == "html" else (lambda x: core.Tag("body", x, class_="b"))
                d1 = core.HTMLDocument(mk(t)).render()
                d2 = core.HTMLDocument(mk(manual)).render()
                if d1["html"] != d2["html"] or [(d.name, str(d.version)) for d in d1["dependencies"]] != [(d.name, str(d.version)) for d in d2["dependencies"]]:
                    fails.append({"input": f"HTMLDocument(<{wrap}> around " + describe(t, ctx) + ")", "observed": d1["html"][:600], "expected": d2["html"][:600]})
                    break
        except Exception as ex:
            fails.append({"input": describe(t, ctx), "observed": "EXC " + type(ex).__name__ + ": " + str(ex)[:100], "expected": "rendering of the expansion"})
        # un-expanded objects: get_html_string must raise unless the object renders itself
        if has_obj:
            only_plain = all(not isinstance(k, TgRepr) for k in walk(t, core))
            try:
                t.get_html_string()
                raised = False
            except RuntimeError:
                raised = True
            reach = reachable_plain_obj(t, core, Tg, TgRepr)
            if reach and not raised:
                fails.append({"input": describe(t, ctx) + ".get_html_string()", "observed": "no error", "expected": "RuntimeError (un-expanded object)"})
        if len(samples) < 3:
            samples.append({"tree": describe(t, ctx)[:300]})
        if len(fails) >= 3:
            break
    return {"checked": checked, "nontrivial": nontrivial, "failures": fails[:3], "samples": samples}


def walk(t, core):
    yield t
    if isinstance(t, core.Tag):
        for k in t.children:
            yield from walk(k, core)


def reachable_plain_obj(t, core, Tg, TgRepr):
    """is an object without _repr_html_ reached by the renderer (i.e. not hidden behind a single-text fast path)?"""
    if not isinstance(t, core.Tag):
        return False
    kids = [k for k in t.children if not isinstance(k, core.MetadataNode)]
    if len(kids) == 0 or (len(kids) == 1 and isinstance(kids[0], (str, core.HTML))):
        return False
    for k in t.children:
        if isinstance(k, Tg) and not isinstance(k, TgRepr):
            return True
        if isinstance(k, core.Tag) and reachable_plain_obj(k, core, Tg, TgRepr):
            return True
    return False


def describe(t, ctx):
    core = ctx.core
    if isinstance(t, core.Tag):
        return f"Tag({t.name!r}, " + ", ".join(describe(k, ctx) for k in t.children) + f", _add_ws={t.add_ws})"
    if hasattr(t, "res"):
        return f"{type(t).__name__}(tagify -> {describe(t.res, ctx)})"
    return ctx.describe(t)
