"""C14 oracle: after any sequence of TagList / Tag child operations the children are exactly the
depth-first flattening of the supplied arguments (None dropped, numbers as str, strings whole), every
element a valid tag node; an unsupported argument raises TypeError and leaves the list unchanged;
is_tag_child accepts every accepted value.  Independent model: a plain Python list."""
import copy
import ocommon


def run(R, job):
    ctx = ocommon.Ctx(R, job)
    core, r = R.core, ctx.rnd
    n = job.get("n", 300)
    fails, checked, distinct, samples = [], 0, set(), []

    def atom():
        k = r.random()
        if k < 0.3:
            return r.choice(ctx.texts)
        if k < 0.4:
            return r.choice([0, 1, -3, 2.5, True, False, 0.0, ""])
        if k < 0.5:
            return None
        if k < 0.6:
            return core.HTML(r.choice(["<b>", "x"]))
        if k < 0.7:
            return core.Tag(r.choice(["div", "span"]), r.choice(ctx.texts))
        if k < 0.75:
            return core.MetadataNode()
        if k < 0.8:
            return ctx.reprobj("<r>")
        if k < 0.9:
            import decimal, fractions
            return R.Junk(r.randint(0, 9)) if r.random() < 0.4 else r.choice([{"a": 1}, {1, 2}, object(), b"x", decimal.Decimal("1.5"), fractions.Fraction(1, 3), 2 + 3j, range(2), bytearray(b"y")])
        return core.TagList(r.choice(ctx.texts), 1)

    def arg(d):
        if d <= 0 or r.random() < 0.5:
            return atom()
        k = r.choice(["list", "tuple", "taglist"])
        items = [arg(d - 1) for _ in range(r.choice([0, 1, 2, 3]))]
        if k == "list":
            return items
        if k == "tuple":
            return tuple(items)
        try:
            return core.TagList(*items)
        except TypeError:
            return items

    def oneshot(it):
        """the same items as an iterable that can be consumed only once (generator, iterator, map) - or as given"""
        k = r.random()
        if isinstance(it, str) or k < 0.5:
            return it
        items = list(it)
        if k < 0.7:
            return (x for x in items)
        if k < 0.85:
            return iter(items)
        return map(lambda x: x, items)

    def model(x, out):
        """independent flattening: returns False if something is not a child"""
        if isinstance(x, (list, tuple, core.TagList)):
            return all([model(i, out) for i in list(x)])
        if x is None:
            return True
        if isinstance(x, bool) or isinstance(x, (int, float)):
            out.append(str(x))
            return True
        if isinstance(x, (str, core.HTML, core.Tag, core.MetadataNode)) or hasattr(x, "_repr_html_") or hasattr(x, "tagify"):
            out.append(x)
            return True
        return False

    def same(a, b):
        return len(a) == len(b) and all((x is y) or (isinstance(x, str) and isinstance(y, str) and type(x) is type(y) and x == y) or x == y for x, y in zip(a, b))

    def acceptable(x):
        out = []
        return model(x, out)

    # a fixed battery first (whatever the seed): values of unsupported type are rejected wherever they are given, alone or not
    import decimal
    unsupported = [{1, 2}, frozenset(["a"]), {"class": "a"}, {"k": 1}.keys(), {"k": 1}.values(), {"k": 1}.items(), b"x", bytearray(b"y"), range(2), (x for x in ["g"]), iter(["i"]),
                   map(str, [1]), object(), decimal.Decimal("1"), 2j, type, len, NotImplemented]
    for v in unsupported:
        for how, call in (("TagList(v)", lambda: core.TagList(v)), ("TagList('a', v)", lambda: core.TagList("a", v)), ("Tag('div', v)", lambda: core.Tag("div", v)),
                          ("Tag('div', [v])", lambda: core.Tag("div", [v])), ("TagList().append(v)", lambda: core.TagList().append(v)), ("TagList().insert(0, v)", lambda: core.TagList().insert(0, v)),
                          ("TagList().extend([v])", lambda: core.TagList().extend([v])), ("Tag('div').append(v)", lambda: core.Tag("div").append(v))):
            if isinstance(v, dict) and how == "Tag('div', v)":
                continue          # a dict given directly to Tag() is an attribute set
            checked += 1
            try:
                call()
                fails.append({"input": f"{how} with v = {type(v).__name__}", "observed": "accepted", "expected": "TypeError"})
            except TypeError:
                pass
    for _ in range(n):
        tl = core.TagList()
        ref = []
        log = []
        for step in range(r.choice([1, 2, 3, 5, 8])):
            op = r.choice(["append", "extend", "insert", "add", "radd", "iadd", "ctor", "tag.append", "tag.extend", "tag.insert", "tag.ctor", "slice", "mul"])
            a = arg(2)
            distinct.add(op)
            before = list(tl.data)
            exp = list(ref)
            out = []
            ok = True
            try:
                if op == "append":
                    more = [arg(1) for _ in range(r.choice([0, 0, 1, 2]))]
                    ok = model(a, out)
                    for m_ in more:
                        ok = model(m_, out) and ok
                    exp = ref + out
                    tl.append(a, *more)
                elif op == "extend":
                    it = a if isinstance(a, (list, tuple, core.TagList, str)) else [a]
                    ok = model(list(it) if not isinstance(it, str) else it, out); exp = ref + out
                    tl.extend(oneshot(it))
                elif op == "insert":
                    i = r.choice([0, 1, -1, 100, -100, len(ref)])
                    ok = model(a, out)
                    exp = list(ref); exp[i:i] = out
                    tl.insert(i, a)
                elif op == "add":
                    it = a if isinstance(a, (list, tuple, core.TagList, str)) else [a]
                    ok = model(list(it) if not isinstance(it, str) else it, out); exp = ref + out
                    old_tl, old_items = tl, list(tl)
                    tl = tl + it
                    # `+` builds a new list: changing the sum must not change the operand (any sequence of operations)
                    if tl is old_tl:
                        raise AssertionError("alias")
                    tl.append("probe"); changed = list(old_tl) != old_items; tl.pop()
                    if changed:
                        raise AssertionError("alias")
                elif op == "radd":
                    it = a if isinstance(a, (list, tuple, str)) else [a]
                    ok = model(list(it) if not isinstance(it, str) else it, out); exp = out + ref
                    tl = it + tl
                elif op == "iadd":
                    it = a if isinstance(a, (list, tuple, core.TagList, str)) else [a]
                    ok = model(list(it) if not isinstance(it, str) else it, out); exp = ref + out
                    tl += oneshot(it)
                elif op == "ctor":
                    ok = model(a, out); exp = ref + out
                    if r.random() < 0.4:
                        # the value as the ONLY argument (an unsupported one is rejected there too, whatever it can be iterated into)
                        out = []; ok = model(a, out); exp = out
                        if isinstance(a, dict) and r.random() < 0.5:
                            tl = core.TagList(a)
                        else:
                            lone = core.TagList(a) if (isinstance(a, dict) or r.random() < 0.5) else core.Tag("div", a).children
                            tl = lone
                    else:
                        tl = core.TagList(tl, a)
                elif op == "tag.ctor":
                    # children given to the Tag constructor itself (falsy ones included: 0, "", False, HTML(""))
                    more = [arg(1) for _ in range(r.choice([0, 1, 2]))] + [r.choice([0, "", False, 0.0, core.HTML("")])]
                    ok = model(list(tl), out)
                    # a dict given directly to the Tag constructor is a set of attributes, not a child (a dict nested in a list is a child)
                    if not isinstance(a, dict):
                        ok = model(a, out) and ok
                    for m_ in more:
                        if not isinstance(m_, dict):
                            ok = model(m_, out) and ok
                    exp = out
                    if r.random() < 0.3:
                        # the list itself as the only argument: the tag gets its own child list (changing one does not change the other)
                        a, more, out = None, [], []
                        ok = model(list(tl), out); exp = out
                        src_ = tl
                        T_ = core.Tag("div", src_)
                        if T_.children is src_:
                            raise AssertionError("alias-ctor")
                        src_.append("probe"); shared = len(T_.children) != len(exp); src_.pop()
                        if shared:
                            raise AssertionError("alias-ctor")
                        tl = T_.children
                    else:
                        tl = core.Tag("div", tl, a, *more).children
                elif op.startswith("tag."):
                    t = core.Tag("div"); t.children = tl
                    ok = model(a, out)
                    if op == "tag.append":
                        more = [arg(1) for _ in range(r.choice([0, 0, 1, 2]))]
                        for m_ in more:
                            ok = model(m_, out) and ok
                        exp = ref + out; t.append(a, *more)
                    elif op == "tag.extend":
                        it = a if isinstance(a, (list, tuple, core.TagList, str)) else [a]
                        out = []; ok = model(list(it) if not isinstance(it, str) else it, out); exp = ref + out
                        t.extend(oneshot(it))
                    else:
                        i = r.choice([0, 1, -1, 50]); exp = list(ref); exp[i:i] = out; t.insert(i, a)
                    tl = t.children
                elif op == "slice":
                    i, j = sorted([r.randint(0, 4), r.randint(0, 4)])
                    exp = ref[i:j]; tl = tl[i:j]; ok = True
                elif op == "mul":
                    k = r.choice([0, 1, 2]); exp = ref * k; tl = tl * k; ok = True
                raised = False
            except TypeError:
                raised = True
            except AssertionError as ae:
                if "alias-ctor" in str(ae):
                    fails.append({"input": " ; ".join(log) + " ; Tag('div', <that TagList>)", "observed": "the tag's child list is (or shares its items with) the TagList passed to the constructor",
                                  "expected": "an independent child list holding the same nodes"})
                else:
                    fails.append({"input": " ; ".join(log) + f" ; {op}(empty or not: {type(a).__name__})", "observed": "`tl + x` returned (or shares its items with) the left operand: changing the sum changed the operand",
                                  "expected": "a new list"})
                break
            checked += 1
            log.append(f"{op}({ctx.describe(a) if not isinstance(a, (list, tuple)) else repr(type(a).__name__) + ':' + str(len(a))})")
            if raised:
                if ok:
                    fails.append({"input": " ; ".join(log), "observed": "TypeError", "expected": "accepted"})
                elif not same(list(tl.data), before):
                    fails.append({"input": " ; ".join(log), "observed": f"list changed by a failing operation: {tl.data!r}", "expected": repr(before)})
                continue
            if not ok:
                fails.append({"input": " ; ".join(log), "observed": f"accepted: {tl.data!r}", "expected": "TypeError"})
                break
            ref = exp
            if not isinstance(tl, core.TagList) or not same(list(tl.data), ref) or not all(core.is_tag_node(x) for x in tl.data):
                fails.append({"input": " ; ".join(log), "observed": repr(list(tl.data))[:300], "expected": repr(ref)[:300]})
                break
            if acceptable(a) and not core.is_tag_child(a):
                fails.append({"input": f"is_tag_child({a!r})", "observed": False, "expected": True})
        if len(samples) < 3:
            samples.append({"ops": log})
        if len(fails) >= 3:
            break
    return {"checked": checked, "nontrivial": checked, "failures": fails[:3], "samples": samples}
