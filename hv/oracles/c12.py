"""C12 oracle (bounded; real file system under a temporary directory):
(a) every script / stylesheet URL is prefix/name[-version]/percent-encoded relative path for a local source and href/path for a URL source,
    for every lib prefix and include_version;
(b) after save_html() - which returns the path it wrote, on a document, a tag or a list - every local URL in the written file, resolved
    against the file's directory and percent-decoded, names a copied file byte-identical to its source (the whole source directory when
    all_files is set), and stale contents of a dependency's target directory are gone;
(c) a missing listed file makes copying that dependency raise before its target directory is touched; URL-sourced and source-less
    dependencies copy nothing."""
import os
import posixpath
import re
import shutil
import tempfile
import urllib.parse
import ocommon

NAMES = [".hidden.js", ".theme/dark.css", "a.js", "b c.js", "p%20q.js", "h#1.js", "q?x=1.js", "é.js", "sub/c.js", "sub/deep/d e.css", "s.css", "t+u.css", "x&y.js", "semi;colon.js", "quote'.js"]


def tree_bytes(d):
    out = {}
    for root, _, files in os.walk(d):
        for f in files:
            p = os.path.join(root, f)
            with open(p, "rb") as fh:
                out[os.path.relpath(p, d)] = fh.read()
    return out


def run(R, job):
    ctx = ocommon.Ctx(R, job)
    core, r = R.core, ctx.rnd
    n = job.get("n", 150)
    n = max(20, n // 3)
    fails, checked, nontrivial = [], 0, 0
    tmp = tempfile.mkdtemp(prefix="hv-c12-")
    try:
        srcs = []
        for k in range(3):
            d = os.path.join(tmp, ["src0", "src [v2] 1", "src2*"][k])
            for f in NAMES:
                p = os.path.join(d, f)
                os.makedirs(os.path.dirname(p), exist_ok=True)
                with open(p, "wb") as fh:
                    fh.write((f"/* {k}:{f} */" * (k + 1)).encode("utf-8"))
            srcs.append(d)

        # an importable dotted package whose files differ from the same-named files of its parent package
        import sys as _sys
        pk = os.path.join(tmp, "pkgroot")
        for rel, body in (("hvpk/__init__.py", ""), ("hvpk/sub/__init__.py", ""), ("hvpk/sub/lib/p.js", "/* inner */"), ("hvpk/lib/p.js", "/* OUTER */")):
            pth = os.path.join(pk, rel)
            os.makedirs(os.path.dirname(pth), exist_ok=True)
            with open(pth, "w") as fh: fh.write(body)
        _sys.path.insert(0, pk)
        try:
            dpk = core.HTMLDependency("pk", "1.0", source={"package": "hvpk.sub", "subdir": "lib"}, script={"src": "p.js"})
            outp = os.path.join(tmp, "pkout")
            os.makedirs(outp)
            checked += 1
            f = core.Tag("div", dpk).save_html(os.path.join(outp, "i.html"))
            tgt = os.path.join(outp, "lib", "pk-1.0", "p.js")
            if not os.path.isfile(tgt) or open(tgt).read() != "/* inner */":
                fails.append({"input": "dependency with source={'package': 'hvpk.sub', 'subdir': 'lib'} (a dotted package)", "observed": open(tgt).read() if os.path.isfile(tgt) else "no file copied",
                              "expected": "a byte-identical copy of hvpk/sub/lib/p.js"})
        except Exception as ex:
            fails.append({"input": "dependency with a dotted package source", "observed": "EXC " + type(ex).__name__ + ": " + str(ex)[:200], "expected": "files copied"})
        finally:
            _sys.path.remove(pk)
            for k in [k for k in _sys.modules if k == "hvpk" or k.startswith("hvpk.")]:
                del _sys.modules[k]

        def mkdep(i, kind=None):
            kind = kind or r.choice(["dir", "dir", "dir", "url", "url/", "none", "pkg"])
            name = r.choice(["dep", "my-lib", "x_y", "d.e"]) + str(i)
            ver = r.choice(["1.0", "2.3.4", "0.0.1.9000"])
            scripts = r.sample([f for f in NAMES if f.endswith(".js")], r.choice([0, 1, 2, 3]))
            sheets = r.sample([f for f in NAMES if f.endswith(".css")], r.choice([0, 1, 2]))
            kw = dict(script=[{"src": s, **({"defer": True} if r.random() < 0.2 else {})} for s in scripts], stylesheet=[{"href": s} for s in sheets])
            srcdir = None
            if kind == "dir":
                srcdir = r.choice(srcs)
                kw["source"] = {"subdir": srcdir}
                if r.random() < 0.25:
                    kw["all_files"] = True
            elif kind == "pkg":
                kw = dict(source={"package": "htmltools", "subdir": "lib/react"}, script={"src": "react.production.min.js"})
                srcdir = os.path.join(os.path.dirname(core.__file__), "lib", "react")
                scripts, sheets = ["react.production.min.js"], []
            elif kind.startswith("url"):
                kw["source"] = {"href": "https://cdn.example.org/lib" + ("/" if kind.endswith("/") else "")}
            return core.HTMLDependency(name, ver, **kw), kind, srcdir, scripts, sheets

        for it in range(n):
            deps = [mkdep(i) for i in range(r.choice([1, 2, 3]))]
            # (a) URL shape
            for d, kind, srcdir, scripts, sheets in deps:
                for lp in ["lib", None, "", "x/y", "my lib"]:
                    for iv in (True, False):
                        checked += 1
                        try:
                            dd = d.as_dict(lib_prefix=lp, include_version=iv)
                        except Exception as ex:
                            fails.append({"input": f"{d.name} as_dict(lib_prefix={lp!r}, include_version={iv})", "observed": "EXC " + type(ex).__name__ + str(ex)[:100], "expected": "a dict"})
                            continue
                        if kind in ("dir", "pkg"):
                            base = d.name + ("-" + str(d.version) if iv else "")
                            if lp:
                                base = lp + "/" + base
                            want_s = [base + "/" + urllib.parse.quote(s) for s in scripts]
                            want_c = [base + "/" + urllib.parse.quote(s) for s in sheets]
                        elif kind.startswith("url"):
                            h = d.source["href"]
                            want_s = [h.rstrip("/") + "/" + urllib.parse.quote(s) for s in scripts]
                            want_c = [h.rstrip("/") + "/" + urllib.parse.quote(s) for s in sheets]
                        else:
                            want_s = [urllib.parse.quote(s) for s in scripts]
                            want_c = [urllib.parse.quote(s) for s in sheets]
                        got_s = [s["src"] for s in dd["script"]]
                        got_c = [s["href"] for s in dd["stylesheet"]]
                        if got_s != want_s or got_c != want_c:
                            fails.append({"input": f"{kind} dependency {d.name}-{d.version} lib_prefix={lp!r} include_version={iv}", "observed": repr((got_s, got_c))[:400], "expected": repr((want_s, want_c))[:400]})
                if len(fails) >= 3: break
            if len(fails) >= 3: break
            # (b) save_html
            outdir = tempfile.mkdtemp(prefix="out", dir=tmp)
            libdir = r.choice(["lib", "lib", None, "a/b", "my lib", "", ".deps/js", "./lib", "..lib"])
            iv = r.random() < 0.6
            file = os.path.join(outdir, r.choice(["index.html", "sub dir/page.html"]))
            os.makedirs(os.path.dirname(file), exist_ok=True)
            # stale content in the first local dependency's target directory
            stale = None
            for d, kind, srcdir, scripts, sheets in deps:
                if kind in ("dir", "pkg"):
                    tdir = os.path.join(os.path.dirname(file), libdir or "", d.name + ("-" + str(d.version) if iv else ""))
                    os.makedirs(tdir, exist_ok=True)
                    stale = os.path.join(tdir, "STALE.txt")
                    with open(stale, "w") as fh: fh.write("old")
                    break
            body = core.Tag("div", "x", *[d for d, *_ in deps])
            recv = r.choice(["doc", "tag", "list", "html", "html-doc"])
            obj = {"doc": lambda: core.HTMLDocument(body), "tag": lambda: body, "list": lambda: core.TagList(body, "t"),
                   "html": lambda: core.Tag("html", core.Tag("body", body)), "html-doc": lambda: core.HTMLDocument(core.Tag("html", core.Tag("head"), core.Tag("body", body)))}[recv]()
            checked += 1
            names = [d.name for d, *_ in deps]
            if len(set(names)) != len(names):
                continue
            try:
                ret = obj.save_html(file, libdir=libdir, include_version=iv)
            except Exception as ex:
                fails.append({"input": f"{recv}.save_html(libdir={libdir!r}, include_version={iv}) deps={names}", "observed": "EXC " + type(ex).__name__ + ": " + str(ex)[:200], "expected": "file written"})
                continue
            nontrivial += 1
            if ret != file or not os.path.isfile(file):
                fails.append({"input": f"{recv}.save_html({file!r})", "observed": repr(ret), "expected": "returns the path it wrote"})
                continue
            html = open(file, encoding="utf-8").read()
            urls = [urllib.parse.unquote(u) for u in []]
            import html as _html
            found = [_html.unescape(u) for u in re.findall(r'<(?:script|link)[^>]*? (?:src|href)="([^"]*)"', html)]
            for d, kind, srcdir, scripts, sheets in deps:
                if kind not in ("dir", "pkg"):
                    continue
                base = (libdir + "/" if libdir else "") + d.name + ("-" + str(d.version) if iv else "")
                for f in scripts + sheets:
                    url = base + "/" + urllib.parse.quote(f)
                    if url not in found:
                        fails.append({"input": f"{recv}.save_html libdir={libdir!r} dep {d.name} file {f!r}", "observed": "URL not in the written file: " + url + " among " + repr(found)[:300], "expected": "prefix/name[-version]/quoted path"})
                        break
                    target = os.path.join(os.path.dirname(file), urllib.parse.unquote(url))
                    src = os.path.join(srcdir, f)
                    if not os.path.isfile(target) or open(target, "rb").read() != open(src, "rb").read():
                        fails.append({"input": f"{recv}.save_html libdir={libdir!r} include_version={iv} dep {d.name} file {f!r}", "observed": f"{target} " + ("differs from its source" if os.path.isfile(target) else "does not exist"),
                                      "expected": "a byte-identical copy where the URL points"})
                        break
                tdir = os.path.join(os.path.dirname(file), base)
                if d.all_files and kind == "dir":
                    if tree_bytes(tdir) != tree_bytes(srcdir):
                        fails.append({"input": f"all_files dependency {d.name}", "observed": sorted(tree_bytes(tdir))[:8], "expected": "the whole source directory"})
            if stale and os.path.exists(stale):
                fails.append({"input": f"{recv}.save_html with a stale file in the target directory", "observed": "stale file still there", "expected": "target directory replaced"})
            if len(fails) >= 3: break
            # (c) missing file / nothing to copy
            d, kind, srcdir, scripts, sheets = mkdep(99, "dir")
            if not d.all_files and scripts:
                d.script.append({"src": "missing/nope.js"})
                dest = tempfile.mkdtemp(prefix="dest", dir=tmp)
                tdir = os.path.join(dest, d.name + "-" + str(d.version))
                os.makedirs(tdir)
                with open(os.path.join(tdir, "KEEP.txt"), "w") as fh: fh.write("keep")
                before = tree_bytes(dest)
                checked += 1
                try:
                    d.copy_to(dest)
                    fails.append({"input": f"copy_to with a missing listed file", "observed": "no exception", "expected": "raises"})
                except Exception:
                    if tree_bytes(dest) != before:
                        fails.append({"input": "copy_to with a missing listed file and an existing target directory", "observed": "target directory was touched before raising", "expected": "untouched"})
            d3 = core.HTMLDependency("nofiles", "1.0", source={"subdir": srcs[0]}, head="<title>t</title>")
            dest3 = tempfile.mkdtemp(prefix="dest", dir=tmp)
            t3 = os.path.join(dest3, "nofiles-1.0")
            os.makedirs(t3)
            with open(os.path.join(t3, "STALE.txt"), "w") as fh: fh.write("old")
            checked += 1
            d3.copy_to(dest3)
            if os.path.exists(os.path.join(t3, "STALE.txt")):
                fails.append({"input": "copy_to of a local dependency that lists no files, target directory has stale contents", "observed": "stale file still there", "expected": "stale contents of the target directory are gone"})
            for kind2 in ("url", "none"):
                d2, *_ = mkdep(98, kind2)
                dest = os.path.join(tempfile.mkdtemp(prefix="dest", dir=tmp), "lib")
                checked += 1
                d2.copy_to(dest)
                if os.path.exists(dest):
                    fails.append({"input": f"{kind2}-sourced dependency copy_to({dest!r})", "observed": "destination created: " + repr(sorted(tree_bytes(dest))[:5]), "expected": "copies nothing"})
            if len(fails) >= 3: break
    finally:
        shutil.rmtree(tmp, ignore_errors=True)
    return {"checked": checked, "nontrivial": nontrivial, "failures": fails[:3]}
