"""Locate the real functions in /repo (and inherited stdlib methods) by qualified name and read the
module-level constants, on every run, from the *current working tree* (DESIGN §2, §3.1).

What extraction drops is exactly: decorators @overload/@staticmethod/@runtime_checkable (handled by
the receiver logic), annotations, docstrings, comments/pragmas, `cast(T, e)` -> e.  Nothing else."""
from __future__ import annotations
import ast, os, hashlib

REPO = os.environ.get("HV_REPO", "/repo")
STDLIB_COLLECTIONS = "/root/.pyenv/versions/3.12.1/lib/python3.12/collections/__init__.py"

MODULE_FILES = {
    "htmltools._core": "htmltools/_core.py",
    "htmltools._util": "htmltools/_util.py",
    "htmltools._jsx": "htmltools/_jsx.py",
    "htmltools.tags": "htmltools/tags.py",
    "htmltools.svg": "htmltools/svg.py",
    "htmltools": "htmltools/__init__.py",
    "htmltools._versions": "htmltools/_versions.py",
    "scripts.generate_tags": "scripts/generate_tags.py",
    "collections": None,
}


class ExtractError(Exception):
    pass


class Sources:
    def __init__(self, repo=None):
        self.repo = repo or REPO
        self._mods = {}
        self._text = {}

    def path(self, module):
        if module == "collections":
            return STDLIB_COLLECTIONS
        return os.path.join(self.repo, MODULE_FILES[module])

    def text(self, module):
        if module not in self._text:
            with open(self.path(module), encoding="utf-8") as f:
                self._text[module] = f.read()
        return self._text[module]

    def module(self, module) -> ast.Module:
        if module not in self._mods:
            self._mods[module] = ast.parse(self.text(module), filename=self.path(module))
        return self._mods[module]

    def digest(self):
        h = hashlib.sha256()
        for m in sorted(MODULE_FILES):
            if MODULE_FILES[m] is not None and os.path.exists(self.path(m)):
                h.update(self.text(m).encode())
        return h.hexdigest()[:16]

    def find(self, qualname) -> ast.FunctionDef:
        """'htmltools._core.Tag.get_html_string' -> FunctionDef (the last non-@overload definition)."""
        module, rest = self.split(qualname)
        body = self.module(module).body
        parts = rest.split(".")
        node = None
        for i, p in enumerate(parts):
            cands = [n for n in body if isinstance(n, (ast.FunctionDef, ast.ClassDef)) and n.name == p]
            cands = [n for n in cands if not (isinstance(n, ast.FunctionDef) and _is_overload(n))]
            if not cands:
                raise ExtractError(f"{qualname}: `{p}` not found in {self.path(module)}")
            node = cands[-1]
            body = node.body
        if not isinstance(node, ast.FunctionDef):
            raise ExtractError(f"{qualname} is not a function")
        return node

    def find_class(self, qualname) -> ast.ClassDef:
        module, rest = self.split(qualname)
        for n in self.module(module).body:
            if isinstance(n, ast.ClassDef) and n.name == rest:
                return n
        raise ExtractError(f"class {qualname} not found")

    def split(self, qualname):
        best = None
        for m in MODULE_FILES:
            if qualname.startswith(m + ".") and (best is None or len(m) > len(best)):
                best = m
        if best is None:
            raise ExtractError(f"no module for {qualname}")
        return best, qualname[len(best) + 1:]

    def has(self, qualname):
        try:
            self.find(qualname)
            return True
        except ExtractError:
            return False

    # ---- module-level constants -------------------------------------------------------------
    def const(self, module, name):
        """Evaluate a module-level literal (dict / set / list / tuple / str / number), following
        `{**OTHER, ...}` and plain name references to other literals of the same module."""
        mod = self.module(module)
        val = None
        found = False
        for n in mod.body:
            tgt = None
            if isinstance(n, ast.Assign) and len(n.targets) == 1 and isinstance(n.targets[0], ast.Name):
                tgt, v = n.targets[0].id, n.value
            elif isinstance(n, ast.AnnAssign) and isinstance(n.target, ast.Name) and n.value is not None:
                tgt, v = n.target.id, n.value
            if tgt == name:
                val = self._lit(module, v)
                found = True
        if not found:
            raise ExtractError(f"constant {module}.{name} not found")
        return val

    def _lit(self, module, e):
        if isinstance(e, ast.Constant):
            return e.value
        if isinstance(e, ast.Name):
            return self.const(module, e.id)
        if isinstance(e, ast.Dict):
            d = {}
            for k, v in zip(e.keys, e.values):
                if k is None:
                    d.update(self._lit(module, v))
                else:
                    d[self._lit(module, k)] = self._lit(module, v)
            return d
        if isinstance(e, ast.Set):
            return OrderedSet(self._lit(module, x) for x in e.elts)
        if isinstance(e, (ast.List, ast.Tuple)):
            r = [self._lit(module, x) for x in e.elts]
            return r if isinstance(e, ast.List) else tuple(r)
        raise ExtractError(f"{module}: constant expression {ast.unparse(e)} is not a literal")

    def line(self, module, node):
        return f"{MODULE_FILES.get(module) or self.path(module)}:{getattr(node, 'lineno', '?')}"


class OrderedSet(list):
    """A set literal, kept in source order (order is never observable in the models: only `in`)."""

    def __init__(self, it=()):
        super().__init__()
        for x in it:
            if x not in self:
                self.append(x)


def _is_overload(fn: ast.FunctionDef):
    for d in fn.decorator_list:
        if (isinstance(d, ast.Name) and d.id == "overload") or (isinstance(d, ast.Attribute) and d.attr == "overload"):
            return True
    return False


def is_static(fn: ast.FunctionDef):
    return any(isinstance(d, ast.Name) and d.id == "staticmethod" for d in fn.decorator_list)


def strip_docstring(body):
    if body and isinstance(body[0], ast.Expr) and isinstance(body[0].value, ast.Constant) and isinstance(body[0].value.value, str):
        return body[1:]
    return body
