"""Type-directed models for the remaining L1 sorts (attribute dictionaries, str|HTML values, child
universes, dependency lists) layered on the core interpreter through its hook points."""
from __future__ import annotations
import ast
import z3
from .symexec import (Interp, SV, SStr, SBool, SInt, SNone, SEllipsis, SAdt, PyConst, PySeq, PyDict, PyRec, SClass, SFunc, SBuiltin,
                      SExc, SOpaque, SModule, Unsupported, _Raise, Obligation)
from .speceval import Val


class Interp2(Interp):
    extra_list_shapes = {"ArgDict": ("DNil", "DCons", "tl"), "ArgDicts": ("DDNil", "DDCons", "tl")}

    # ------------------------------------------------------------------ helpers
    def F(self, name, *args):
        """apply an L1 function to z3 terms"""
        return self.w.apply(name, *args)

    def C(self, cname, *args):
        fn = self.w.ctor_fn(self.ctor(cname))
        return fn(*args) if args else fn

    # ------------------------------------------------------------------ isinstance / identity
    def isinstance_hook(self, v, cls):
        T, Fz = z3.BoolVal(True), z3.BoolVal(False)
        if isinstance(v, SAdt) and v.sort == "AttrArg":
            t = v.t
            tbl = {"str": self.is_c("VStr", t), "HTML": self.is_c("VHtml", t), "bool": self.is_c("VBool", t),
                   "int": z3.Or(self.is_c("VInt", t), self.is_c("VBool", t)), "float": self.is_c("VFloat", t),
                   "dict": Fz, "list": Fz, "tuple": Fz, "Tag": Fz}
            return tbl.get(cls)
        if isinstance(v, SAdt) and v.sort == "AddArg":
            return {"HTML": self.is_c("AHtml", v.t), "str": self.is_c("APlain", v.t)}.get(cls, Fz)
        if isinstance(v, SAdt) and v.sort == "OptAV":
            t = v.t
            inner = self.acc("SomeAV", "v", t)
            if cls == "str":
                return z3.And(self.is_c("SomeAV", t), self.is_c("Plain", inner))
            if cls == "HTML":
                return z3.And(self.is_c("SomeAV", t), self.is_c("RawV", inner))
            return Fz
        if isinstance(v, SAdt) and v.sort in ("AttrList",):
            return T if cls in ("dict", "TagAttrDict", "Mapping") else Fz
        if isinstance(v, SAdt) and v.sort in ("ArgDict",):
            return T if cls in ("dict", "Mapping") else Fz
        if isinstance(v, SAdt) and v.sort in ("ArgDicts",):
            return T if cls in ("tuple", "Sequence") else Fz
        h = getattr(self, "isinstance_hook3", None)
        return h(v, cls) if h else None

    def is_none_hook(self, a):
        if isinstance(a, SAdt) and a.sort == "AttrArg":
            return self.is_c("VNone", a.t)
        if isinstance(a, SAdt) and a.sort == "OptAV":
            return self.is_c("NoAV", a.t)
        h = getattr(self, "is_none_hook3", None)
        return h(a) if h else None

    def is_bool_hook(self, a, want):
        if isinstance(a, SAdt) and a.sort == "AttrArg":
            return z3.And(self.is_c("VBool", a.t), self.acc("VBool", "b", a.t) == z3.BoolVal(want))
        h = getattr(self, "is_bool_hook3", None)
        return h(a, want) if h else None

    def truth_hook(self, v):
        if isinstance(v, SAdt) and v.sort == "ArgDict":
            return self.F("dictNonEmpty", v.t)
        if isinstance(v, SAdt) and v.sort == "OptAV":
            inner = self.acc("SomeAV", "v", v.t)
            s = z3.If(self.is_c("Plain", inner), self.acc("Plain", "s", inner), self.acc("RawV", "s", inner))
            return z3.And(self.is_c("SomeAV", v.t), s != z3.StringVal(""))
        if isinstance(v, SAdt) and v.sort in self.extra_list_shapes:
            nil = self.extra_list_shapes[v.sort][0]
            return z3.Not(self.is_c(nil, v.t))
        if isinstance(v, SAdt) and v.sort in ("NodeList", "AttrList"):
            return z3.Not(self.is_c({"NodeList": "NNil", "AttrList": "ANil"}[v.sort], v.t))
        h = getattr(self, "truth_hook3", None)
        return h(v) if h else None

    def str_hook(self, v):
        if isinstance(v, SAdt) and v.sort == "AttrArg":
            i = self.choose([self.is_c("VStr", v.t), self.is_c("VHtml", v.t), self.is_c("VInt", v.t), self.is_c("VFloat", v.t),
                             z3.Not(z3.Or(self.is_c("VStr", v.t), self.is_c("VHtml", v.t), self.is_c("VInt", v.t), self.is_c("VFloat", v.t)))])
            if i == 0:
                return SStr(self.acc("VStr", "s", v.t))
            if i == 1:
                return SStr(self.acc("VHtml", "s", v.t))
            if i == 2:
                return SStr(self.w.funcs["strOfInt"](self.acc("VInt", "n", v.t)))
            if i == 3:
                return SStr(self.w.funcs["strOfFloat"](self.acc("VFloat", "fid", v.t)))
            raise Unsupported("str() of None/bool/other attribute argument")
        if isinstance(v, SAdt) and v.sort == "AddArg":
            return SStr(z3.If(self.is_c("APlain", v.t), self.acc("APlain", "s", v.t), z3.If(self.is_c("AHtml", v.t), self.acc("AHtml", "s", v.t), self.acc("AObj", "s", v.t))))
        if isinstance(v, (SOpaque, SClass)):
            return SStr(self.fresh("Str", "opaque_str"))      # e.g. type(x) inside an error message
        h = getattr(self, "str_hook3", None)
        return h(v) if h else None

    def get_slice_hook(self, obj, sl, node):
        if isinstance(obj, SStr) and sl.lower is None and sl.step is None and isinstance(sl.upper, ast.UnaryOp) and isinstance(sl.upper.op, ast.USub) \
                and isinstance(sl.upper.operand, ast.Constant) and sl.upper.operand.value == 1:
            return SStr(self.w.funcs["dropLast1"](obj.t))
        h = getattr(self, "get_slice_hook3", None)
        return h(obj, sl, node) if h else None

    def construct_hook(self, cls, pos, kw, node):
        if cls == "HTML" and len(pos) == 1 and not kw:
            return SAdt("AttrVal", self.C("RawV", self.str_of(pos[0], node).t), fresh=True)
        h = getattr(self, "construct_hook3", None)
        return h(cls, pos, kw, node) if h else None

    # ------------------------------------------------------------------ coercions between views
    def coerce_hook(self, v, sort):
        w = self.w
        if sort == "AttrVal":
            if isinstance(v, SStr):
                return SAdt("AttrVal", self.C("Plain", v.t))
            if isinstance(v, SAdt) and v.sort == "Node":
                if self.implied(z3.Or(self.is_c("Txt", v.t), self.is_c("Raw", v.t))):
                    return SAdt("AttrVal", z3.If(self.is_c("Txt", v.t), self.C("Plain", self.acc("Txt", "s", v.t)), self.C("RawV", self.acc("Raw", "s", v.t))))
            if isinstance(v, SAdt) and v.sort == "AttrArg":
                if self.implied(z3.Or(self.is_c("VStr", v.t), self.is_c("VHtml", v.t))):
                    return SAdt("AttrVal", z3.If(self.is_c("VStr", v.t), self.C("Plain", self.acc("VStr", "s", v.t)), self.C("RawV", self.acc("VHtml", "s", v.t))))
            if isinstance(v, SAdt) and v.sort == "OptAV" and self.implied(self.is_c("SomeAV", v.t)):
                return SAdt("AttrVal", self.acc("SomeAV", "v", v.t))
        if sort == "AddArg":
            if isinstance(v, SStr):
                return SAdt("AddArg", self.C("APlain", v.t))
            if isinstance(v, SAdt) and v.sort == "AttrVal":
                return SAdt("AddArg", z3.If(self.is_c("Plain", v.t), self.C("APlain", self.acc("Plain", "s", v.t)), self.C("AHtml", self.acc("RawV", "s", v.t))))
            if isinstance(v, SInt):
                return SAdt("AddArg", self.C("AObj", self.w.funcs["strOfInt"](v.t)))
        if sort == "AttrArg":
            if isinstance(v, SStr):
                return SAdt("AttrArg", self.C("VStr", v.t))
            if isinstance(v, SNone):
                return SAdt("AttrArg", self.C("VNone"))
            if isinstance(v, SBool):
                return SAdt("AttrArg", self.C("VBool", v.t))
            if isinstance(v, SInt):
                return SAdt("AttrArg", self.C("VInt", v.t))
            if isinstance(v, SAdt) and v.sort == "AttrVal":
                return SAdt("AttrArg", z3.If(self.is_c("Plain", v.t), self.C("VStr", self.acc("Plain", "s", v.t)), self.C("VHtml", self.acc("RawV", "s", v.t))))
            if isinstance(v, SAdt) and v.sort == "OptAV":
                inner = self.acc("SomeAV", "v", v.t)
                return SAdt("AttrArg", z3.If(self.is_c("NoAV", v.t), self.C("VNone"),
                                             z3.If(self.is_c("Plain", inner), self.C("VStr", self.acc("Plain", "s", inner)), self.C("VHtml", self.acc("RawV", "s", inner)))))
        if sort == "OptAV":
            if isinstance(v, SNone):
                return SAdt("OptAV", self.C("NoAV"))
            if isinstance(v, SStr):
                return SAdt("OptAV", self.C("SomeAV", self.C("Plain", v.t)))
            if isinstance(v, SAdt) and v.sort == "AttrVal":
                return SAdt("OptAV", self.C("SomeAV", v.t))
            if isinstance(v, SAdt) and v.sort == "AttrArg" and self.implied(z3.Or(self.is_c("VStr", v.t), self.is_c("VHtml", v.t))):
                return SAdt("OptAV", self.C("SomeAV", z3.If(self.is_c("VStr", v.t), self.C("Plain", self.acc("VStr", "s", v.t)), self.C("RawV", self.acc("VHtml", "s", v.t)))))
        if sort == "ArgDict":
            if isinstance(v, PyDict):
                t = self.C("DNil")
                for k, x in reversed(v.items):
                    if not isinstance(k, SStr):
                        return None
                    t = self.C("DCons", k.t, self.coerce_param(x, "AttrArg").t, t)
                return SAdt("ArgDict", t)
            if isinstance(v, SAdt) and v.sort == "AttrList":
                return None
        if sort == "ArgDicts":
            if isinstance(v, PySeq):
                t = self.C("DDNil")
                for x in reversed(v.items):
                    t = self.C("DDCons", self.coerce_param(x, "ArgDict").t, t)
                return SAdt("ArgDicts", t)
        if sort == "AttrList":
            if isinstance(v, PyDict):
                t = self.C("ANil")
                for k, x in reversed(v.items):
                    if not isinstance(k, SStr):
                        return None
                    t = self.C("ACons", k.t, self.coerce_param(x, "AttrVal").t, t)
                return SAdt("AttrList", t, fresh=v.fresh)
        if sort == "Str" and isinstance(v, SAdt) and v.sort == "OptAV":
            if self.implied(self.is_c("SomeAV", v.t)):
                return self.as_str(SAdt("AttrVal", self.acc("SomeAV", "v", v.t)))
            raise Unsupported("possibly-None value passed where str is required")
        if sort == "Str" and isinstance(v, SAdt) and v.sort == "AttrArg":
            if self.branch(self.is_c("VStr", v.t)):
                return SStr(self.acc("VStr", "s", v.t))
            raise Unsupported("non-str attribute argument passed where str is required")
        h = getattr(self, "coerce_hook3", None)
        return h(v, sort) if h else None

    def to_val(self, v):
        if isinstance(v, PyDict):
            c = self.coerce_hook(v, "AttrList")
            if c is not None:
                return Val("AttrList", c.t)
        return super().to_val(v)

    # ------------------------------------------------------------------ + on str | HTML
    def add_hook(self, a, b, node):
        def th(x):
            return isinstance(x, SAdt) and x.sort in ("AttrVal",)

        def unopt(x):
            if isinstance(x, SAdt) and x.sort == "OptAV" and self.implied(self.is_c("SomeAV", x.t)):
                return SAdt("AttrVal", self.acc("SomeAV", "v", x.t))
            return x
        a, b = unopt(a), unopt(b)
        if th(a) or th(b):
            if not ((th(a) or isinstance(a, SStr)) and (th(b) or isinstance(b, SStr))):
                return None
            # dispatch like CPython: type(a).__add__, then reflected type(b).__radd__
            if th(a):
                if self.branch(self.is_c("RawV", a.t)):
                    return self.call_q("htmltools._core.HTML.__add__", [a, b], node)
                a = SStr(self.acc("Plain", "s", a.t))
            if th(b):
                if self.branch(self.is_c("RawV", b.t)):
                    return self.call_q("htmltools._core.HTML.__radd__", [b, a], node)
                b = SStr(self.acc("Plain", "s", b.t))
            return SStr(z3.Concat(a.t, b.t))
        if isinstance(a, SAdt) and a.sort == "ArgDicts" and isinstance(b, PySeq) and b.kind == "tuple" and len(b.items) == 1:
            return SAdt("ArgDicts", self.F("ddsnoc", a.t, self.coerce_param(b.items[0], "ArgDict").t))
        h = getattr(self, "add_hook3", None)
        return h(a, b, node) if h else None

    def call_q(self, q, pos, node, kw=None):
        from .calls import call_function
        return call_function(self, q, pos, kw or {}, node)

    # ------------------------------------------------------------------ dict-like operations on AttrList values
    def contains_hook(self, container, x, node):
        if isinstance(container, SAdt) and container.sort == "AttrList":
            return self.F("ahas", container.t, self.coerce_param(x, "Str").t)
        h = getattr(self, "contains_hook3", None)
        return h(container, x, node) if h else None

    def get_item_hook(self, obj, k, node):
        if isinstance(obj, SAdt) and obj.sort == "AttrList":
            ks = self.coerce_param(k, "Str")
            if not self.branch(self.F("ahas", obj.t, ks.t)):
                self.raise_("KeyError", node)
            return SAdt("AttrVal", self.F("aget", obj.t, ks.t))
        h = getattr(self, "get_item_hook3", None)
        return h(obj, k, node) if h else None

    def writeback(self, target: ast.expr, newval: SV, node):
        """store `newval` as the new state of the object denoted by `target` (value semantics of mutation)"""
        if isinstance(target, ast.Name):
            old = self.st.env.get(target.id)
            if old is not None and not getattr(old, "fresh", False):
                self.oblige_frame(node, f"mutation of `{target.id}`, which is not local to this activation and not declared modifiable")
            newval.fresh = True
            self.st.env[target.id] = newval
            al = self.st.aliases.get(target.id)
            if al is not None and not getattr(self, "_in_alias_wb", False):
                self._in_alias_wb = True
                try:
                    self.writeback(al, SAdt(newval.sort, newval.t, fresh=True, pyclass=newval.pyclass), node)   # the same object is an element of that container
                finally:
                    self._in_alias_wb = False
            return
        if isinstance(target, ast.Subscript) and not isinstance(target.slice, ast.Slice):
            base = self.eval(target.value)
            if self.set_item_hook(base, target.slice, newval, target):
                return
            raise Unsupported(f"cannot write back through `{ast.unparse(target)}`")
        if isinstance(target, ast.Attribute):
            base = self.eval(target.value)
            if isinstance(base, SAdt) and base.sort == "Node" and target.attr in ("attrs", "children", "name", "add_ws"):
                t = base.t
                if not self.implied(self.is_c("El", t)):
                    raise Unsupported("attribute write on a node not known to be a Tag")
                flds = {"name": self.acc("El", "name", t), "ws": self.acc("El", "ws", t), "attrs": self.acc("El", "attrs", t), "kids": self.acc("El", "kids", t)}
                key = {"attrs": "attrs", "children": "kids", "name": "name", "add_ws": "ws"}[target.attr]
                flds[key] = self.to_val(newval).v
                nv = SAdt("Node", self.C("El", flds["name"], flds["ws"], flds["attrs"], flds["kids"]), fresh=base.fresh)
                return self.writeback(target.value, nv, node)
            if isinstance(base, PyRec):
                if not base.fresh:
                    self.oblige_frame(node, f"attribute write .{target.attr} on a non-local object")
                base.fields[target.attr] = newval
                return
            h = getattr(self, "writeback_hook3", None)
            if h and h(target, base, newval, node):
                return
        raise Unsupported(f"cannot write back through `{ast.unparse(target)}`")

    def set_item_hook(self, obj, sl, v, node):
        if isinstance(obj, SAdt) and obj.sort == "AttrList" and isinstance(node, ast.Subscript):
            k = self.coerce_param(self.eval(sl), "Str")
            val = self.coerce_param(v, "AttrVal")
            self.writeback(node.value, SAdt("AttrList", self.F("aset", obj.t, k.t, val.t)), node)
            return True
        if isinstance(obj, PyDict) and isinstance(node, ast.Subscript) and isinstance(node.value, ast.Name):
            # a local literal dict receiving symbolic keys: continue as an AttrList value when possible
            k = self.eval(sl)
            if isinstance(k, SStr) and not z3.is_string_value(z3.simplify(k.t)):
                al = self.coerce_hook(obj, "AttrList")
                if al is not None:
                    val = self.coerce_param(v, "AttrVal")
                    self.st.env[node.value.id] = SAdt("AttrList", self.F("aset", al.t, k.t, val.t), fresh=True)
                    return True
        h = getattr(self, "set_item_hook3", None)
        return h(obj, sl, v, node) if h else False

    def set_attr_hook(self, obj, attr, v, node):
        if isinstance(obj, SAdt) and obj.sort == "Node" and attr in ("attrs", "children", "name", "add_ws"):
            self.writeback(node, v, node)
            return True
        h = getattr(self, "set_attr_hook3", None)
        return h(obj, attr, v, node) if h else False

    def get_attr_hook(self, obj, attr, node):
        if isinstance(obj, SAdt) and obj.sort == "AttrVal" and attr == "data":
            if not self.implied(self.is_c("RawV", obj.t)):
                raise Unsupported(".data on a value not known to be HTML")
            return SStr(self.acc("RawV", "s", obj.t))
        h = getattr(self, "get_attr_hook3", None)
        return h(obj, attr, node) if h else None

    # ------------------------------------------------------------------ methods
    def method_hook(self, obj, meth, pos, kw, node):
        if isinstance(obj, SAdt) and obj.sort == "AttrList":
            if meth == "get":
                k = self.coerce_param(pos[0], "Str")
                has = self.F("ahas", obj.t, k.t)
                dflt = pos[1] if len(pos) > 1 else SNone()
                if isinstance(dflt, SNone):
                    return SAdt("OptAV", z3.If(has, self.C("SomeAV", self.F("aget", obj.t, k.t)), self.C("NoAV")))
                if self.branch(has):
                    return SAdt("AttrVal", self.F("aget", obj.t, k.t))
                return dflt
            if meth == "pop":
                k = self.coerce_param(pos[0], "Str")
                if not self.branch(self.F("ahas", obj.t, k.t)):
                    if len(pos) > 1:
                        return pos[1]
                    self.raise_("KeyError", node)
                old = SAdt("AttrVal", self.F("aget", obj.t, k.t))
                self.writeback(node.func.value, SAdt("AttrList", self.F("adel", obj.t, k.t)), node)
                return old
            if meth == "items" and not pos:
                return obj
        if isinstance(obj, SAdt) and obj.sort == "ArgDict" and meth == "items" and not pos:
            return obj
        if isinstance(obj, SAdt) and obj.sort == "AddArg" and meth in ("as_string", "__str__") and self.implied(self.is_c("AHtml", obj.t)):
            return self.call_q("htmltools._core.HTML." + meth, [SAdt("AttrVal", self.C("RawV", self.acc("AHtml", "s", obj.t)))], node)
        if isinstance(obj, SAdt) and obj.sort == "OptAV" and meth in ("split", "endswith"):
            # value known to be truthy str|HTML here
            if self.implied(self.is_c("SomeAV", obj.t)):
                inner = SAdt("AttrVal", self.acc("SomeAV", "v", obj.t))
                from .calls import call_method
                return call_method(self, inner, meth, pos, kw, node)
        h = getattr(self, "method_hook3", None)
        return h(obj, meth, pos, kw, node) if h else None

    # super().m(...) inside TagAttrDict / HTML / TagList methods
    def super_hook(self, meth, pos, kw, node):
        cls = self.current_class()
        selfv = self.st.env.get("self")
        if cls == "TagAttrDict" and isinstance(selfv, SAdt) and selfv.sort == "AttrList":
            if meth == "__init__" and not pos and not kw:
                return SNone()          # dict.__init__() without arguments leaves the (new, empty) dict as it is
            if meth == "__setitem__":
                k = self.coerce_param(pos[0], "Str")
                v = self.coerce_param(pos[1], "AttrVal")
                self.writeback(ast.Name("self", ast.Load()), SAdt("AttrList", self.F("aset", selfv.t, k.t, v.t)), node)
                return SNone()
            if meth == "update" and len(pos) == 1 and not kw:
                b = self.coerce_param(pos[0], "AttrList")
                self.writeback(ast.Name("self", ast.Load()), SAdt("AttrList", self.F("aupdate", selfv.t, b.t)), node)
                return SNone()
        h = getattr(self, "super_hook3", None)
        return h(cls, meth, pos, kw, node) if h else None

    def current_class(self):
        parts = self.fn_qual.split(".")
        return parts[-2] if len(parts) >= 2 else None
