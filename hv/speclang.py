"""L1 specification language (DESIGN §4.1b).

Spec modules are ordinary Python restricted to a pure, total, first-order subset.  This module
provides
  * `adt(...)`      : declare (mutually recursive) algebraic datatypes -> real Python classes
                      (usable in `match`), z3 datatypes, Lean inductives;
  * `@spec`         : register a spec function (source kept; body parsed with `ast`);
  * `@abstract`     : an uninterpreted parameter function (Lean: field of `Cfg`; z3: uninterpreted;
                      Python: bound per run from the constants read from /repo);
  * `@prim`         : a primitive whose three forms are hand written (Python body here, Lean text in
                      hv/lean/HV/Prim.lean, z3 = uninterpreted or RecFunction given by `z3def`).
Back ends: `hv.emit_z3` and `hv.emit_lean`; Python = run as is.
"""
from __future__ import annotations
import ast, inspect, textwrap, dataclasses
from dataclasses import dataclass, field
from typing import Callable, Optional

BASE_SORTS = ("Str", "Int", "Nat", "Bool")


@dataclass
class Ctor:
    name: str
    fields: list  # [(fname, sortname)]
    adt: "ADT" = None
    pyclass: type = None


@dataclass
class ADT:
    name: str
    ctors: list
    group: list = None  # names of ADTs in the same mutual group (declaration order)


@dataclass
class SpecFn:
    name: str
    params: list          # [(pname, sortname)]
    ret: str
    kind: str             # 'spec' | 'abstract' | 'prim'
    node: ast.FunctionDef = None
    pyfn: Callable = None
    module: str = ""
    lean: Optional[str] = None     # for prims: Lean name (definition lives in Prim.lean)
    z3def: Optional[Callable] = None
    doc: str = ""
    group: str = "cfg"    # for abstract functions: which parameter structure they live in (cfg = constants of /repo, env = user objects)


class Registry:
    def __init__(self):
        self.adts: dict[str, ADT] = {}
        self.ctors: dict[str, Ctor] = {}
        self.fns: dict[str, SpecFn] = {}
        self.order: list[str] = []      # declaration order of adts and fns ("adt:Name"/"fn:name")
        self.tuples: dict[str, list] = {}

    # ---- queries ----
    def sort_exists(self, s):
        return s in BASE_SORTS or s in self.adts

    def callees(self, fn: SpecFn) -> set:
        if fn.node is None:
            return set()
        out = set()
        for n in ast.walk(fn.node):
            if isinstance(n, ast.Call) and isinstance(n.func, ast.Name) and n.func.id in self.fns:
                out.add(n.func.id)
        return out

    def uses_cfg(self, name, group="cfg") -> bool:
        """True when the function (transitively) calls an @abstract parameter of the given group."""
        cache = self.__dict__.setdefault("_uses_cache", {})
        key = (name, group)
        if key in cache:
            return cache[key]
        # fixpoint over the call graph (handles mutual recursion)
        seen, stack, found = set(), [name], False
        while stack:
            n = stack.pop()
            if n in seen:
                continue
            seen.add(n)
            fn = self.fns[n]
            if fn.kind == "abstract":
                if fn.group == group:
                    found = True
                    break
                continue
            stack.extend(self.callees(fn))
        cache[key] = found
        return found

    def sccs(self):
        """Strongly connected components of spec functions in dependency order (Tarjan)."""
        names = [n for n in self.fns if self.fns[n].kind == "spec"]
        index, low, onst, st, out, idx = {}, {}, set(), [], [], [0]
        import sys
        sys.setrecursionlimit(10000)

        def visit(v):
            index[v] = low[v] = idx[0]; idx[0] += 1; st.append(v); onst.add(v)
            for w in sorted(self.callees(self.fns[v])):
                if self.fns[w].kind != "spec":
                    continue
                if w not in index:
                    visit(w); low[v] = min(low[v], low[w])
                elif w in onst:
                    low[v] = min(low[v], index[w])
            if low[v] == index[v]:
                comp = []
                while True:
                    w = st.pop(); onst.discard(w); comp.append(w)
                    if w == v:
                        break
                out.append(sorted(comp, key=lambda n: names.index(n)))
        for v in names:
            if v not in index:
                visit(v)
        return out

    def is_recursive(self, name) -> bool:
        for comp in self.sccs():
            if name in comp:
                return len(comp) > 1 or name in self.callees(self.fns[name])
        return False


REG = Registry()


def adt(**decls):
    """adt(Node=dict(Txt=dict(s='Str'), ...), NodeList=dict(NNil={}, NCons=dict(hd='Node', tl='NodeList')))
    Declares one mutual group.  Returns the Python classes in a dict and injects them in the caller's
    module namespace."""
    group = list(decls)
    frame = inspect.currentframe().f_back
    out = {}
    for aname, ctors in decls.items():
        a = ADT(aname, [], group)
        for cname, flds in ctors.items():
            fl = list(flds.items())
            cls = dataclasses.make_dataclass(cname, [(f, object) for f, _ in fl], frozen=True)
            cls.__adt__ = aname
            c = Ctor(cname, fl, a, cls)
            a.ctors.append(c)
            assert cname not in REG.ctors, f"duplicate constructor {cname}"
            REG.ctors[cname] = c
            out[cname] = cls
            frame.f_globals[cname] = cls
        REG.adts[aname] = a
        REG.order.append("adt:" + aname)
    return out


def _mk(kind, fn, **kw):
    src = textwrap.dedent(inspect.getsource(fn))
    node = ast.parse(src).body[0]
    params = []
    for a in node.args.args:
        assert a.annotation is not None, f"{fn.__name__}: parameter {a.arg} needs a sort annotation"
        params.append((a.arg, _ann(a.annotation)))
    ret = _ann(node.returns)
    sf = SpecFn(fn.__name__, params, ret, kind, node if kind == "spec" else None, fn, fn.__module__,
                doc=ast.get_docstring(node) or "", **kw)
    assert fn.__name__ not in REG.fns, f"duplicate spec function {fn.__name__}"
    REG.fns[fn.__name__] = sf
    REG.order.append("fn:" + fn.__name__)
    fn.__spec__ = sf
    return fn


def _ann(a):
    if isinstance(a, ast.Constant):
        return a.value
    if isinstance(a, ast.Name):
        return a.id
    raise ValueError("bad sort annotation " + ast.dump(a))


def spec(fn):
    return _mk("spec", fn)


def abstract(fn=None, group="cfg"):
    """Parameter function: body is the *default Python binding* (may be rebound per run)."""
    if fn is None:
        return lambda f: _mk("abstract", f, group=group)
    return _mk("abstract", fn)


def prim(lean=None, z3def=None):
    def deco(fn):
        return _mk("prim", fn, lean=lean or fn.__name__, z3def=z3def)
    return deco


# The annotation names used by spec modules
Str = "Str"; Int = "Int"; Nat = "Nat"; Bool = "Bool"
