"""Ghost global state for the display-hook chain (C17) and the pieces needed by HTMLDocument (C11, C08):
find-first loops, map comprehensions over symbolic lists, write-through for local aliases of list elements."""
from __future__ import annotations
import ast
import z3
from .symexec import (SV, SStr, SBool, SInt, SNone, SEllipsis, SAdt, PyConst, PySeq, PyDict, PyRec, SClass, SFunc, SBuiltin, SExc, SOpaque,
                      SModule, Unsupported, _Raise, Obligation)
from .interp4 import Interp4
from .speceval import Val

WORLD = "$world"


class Interp5(Interp4):
    # ------------------------------------------------------------------ C17: sys.displayhook and prev_displayhook as ghost state
    def world(self):
        w = self.st.env.get(WORLD)
        if w is None:
            raise Unsupported("sys.displayhook / prev_displayhook used in a function without a ghost world parameter")
        return w

    def set_world(self, t):
        self.st.env[WORLD] = SAdt("World", t, fresh=True)

    def get_attr_hook5(self, obj, attr, node):
        if isinstance(obj, SModule) and obj.name == "sys" and attr == "displayhook":
            return SAdt("Hook", self.w.acc(self.ctor("World"), "hook", self.world().t))
        if isinstance(obj, PyRec) and obj.cls == "TagRef" and attr == "prev_displayhook":
            st = self.F("tget", self.w.acc(self.ctor("World"), "tags", self.world().t), obj.fields["tid"].t)
            return SAdt("OptHook", self.w.acc(self.ctor("TagSt"), "pdh", st))
        if isinstance(obj, PyRec) and obj.cls == "TagRef" and attr == "append":
            return SBuiltin("append", bound=obj)
        h = getattr(self, "get_attr_hook6", None)
        return h(obj, attr, node) if h else None

    def set_attr_hook5(self, obj, attr, v, node):
        W = self.ctor("World")
        if isinstance(obj, SModule) and obj.name == "sys" and attr == "displayhook":
            w = self.world().t
            hk = self.coerce_param(v, "Hook")
            self.set_world(self.C("World", hk.t, self.w.acc(W, "tags", w), self.w.acc(W, "outer", w)))
            return True
        if isinstance(obj, PyRec) and obj.cls == "TagRef" and attr == "prev_displayhook":
            w = self.world().t
            tid = obj.fields["tid"].t
            tags = self.w.acc(W, "tags", w)
            st = self.F("tget", tags, tid)
            new = self.C("TagSt", self.coerce_param(v, "OptHook").t, self.w.acc(self.ctor("TagSt"), "kids", st))
            self.set_world(self.C("World", self.w.acc(W, "hook", w), self.F("tset", tags, tid, new), self.w.acc(W, "outer", w)))
            return True
        h = getattr(self, "set_attr_hook6", None)
        return h(obj, attr, v, node) if h else False

    def set_attr(self, obj, attr, v, node):
        if self.set_attr_hook5(obj, attr, v, node):
            return
        return super().set_attr(obj, attr, v, node)

    def str_of(self, v, node=None):
        if isinstance(v, SInt) and getattr(v, "is_version", False):
            return SStr(self.w.funcs["verStr"](v.t))
        return super().str_of(v, node)

    def resolve_import(self, module, name, level):
        if name == "html_dependency_render_mode":
            # a mutable module global: its value at call time is a ghost input of the function
            if "$render_mode" not in self.st.env:
                self.st.env["$render_mode"] = SStr(self.fresh("Str", "render_mode"))
            return self.st.env["$render_mode"]
        return super().resolve_import(module, name, level)

    def str_method_hook(self, s, meth, pos, kw, node):
        if meth == "join" and len(pos) == 1 and isinstance(pos[0], SAdt) and pos[0].sort == "StrList":
            sep = z3.simplify(s.t)
            if z3.is_string_value(sep) and sep.as_string() == ";":
                return SStr(self.w.funcs["joinSemi"](pos[0].t))
            if z3.is_string_value(sep) and sep.as_string() == "\n":
                return SStr(self.w.funcs["joinNl"](pos[0].t))
        return super().str_method_hook(s, meth, pos, kw, node)

    def get_attr_hook6(self, obj, attr, node):
        if isinstance(obj, SClass) and obj.name == "HTMLDocument" and self.contracts.has("htmltools._core.HTMLDocument." + attr):
            return SFunc("htmltools._core.HTMLDocument." + attr)
        if isinstance(obj, PyRec) and obj.cls == "HTMLDocument" and self.contracts.method("HTMLDocument", attr):
            return SFunc(self.contracts.method("HTMLDocument", attr), bound=obj)
        return None

    # ---- Tag.__copy__ on the record view of a Tag (C08) ---------------------------------------------------------
    def expr_DictComp(self, e):
        g = e.generators[0]
        src = self.eval(g.iter)
        items = self.iter_concrete(src, e)
        out = PyDict([], True)
        saved = dict(self.st.env)
        for it in items:
            self.assign(g.target, it)
            if all(self.branch(self.truth(self.eval(c))) for c in g.ifs):
                self.dict_set(out, self.eval(e.key), self.eval(e.value))
        self.st.env = saved
        return out

    def get_attr(self, obj, attr, node):
        if isinstance(obj, PyRec) and attr == "__class__":
            return SClass(obj.cls)
        if isinstance(obj, PyRec) and attr == "__dict__":
            d = PyDict([(SStr(z3.StringVal(k)), v) for k, v in obj.fields.items()], fresh=obj.fresh)
            d.owner = obj
            return d
        if isinstance(obj, SClass) and attr == "__new__":
            return SBuiltin("__new__", bound=obj)
        return super().get_attr(obj, attr, node)

    def identical(self, a, b):
        from .symexec import SEllipsis
        if isinstance(b, SEllipsis):
            if isinstance(a, SEllipsis):
                return z3.BoolVal(True)
            if isinstance(a, SAdt) and a.sort == "DVal":
                return self.is_c("DEllipsis", a.t)
            return z3.BoolVal(False)
        return super().identical(a, b)

    def is_none_hook4(self, a):
        if isinstance(a, SAdt) and a.sort == "OptHook":
            return self.is_c("NoHook", a.t)
        if isinstance(a, SAdt) and a.sort == "DVal":
            return self.is_c("DNone", a.t)
        h = getattr(self, "is_none_hook5", None)
        return h(a) if h else None

    def coerce_hook5(self, v, sort):
        if sort == "OptHook":
            if isinstance(v, SNone):
                return SAdt("OptHook", self.C("NoHook"))
            if isinstance(v, SAdt) and v.sort == "Hook":
                return SAdt("OptHook", self.C("SomeHook", v.t))
        if sort == "Hook" and isinstance(v, SAdt) and v.sort == "OptHook":
            # cast(Callable, self.prev_displayhook): the saved hook (HBase when none was saved, as savedHook does)
            return SAdt("Hook", z3.If(self.is_c("SomeHook", v.t), self.acc("SomeHook", "h", v.t), self.C("HBase")))
        if sort == "DVal":
            if isinstance(v, PyRec) and v.cls == "TagRef":
                return SAdt("DVal", self.C("DTagRef", v.fields["tid"].t))
            if isinstance(v, PyRec) and v.cls == "HtmlOf":
                return SAdt("DVal", self.C("DRepr", v.fields["x"].t))
        h = getattr(self, "coerce_hook6", None)
        return h(v, sort) if h else None

    def isinstance_hook5(self, v, cls):
        T, Fz = z3.BoolVal(True), z3.BoolVal(False)
        if isinstance(v, SAdt) and v.sort == "DVal":
            t = v.t
            taglike = z3.Or(self.is_c("DTagLike", t), self.is_c("DTagRef", t))
            if cls in ("Tag", "TagList", "Tagifiable"):
                # DTagLike stands for any of the three; the wrapper tests them together
                return taglike
            if cls == "ReprHtml":
                return z3.Or(taglike, self.is_c("DRepr", t))
        h = getattr(self, "isinstance_hook6", None)
        return h(v, cls) if h else None

    def equal(self, a, b, node):
        if isinstance(a, SAdt) and a.sort == "DVal":
            if isinstance(b, SNone):
                return self.is_c("DNone", a.t)
            if isinstance(b, SEllipsis):
                return self.is_c("DEllipsis", a.t)
        if isinstance(b, SAdt) and b.sort == "DVal":
            return self.equal(b, a, node)
        return super().equal(a, b, node)

    def method_hook5(self, obj, meth, pos, kw, node):
        if isinstance(obj, SClass) and meth == "__new__":
            return PyRec(obj.name, {}, fresh=True)
        if isinstance(obj, PyDict) and getattr(obj, "owner", None) is not None and meth == "update" and len(pos) == 1:
            owner = obj.owner
            if not owner.fresh:
                self.oblige_frame(node, "__dict__.update on an object that is not local")
            for k, v in self.dict_items(pos[0], node):
                ks = z3.simplify(k.t)
                if not z3.is_string_value(ks):
                    raise Unsupported("__dict__ key")
                owner.fields[ks.as_string()] = v
            return SNone()
        if isinstance(obj, PyDict) and getattr(obj, "owner", None) is not None and meth == "items" and not pos:
            return PySeq([PySeq([k, v], "tuple") for k, v in obj.items], "list", True)
        if isinstance(obj, SAdt) and obj.sort == "DVal" and meth == "_repr_html_" and not pos:
            if self.implied(self.is_c("DRepr", obj.t)):
                return PyRec("ReprOut", {"x": SInt(self.acc("DRepr", "v", obj.t))}, fresh=True)
        h = getattr(self, "method_hook6", None)
        return h(obj, meth, pos, kw, node) if h else None

    def construct_hook4(self, cls, pos, kw, node):
        if cls == "HTML" and len(pos) == 1 and isinstance(pos[0], PyRec) and pos[0].cls == "ReprOut":
            return PyRec("HtmlOf", {"x": pos[0].fields["x"]}, fresh=True)
        h = getattr(self, "construct_hook5", None)
        return h(cls, pos, kw, node) if h else None

    def construct_hook(self, cls, pos, kw, node):
        r = self.construct_hook4(cls, pos, kw, node)
        if r is not None:
            return r
        return super().construct_hook(cls, pos, kw, node)

    def deliver_to(self, hook_t, val: SV, node):
        """call the hook value `hook_t` with `val` in the current world: the L1 `deliver` with that hook installed"""
        W = self.ctor("World")
        w = self.world().t
        dv = self.coerce_param(val, "DVal")
        res = self.F("deliver", self.C("World", hook_t, self.w.acc(W, "tags", w), self.w.acc(W, "outer", w)), dv.t)
        R = self.ctor("Res")
        raised = self.w.acc(R, "raised", res)
        if self.branch(raised):
            raise _Raise(SExc("TypeError", []), getattr(node, "lineno", None))
        w2 = self.w.acc(R, "w", res)
        # the hook installed globally is not changed by delivering (only the receiving tag's children / the outer log)
        self.set_world(self.C("World", self.w.acc(W, "hook", w), self.w.acc(W, "tags", w2), self.w.acc(W, "outer", w2)))
        return SNone()

    def call_hook(self, fv, pos, kw, node):
        if isinstance(fv, SAdt) and fv.sort == "Hook" and len(pos) == 1 and not kw:
            return self.deliver_to(fv.t, pos[0], node)
        if isinstance(fv, PyRec) and fv.cls == "Handler" and len(pos) == 1 and not kw:
            # handler(value): the bound Tag.append of tag `tid` (C14: accepts valid children, TypeError otherwise)
            tid = fv.fields["tid"].t
            return self.deliver_handler(tid, pos[0], node)
        h = getattr(self, "call_hook6", None)
        return h(fv, pos, kw, node) if h else None

    def deliver_handler(self, tid, val, node):
        W = self.ctor("World")
        w = self.world().t
        dv = self.coerce_param(val, "DVal")
        acc = self.F("wrapAccepts", dv.t)
        if not self.branch(acc):
            raise _Raise(SExc("TypeError", []), getattr(node, "lineno", None))
        self.set_world(self.F("appendKid", w, tid, self.F("itemOf", dv.t)))
        return SNone()


# =====================================================================================================
# HTMLDocument support (C11, C08)
# =====================================================================================================
def _install_doc_support():
    def get_item_hook5(self, obj, k, node):
        fo = getattr(k, "first_of", None)
        if fo is not None and isinstance(obj, SAdt):
            lst_t, rule = fo
            cur = getattr(self, "_first_of_current", {}).get(id(rule), lst_t)
            esort = self.ctor(self.list_shape(obj)[1]).fields[0][1]
            if obj.t.eq(cur) or obj.t.eq(lst_t) or z3.simplify(obj.t).eq(z3.simplify(lst_t)):
                elem = self.wrap(esort, self.w.apply(rule.first, obj.t), fresh=False)
                if rule.first_sat_lemma and rule.first_sat_lemma in getattr(self, "available_lemmas", ()):
                    # instance of the imported lemma has(l) -> pred(first(l)); has(l) holds on this path
                    self.st.pc.append(z3.Implies(self.w.apply(rule.has, obj.t), spec_bool_(self, rule.pred, {"c": self.to_val(elem)})))
                return elem
            # the list was rebuilt by replacing that very element: reading it gives the replacement
            d = z3.simplify(obj.t)
            if z3.is_app(d) and d.decl().name() == rule.replace and d.num_args() == 2:
                return self.wrap(esort, d.arg(1), fresh=True)
            raise Unsupported("read at a first-match index of a list that changed since the search")
        h = getattr(self, "get_item_hook6", None)
        return h(obj, k, node) if h else None

    def set_item_hook5(self, obj, sl, v, node):
        if isinstance(obj, SAdt) and not isinstance(sl, ast.Slice) and isinstance(node, ast.Subscript):
            kx = self.eval(sl)
            fo = getattr(kx, "first_of", None)
            if fo is not None:
                lst_t, rule = fo
                esort = self.ctor(self.list_shape(obj)[1]).fields[0][1]
                val = self.coerce_param(v, esort)
                base = obj.t
                d = z3.simplify(obj.t)
                if z3.is_app(d) and d.decl().name() == rule.replace and d.num_args() == 2:
                    base = d.arg(0)          # replace(replace(l, a), b) == replace(l, b): the position of the first match is kept (names stay `head`)
                    self.oblige(f"R:{self.short()}:L{node.lineno}:still-first-match", spec_bool_(self, rule.pred, {"c": self.to_val(self.wrap(esort, d.arg(1)))}),
                                where=self.src.line(self.module, node), note="the element written earlier at this index still satisfies the search predicate")
                elif not (obj.t.eq(lst_t) or d.eq(z3.simplify(lst_t))):
                    raise Unsupported("write at a first-match index of a list that changed since the search")
                self.writeback(node.value, SAdt(obj.sort, self.w.apply(rule.replace, base, self.to_val(val).v)), node)
                return True
            if isinstance(kx, SInt) and z3.is_int_value(z3.simplify(kx.t)) and self.list_shape(obj):
                # concrete index into a symbolic list whose prefix is known
                idx = z3.simplify(kx.t).as_long()
                nil, cons, tl = self.list_shape(obj)
                c = self.ctor(cons)
                esort = c.fields[0][1]
                heads, t = [], obj.t
                for _ in range(idx + 1):
                    if not self.implied(self.is_c(cons, t)):
                        raise Unsupported("item assignment beyond the known prefix of a symbolic list")
                    heads.append(self.acc(cons, c.fields[0][0], t))
                    t = self.acc(cons, tl, t)
                val = self.coerce_param(v, esort)
                new = self.w.ctor_fn(c)(self.to_val(val).v, t)
                for hv in reversed(heads[:-1]):
                    new = self.w.ctor_fn(c)(hv, new)
                self.writeback(node.value, SAdt(obj.sort, new), node)
                return True
        h = getattr(self, "set_item_hook6", None)
        return h(obj, sl, v, node) if h else False

    def get_item_hook6(self, obj, k, node):
        if isinstance(obj, SAdt) and obj.sort == "Rendered" and isinstance(k, SStr):
            ks = z3.simplify(k.t)
            if z3.is_string_value(ks) and ks.as_string() in ("html", "dependencies"):
                R = self.ctor("Rendered")
                if ks.as_string() == "html":
                    return SStr(self.w.acc(R, "html", obj.t))
                return SAdt("DepList", self.w.acc(R, "deps", obj.t), fresh=obj.fresh)
        return None

    def set_item_hook6(self, obj, sl, v, node):
        if isinstance(obj, SAdt) and obj.sort == "Rendered" and isinstance(node, ast.Subscript):
            k = self.eval(sl)
            ks = z3.simplify(k.t) if isinstance(k, SStr) else None
            if ks is not None and z3.is_string_value(ks) and ks.as_string() == "html":
                R = self.ctor("Rendered")
                self.writeback(node.value, SAdt("Rendered", self.C("Rendered", self.w.acc(R, "deps", obj.t), self.coerce_param(v, "Str").t)), node)
                return True
        return False

    Interp5.get_item_hook6 = get_item_hook6
    Interp5.set_item_hook6 = set_item_hook6
    Interp5.get_item_hook5 = get_item_hook5
    Interp5.set_item_hook5 = set_item_hook5


def spec_bool_(I, expr, env):
    from .calls import spec_bool
    return spec_bool(I, expr, env, "first-match")


_install_doc_support()
