"""Calls inside verified code: callee contracts, library models (A3), constructors."""
from __future__ import annotations
import ast
import z3
from .symexec import (SV, SStr, SBool, SInt, SNone, SAdt, PyConst, PySeq, PyDict, PyRec, SClass, SFunc, SBuiltin, SExc,
                      SOpaque, SEllipsis, Unsupported, _Raise, _concat)
from .speceval import Val
from .speclang import SpecFn
from .extract import is_static, OrderedSet

EXC_NAMES = {"RuntimeError", "TypeError", "ValueError", "KeyError", "Exception", "NotImplementedError", "ImportError", "IndexError"}


class Star:
    """`*xs` / `**kw` of a symbolic (unknown-length) collection, forwarded whole to the callee's *args / **kwargs"""
    def __init__(self, v):
        self.v = v


def eval_args(I, e: ast.Call):
    pos, kw = [], {}
    for a in e.args:
        if isinstance(a, ast.Starred):
            v = I.eval(a.value)
            if isinstance(v, (SAdt, SOpaque)):
                pos.append(Star(v))
            else:
                pos.extend(I.iter_concrete(v, a))
        else:
            pos.append(I.eval(a))
    for k in e.keywords:
        if k.arg is None:
            d = I.eval(k.value)
            if isinstance(d, (SAdt, SOpaque)):
                kw["**"] = Star(d)
                continue
            for kk, vv in I.dict_items(d, e):
                if not (isinstance(kk, SStr) and z3.is_string_value(z3.simplify(kk.t))):
                    raise Unsupported("**kwargs with symbolic keys")
                kw[z3.simplify(kk.t).as_string()] = vv
        else:
            kw[k.arg] = I.eval(k.value)
    return pos, kw


def do_call(I, e: ast.Call) -> SV:
    f = e.func
    # super().method(...)
    if isinstance(f, ast.Attribute) and isinstance(f.value, ast.Call) and isinstance(f.value.func, ast.Name) and f.value.func.id == "super":
        hook = getattr(I, "super_hook", None)
        if hook:
            pos, kw = eval_args(I, e)
            r = hook(f.attr, pos, kw, e)
            if r is not None:
                return r
        raise Unsupported(f"super().{f.attr}")
    fv = I.eval(f)
    if isinstance(fv, SBuiltin) and fv.bound is None and fv.name in ("any", "all") and len(e.args) == 1 and isinstance(e.args[0], (ast.GeneratorExp, ast.ListComp)):
        return any_all(I, fv.name, e.args[0], e)
    # isinstance / cast need unevaluated type arguments
    if isinstance(fv, SBuiltin) and fv.bound is None:
        if fv.name == "isinstance":
            return call_isinstance(I, e)
        if fv.name == "cast":
            return I.eval(e.args[1])
    pos, kw = eval_args(I, e)
    return apply_value(I, fv, pos, kw, e)


def _pure_pred(x):
    for n in ast.walk(x):
        if isinstance(n, ast.Call) and not (isinstance(n.func, ast.Name) and n.func.id in ("isinstance", "len")):
            return False
        if isinstance(n, (ast.Lambda, ast.Await, ast.Yield, ast.NamedExpr)):
            return False
    return True


def any_all(I, which, comp, node):
    """any(p(x) for x in xs) / all(...): exact over a concrete-length iterable; over a symbolic list with a
    side-effect-free predicate the value is an unconstrained Bool (over-approximation: both outcomes explored)."""
    g = comp.generators[0]
    src = I.eval(g.iter)
    if len(comp.generators) != 1 or not _pure_pred(comp.elt) or not all(_pure_pred(c) for c in g.ifs):
        raise Unsupported(f"{which}() over a generator with calls")
    if isinstance(src, (PySeq, PyDict, PyConst)):
        acc = z3.BoolVal(which == "all")
        saved = dict(I.st.env)
        for it in I.iter_concrete(src, node):
            I.assign(g.target, it)
            conds = [I.truth(I.eval(c)) for c in g.ifs]
            v = I.truth(I.eval(comp.elt))
            guard = z3.And(*conds) if conds else z3.BoolVal(True)
            acc = z3.Or(acc, z3.And(guard, v)) if which == "any" else z3.And(acc, z3.Implies(guard, v))
        I.st.env = saved
        return SBool(acc)
    if isinstance(src, SAdt) and I.list_shape(src):
        b = I.fresh("Bool", f"{which}_over_list_L{getattr(node, 'lineno', 0)}")
        return SBool(b)
    raise Unsupported(f"{which}() over {src!r}")


def call_isinstance(I, e):
    v = I.eval(e.args[0])
    targ = e.args[1]
    names = []
    for t in (targ.elts if isinstance(targ, ast.Tuple) else [targ]):
        if isinstance(t, ast.Name) and t.id in I.st.env:
            # a local variable in the type position (e.g. `cls = type(x); isinstance(y, cls)`): its value, not its name
            tv = I.st.env[t.id]
            if isinstance(tv, SClass):
                names.append(tv.name)
            else:
                raise Unsupported(f"isinstance against the local variable `{t.id}`")
        elif isinstance(t, ast.Name):
            names.append(t.id)
        elif isinstance(t, ast.Attribute):
            names.append(t.attr)
        elif isinstance(t, ast.Call):
            tv = I.eval(t)
            if isinstance(tv, SClass):
                names.append(tv.name)
            else:
                raise Unsupported("isinstance against a computed type")
        else:
            raise Unsupported("isinstance type argument")
    terms = [I.isinstance_term(v, n) for n in names]
    if any(t is None for t in terms):
        raise Unsupported(f"isinstance({v!r}, {names})")
    return SBool(z3.Or(*terms) if len(terms) > 1 else terms[0])


def apply_value(I, fv, pos, kw, node) -> SV:
    if isinstance(fv, SBuiltin):
        if fv.bound is not None:
            return call_method(I, fv.bound, fv.name, pos, kw, node)
        return call_builtin(I, fv.name, pos, kw, node)
    if isinstance(fv, SFunc):
        if fv.bound is not None:
            return call_function(I, fv.qualname, [fv.bound] + pos, kw, node)
        return call_function(I, fv.qualname, pos, kw, node)
    if isinstance(fv, SClass):
        return construct(I, fv.name, pos, kw, node)
    hook = getattr(I, "call_hook", None)
    if hook:
        r = hook(fv, pos, kw, node)
        if r is not None:
            return r
    raise Unsupported(f"call of {fv!r}")


# ------------------------------------------------------------------------------------------------
def call_builtin(I, name, pos, kw, node):
    hook0 = getattr(I, "builtin_hook", None)
    if hook0 and name in ("list", "tuple", "type", "dict"):
        r = hook0(name, pos, kw, node)
        if r is not None:
            return r
    if name == "len":
        return I.len_of(pos[0], node)
    if name == "str":
        return I.str_of(pos[0], node)
    if name == "repr":
        return I.str_of(pos[0], node)
    if name in ("list", "tuple"):
        if not pos:
            return PySeq([], name, True)
        return PySeq(I.iter_concrete(pos[0], node), name, True)
    if name == "dict":
        d = PyDict([], True)
        if pos:
            for k, v in I.dict_items(pos[0], node):
                I.dict_set(d, k, v)
        for k, v in kw.items():
            I.dict_set(d, SStr(z3.StringVal(k)), v)
        return d
    if name == "copy":
        return copy_value(I, pos[0], node)
    if name == "re.search":
        return re_search(I, pos, node)
    hook = getattr(I, "builtin_hook", None)
    if hook:
        r = hook(name, pos, kw, node)
        if r is not None:
            return r
    if name == "type":
        return SOpaque("type")
    raise Unsupported(f"builtin {name}")


REGEX_META = set(".^$*+?{}[]\\|()")


def re_search(I, pos, node):
    """A3: re.search(p, s) for p an alternation of single literal (non-meta) characters is truthy iff
    some alternative occurs in s.  The result is used only for its truth value."""
    pat, s = pos[0], pos[1]
    pt = z3.simplify(pat.t) if isinstance(pat, SStr) else None
    if pt is None or not z3.is_string_value(pt) or not isinstance(s, SStr):
        raise Unsupported("re.search with a non-constant pattern")
    p = pt.as_string()
    p = _z3_unescape(p)
    alts = p.split("|")
    if not alts or any(len(a) != 1 or a in REGEX_META for a in alts):
        raise Unsupported(f"re.search pattern {p!r} is outside the modelled fragment (alternation of single literal characters)")
    return SBool(z3.Or(*[z3.Contains(s.t, z3.StringVal(a)) for a in alts]))


def _z3_unescape(s):
    import re as _re
    return _re.sub(r"\\u\{([0-9a-fA-F]+)\}", lambda m: chr(int(m.group(1), 16)), s)


def copy_value(I, v, node):
    """copy.copy per type (A3): immutable atoms shared; Tag -> Tag.__copy__ contract; TagList/UserList copy"""
    if isinstance(v, (SStr, SInt, SBool, SNone)):
        return v
    if isinstance(v, SAdt):
        q = {"Node": None, "NodeList": "collections.UserList.__copy__", "AttrList": None}.get(v.sort)
        # value semantics: the copy is an equal value that is locally owned (fresh)
        if v.sort == "Node":
            # Tag.__copy__ / MetadataNode copy / str / HTML(UserString) : equal value, fresh object
            return SAdt(v.sort, v.t, fresh=True, pyclass=v.pyclass)
        return SAdt(v.sort, v.t, fresh=True, pyclass=v.pyclass)
    if isinstance(v, PySeq):
        return PySeq(list(v.items), v.kind, True)
    if isinstance(v, PyDict):
        return PyDict(list(v.items), True)
    if isinstance(v, PyRec):
        hook = getattr(I, "copy_hook", None)
        if hook:
            r = hook(v, node)
            if r is not None:
                return r
    raise Unsupported(f"copy({v!r})")


# ------------------------------------------------------------------------------------------------
def pyclass_of(I, v: SV, node):
    """Python class used for method dispatch; forks on the constructor for Node values."""
    if isinstance(v, SAdt):
        if v.pyclass:
            return v.pyclass
        if v.sort == "NodeList":
            return "TagList"
        if v.sort == "AttrList":
            return "TagAttrDict"
        if v.sort == "Dep":
            return "HTMLDependency"
        if v.sort == "Node":
            names = ["El", "Txt", "Raw", "Md", "Rp", "Ob"]
            i = I.choose([I.is_c(n, v.t) for n in names])
            return {"El": "Tag", "Txt": "str", "Raw": "HTML", "Md": "MetadataNode", "Rp": "ReprObj", "Ob": "TagifiableObj"}[names[i]]
        if v.sort == "AttrVal":
            i = I.choose([I.is_c("Plain", v.t), I.is_c("RawV", v.t)])
            return ["str", "HTML"][i]
    if isinstance(v, SStr):
        return "str"
    if isinstance(v, PyRec):
        return v.cls
    if isinstance(v, PySeq):
        return v.kind
    if isinstance(v, PyDict):
        return "dict"
    if isinstance(v, PyConst):
        return "dict" if isinstance(v.v, dict) else "set"
    return None


def call_method(I, obj, meth, pos, kw, node):
    hook = getattr(I, "method_hook", None)
    if hook:
        r = hook(obj, meth, pos, kw, node)
        if r is not None:
            return r
    if isinstance(obj, SAdt) and obj.sort == "AttrList" and meth == "items" and not pos and not kw:
        return obj            # items view of the insertion-ordered dict: iterated by the fold rule
    cls = pyclass_of(I, obj, node)
    # user-object protocol calls (A5)
    if cls == "ReprObj" and meth == "_repr_html_":
        return SStr(I.acc("Rp", "s", obj.t))
    if cls == "HTML" and isinstance(obj, SAdt) and obj.sort == "Node" and meth in ("_repr_html_", "as_string", "__str__"):
        q = I.contracts.method("HTML", meth)
        if q is None:
            raise Unsupported(f"HTML.{meth} has no contract")
        return call_function(I, q, [obj] + pos, kw, node)
    q = I.contracts.method(cls, meth) if cls else None
    if q is None and cls and hasattr(I, "resolve_method"):
        rq = I.resolve_method(cls, meth)
        if rq is not None and rq.startswith("htmltools."):
            return inline_call(I, rq, [obj] + pos, kw, node)      # small helper without a contract: executed in place
    if q is not None:
        if is_static(I.src.find(q)):
            return call_function(I, q, pos, kw, node)
        return call_function(I, q, [obj] + pos, kw, node, bound_self=True)
    if cls == "str":
        return str_method(I, I.as_str(obj, node), meth, pos, kw, node)
    if cls in ("dict", "set") and isinstance(obj, (PyDict, PyConst)):
        return dict_method(I, obj, meth, pos, kw, node)
    if cls in ("list", "tuple") and isinstance(obj, PySeq):
        return list_method(I, obj, meth, pos, kw, node)
    raise Unsupported(f"method {cls}.{meth} (line {getattr(node, 'lineno', '?')})")


def str_method(I, s: SStr, meth, pos, kw, node):
    F = I.w.funcs
    hook0 = getattr(I, "str_method_hook", None)
    if hook0:
        r = hook0(s, meth, pos, kw, node)
        if r is not None:
            return r
    if meth == "replace":
        a, b = pos[0], pos[1]
        if not (isinstance(a, SStr) and isinstance(b, SStr)):
            raise Unsupported("replace with non-str arguments")
        if len(pos) == 2 and not kw:
            return SStr(F["replaceAll"](s.t, a.t, b.t))
        if len(pos) == 3 and isinstance(pos[2], SInt):
            return SStr(F["replaceN"](s.t, a.t, b.t, pos[2].t))
        raise Unsupported("replace signature")
    if meth == "endswith" and len(pos) == 1 and isinstance(pos[0], SStr):
        return SBool(z3.SuffixOf(pos[0].t, s.t))
    if meth == "startswith" and len(pos) == 1 and isinstance(pos[0], SStr):
        return SBool(z3.PrefixOf(pos[0].t, s.t))
    if meth == "join":
        items = I.iter_concrete(pos[0], node)
        parts = []
        for i, it in enumerate(items):
            if i:
                parts.append(s.t)
            parts.append(I.as_str(it, node).t)
        return SStr(_concat(parts))
    hook = getattr(I, "str_method_hook", None)
    if hook:
        r = hook(s, meth, pos, kw, node)
        if r is not None:
            return r
    raise Unsupported(f"str.{meth}")


def dict_method(I, d, meth, pos, kw, node):
    if meth == "items":
        return PySeq([PySeq([k, v], "tuple") for k, v in I.dict_items(d, node)], "list", True)
    if meth == "keys":
        return PySeq([k for k, _ in I.dict_items(d, node)], "list", True)
    if meth == "values":
        return PySeq([v for _, v in I.dict_items(d, node)], "list", True)
    if meth == "get" and isinstance(d, PyDict):
        i = I.dict_lookup(d, pos[0])
        if i is None:
            return pos[1] if len(pos) > 1 else SNone()
        return d.items[i][1]
    if meth == "update" and isinstance(d, PyDict):
        if not d.fresh:
            I.oblige_frame(node, "dict.update on a non-local dict")
        for p in pos:
            for k, v in I.dict_items(p, node):
                I.dict_set(d, k, v)
        for k, v in kw.items():
            I.dict_set(d, SStr(z3.StringVal(k)), v)
        return SNone()
    raise Unsupported(f"dict.{meth}")


def list_method(I, l: PySeq, meth, pos, kw, node):
    if meth in ("append", "extend", "insert") and l.kind == "list":
        if not l.fresh:
            I.oblige_frame(node, f"list.{meth} on a non-local list")
        if meth == "append":
            l.items.append(pos[0])
        elif meth == "extend":
            l.items.extend(I.iter_concrete(pos[0], node))
        else:
            k = z3.simplify(pos[0].t)
            if not z3.is_int_value(k):
                raise Unsupported("insert at symbolic index")
            l.items.insert(k.as_long(), pos[1])
        return SNone()
    raise Unsupported(f"{l.kind}.{meth}")


# ------------------------------------------------------------------------------------------------
def bind_params(I, qualname, pos, kw, node):
    """Bind call arguments to the parameter names of the real def (defaults read from its AST)."""
    fn = I.src.find(qualname)
    a = fn.args
    names = [x.arg for x in a.posonlyargs + a.args]
    bound = {}
    pos = list(pos)
    if a.vararg is None and len(pos) > len(names):
        raise Unsupported(f"too many positional arguments for {qualname}")
    for n in names:
        if pos:
            if isinstance(pos[0], Star):
                sv = pos[0].v
                sh = I.list_shape(sv) if isinstance(sv, SAdt) else None
                if sh is None or len(pos) != 1:
                    raise Unsupported(f"*args of unknown length spread over named parameters of {qualname}")
                nil, cons, tl = sh
                if not I.branch(I.is_c(cons, sv.t)):
                    raise _Raise(SExc("TypeError", []), getattr(node, "lineno", None))      # missing required positional argument
                c = I.ctor(cons)
                bound[n] = I.wrap(c.fields[0][1], I.acc(cons, c.fields[0][0], sv.t))
                pos[0] = Star(SAdt(sv.sort, I.acc(cons, tl, sv.t), pyclass=sv.pyclass))
                continue
            bound[n] = pos.pop(0)
    if a.vararg is not None:
        if any(isinstance(x, Star) for x in pos):
            if len(pos) != 1:
                raise Unsupported("*args of unknown length mixed with other positional arguments")
            bound[a.vararg.arg] = pos[0].v
        else:
            bound[a.vararg.arg] = PySeq(pos, "tuple", True)
    kw = dict(kw)
    star_kw = kw.pop("**", None)
    if star_kw is not None:
        if a.kwarg is None or kw and any(k not in names + [x.arg for x in a.kwonlyargs] for k in kw):
            raise Unsupported("**kwargs of unknown keys mixed with other unmatched keywords")
    for n in names + [x.arg for x in a.kwonlyargs]:
        if n in kw:
            if n in bound:
                raise Unsupported("duplicate argument")
            bound[n] = kw.pop(n)
    if a.kwarg is not None and star_kw is not None:
        bound[a.kwarg.arg] = star_kw.v
    elif a.kwarg is not None:
        bound[a.kwarg.arg] = PyDict([(SStr(z3.StringVal(k)), v) for k, v in kw.items()], True)
    elif kw:
        raise Unsupported(f"unexpected keyword {list(kw)} for {qualname}")
    # defaults
    defaults = dict(zip(names[len(names) - len(a.defaults):], a.defaults))
    for x, d in zip(a.kwonlyargs, a.kw_defaults):
        if d is not None:
            defaults[x.arg] = d
    for n in names + [x.arg for x in a.kwonlyargs]:
        if n not in bound:
            if n not in defaults:
                raise Unsupported(f"missing argument {n} for {qualname}")
            d = defaults[n]
            if not isinstance(d, ast.Constant):
                raise Unsupported(f"non-constant default for {n}")
            bound[n] = I.const(d.value)
    return bound


def contract_env(I, c, bound, node):
    env = {}
    for p, s in c.params:
        if p not in bound:
            raise Unsupported(f"{c.name}: parameter {p} not bound")
        v = I.coerce_param(bound[p], s, node)
        bound[p] = v
        if s != "Any":
            env[p] = I.to_val(v)
    return env


def spec_bool(I, src, env, cname):
    v = I.w.eval(ast.parse(src, mode="eval").body, env, SpecFn(cname, [], "Bool", "spec"), want="Bool")
    if v.sort != "Bool":
        raise Unsupported(f"{cname}: `{src}` is not Bool")
    return v.v


def spec_term(I, src, env, cname, want=None) -> Val:
    return I.w.eval(ast.parse(src, mode="eval").body, env, SpecFn(cname, [], want or "?", "spec"), want=want)


def arg_expr(I, qualname, pname, node, bound_self):
    """AST expression of the call argument bound to parameter `pname` (for write-back of mutations)"""
    fn = I.src.find(qualname)
    names = [x.arg for x in fn.args.posonlyargs + fn.args.args]
    if not isinstance(node, ast.Call):
        return None
    for k in node.keywords:
        if k.arg == pname:
            return k.value
    if pname in names:
        i = names.index(pname)
        if bound_self:
            if i == 0:
                return node.func.value if isinstance(node.func, ast.Attribute) else None
            i -= 1
        if i < len(node.args) and not any(isinstance(a, ast.Starred) for a in node.args[:i + 1]):
            return node.args[i]
    return None


def call_function(I, qualname, pos, kw, node, bound_self=False) -> SV:
    if not I.contracts.has(qualname) or I.contracts.get(qualname).inline:
        return inline_call(I, qualname, pos, kw, node)
    c = I.contracts.get(qualname)
    if c.harness is not None and getattr(c, "call_model", None):
        return c.call_model(I, pos, kw, node)
    bound = bind_params(I, c.body_name(I.src), pos, kw, node)
    env = contract_env(I, c, bound, node)
    line = getattr(node, "lineno", "?")
    short = qualname.replace("htmltools.", "")
    for i, r in enumerate(c.requires):
        I.oblige(f"R:{I.short()}:L{line}:pre[{short}#{i}]", spec_bool(I, r, env, c.name), where=I.src.line(I.module, node),
                 note=f"call-site precondition `{r}` of {qualname}")
    for m in c.modifies:
        v = bound[m]
        if not getattr(v, "fresh", False):
            I.oblige_frame(node, f"call to {qualname} mutates its argument `{m}`, which is not local to this activation")
    for exc, cond in c.raises:
        if I.branch(spec_bool(I, cond, env, c.name)):
            raise _Raise(SExc(exc, []), line)
    for m, pexpr in c.post.items():
        newv = I.from_val(spec_term(I, pexpr, env, c.name, want=c.sort_of(m)))
        tgt = arg_expr(I, c.body_name(I.src), m, node, bound_self)
        if tgt is None:
            raise Unsupported(f"cannot locate the argument expression for mutated parameter `{m}` of {qualname}")
        I.writeback(tgt, newv, node)
    if c.returns == "None":
        return SNone()
    # ensures of the form `result == E` give the result directly
    res = None
    rest = []
    for en in c.ensures:
        t = ast.parse(en, mode="eval").body
        if (res is None and isinstance(t, ast.Compare) and len(t.ops) == 1 and isinstance(t.ops[0], ast.Eq)
                and isinstance(t.left, ast.Name) and t.left.id == "result"):
            res = I.w.eval(t.comparators[0], env, SpecFn(c.name, [], c.returns, "spec"), want=c.returns)
        else:
            rest.append(en)
    if res is None:
        res = Val(c.returns, I.fresh(c.returns, "ret_" + short.split(".")[-1]))
    env2 = dict(env)
    env2["result"] = res
    for en in rest:
        I.st.pc.append(spec_bool(I, en, env2, c.name))
    out = I.from_val(res)
    if isinstance(out, SAdt):
        out.fresh = c.fresh
    return out


def inline_call(I, qualname, pos, kw, node):
    """No contract: execute the callee body in place (sound, not modular); used for tiny helpers."""
    from .symexec import _Return
    fn = I.src.find(qualname)
    bound = bind_params(I, qualname, pos, kw, node)
    saved = (I.st.env, I.module, I.fn_qual, getattr(I, "loop_ordinal", 0), getattr(I, "comp_ordinal", 0))
    module, _ = I.src.split(qualname)
    I.st.env = dict(bound)
    I.module, I.fn_qual = module, qualname
    I.loop_ordinal = I.comp_ordinal = 0
    I.depth = getattr(I, "depth", 0) + 1
    if I.depth > 12:
        raise Unsupported(f"inlining depth exceeded at {qualname} (recursive function needs a contract)")
    try:
        from .extract import strip_docstring
        try:
            I.exec_block(strip_docstring(fn.body))
            r = SNone()
        except _Return as ret:
            r = ret.v
        return r
    finally:
        I.depth -= 1
        I.st.env, I.module, I.fn_qual, I.loop_ordinal, I.comp_ordinal = saved


def construct(I, cls, pos, kw, node):
    if cls in EXC_NAMES:
        return SExc(cls, pos)
    hook = getattr(I, "construct_hook", None)
    if hook:
        r = hook(cls, pos, kw, node)
        if r is not None:
            return r
    q = I.contracts.method(cls, "__init__")
    if q is not None:
        c = I.contracts.get(q)
        if getattr(c, "ctor_model", None):
            return c.ctor_model(I, pos, kw, node)
        if "self" in c.post:
            # C(args): a new object whose state is the post-state of __init__ (contract), raising as __init__ does
            bound = bind_params(I, c.body_name(I.src), [SNone()] + list(pos), kw, node)
            bound.pop("self", None)
            c2params = [(p, s) for p, s in c.params if p != "self"]
            env = {}
            for p, s in c2params:
                v = I.coerce_param(bound[p], s, node)
                env[p] = I.to_val(v)
            empty = {"AttrList": "ANil", "NodeList": "NNil"}.get(c.sort_of("self"))
            if empty:
                env["self"] = Val(c.sort_of("self"), I.w.ctor_fn(I.ctor(empty)))      # the object under construction starts empty
            line = getattr(node, "lineno", "?")
            for i, r in enumerate(c.requires):
                I.oblige(f"R:{I.short()}:L{line}:pre[{cls}.__init__#{i}]", spec_bool(I, r, env, c.name), where=I.src.line(I.module, node), note=f"precondition `{r}` of {cls}(...)")
            for exc, cond in c.raises:
                if I.branch(spec_bool(I, cond, env, c.name)):
                    raise _Raise(SExc(exc, []), line)
            out = I.from_val(spec_term(I, c.post["self"], env, c.name, want=c.sort_of("self")))
            if isinstance(out, SAdt):
                out.fresh = True
                out.pyclass = c.self_class if c.sort_of("self") not in ("Node",) else None
            return out
    raise Unsupported(f"constructor {cls}(...)")
