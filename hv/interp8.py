"""Layer 8 of the symbolic executor: structural equality of record objects (C08: _equals_impl).

  type(x)                         the class of a record object
  isinstance(y, type(x))          class test between records / between a record and a value of another kind
  getattr(x, "field", default)    field of a record (the default when absent)
  a == b / a != b                 on attribute maps: dict equality attrsEq (same keys, equal values, order irrelevant);
                                  on child lists: list equality nodesEq (same length, pairwise ==, where == between two tags is the
                                  contract of Tag.__eq__ itself: nodeEq);  on opaque JSON-able atoms: identity of the atom
"""
from __future__ import annotations
import ast
import z3
from .symexec import (SV, SStr, SBool, SInt, SNone, SAdt, PySeq, PyDict, PyRec, SClass, SFunc, SBuiltin, SOpaque, Unsupported)
from .interp7 import Interp7

SUBCLASS = {("Tag", "Tag"), ("TagList", "TagList"), ("HTMLDependency", "HTMLDependency"), ("HTMLDependency", "MetadataNode"), ("JSXTag", "JSXTag"), ("HTMLDocument", "HTMLDocument")}


class Interp8(Interp7):
    def builtin_hook(self, name, pos, kw, node):
        if name == "type" and len(pos) == 1 and isinstance(pos[0], PyRec):
            return SClass(pos[0].cls)
        return super().builtin_hook(name, pos, kw, node)

    def builtin_hook8(self, name, pos, kw, node):
        if name == "getattr" and len(pos) in (2, 3) and isinstance(pos[0], PyRec) and isinstance(pos[1], SStr) and z3.is_string_value(z3.simplify(pos[1].t)):
            k = z3.simplify(pos[1].t).as_string()
            if k in pos[0].fields:
                return pos[0].fields[k]
            if len(pos) == 3:
                return pos[2]
            self.raise_("AttributeError", node)
        h = getattr(self, "builtin_hook9", None)
        return h(name, pos, kw, node) if h else None

    def isinstance_hook6(self, v, cls):
        if isinstance(v, PyRec):
            return z3.BoolVal((v.cls, cls) in SUBCLASS or cls == "object")
        if cls in ("Tag", "TagList", "HTMLDependency", "JSXTag", "HTMLDocument", "MetadataNode") and isinstance(v, (SStr, SInt, SBool, SNone, PySeq, PyDict)):
            return z3.BoolVal(False)
        h = getattr(self, "isinstance_hook7", None)
        return h(v, cls) if h else None

    def equal(self, a, b, node):
        if isinstance(a, SAdt) and isinstance(b, SAdt) and a.sort == b.sort:
            if a.sort == "AttrList":
                return self.F("attrsEq", a.t, b.t)
            if a.sort == "NodeList":
                return self.F("nodesEq", a.t, b.t)
            if a.sort == "Node":
                return self.F("nodeEq", a.t, b.t)
            if a.sort in ("JVal", "Dep"):
                return a.t == b.t
        for x, y in ((a, b), (b, a)):
            if isinstance(x, SNone) and isinstance(y, SAdt) and y.sort in ("AttrList", "NodeList", "JVal", "Dep"):
                return z3.BoolVal(False)          # a dict / list / dependency object is never None
        return super().equal(a, b, node)
