"""Models for tagify results, dependency lists / maps and rendered results (C08-C11)."""
from __future__ import annotations
import ast
import z3
from .symexec import (SV, SStr, SBool, SInt, SNone, SAdt, PyConst, PySeq, PyDict, PyRec, SClass, SFunc, SBuiltin, SExc, SOpaque,
                      Unsupported, _Raise, Obligation)
from .interp3 import Interp3


class Interp4(Interp3):
    extra_list_shapes = dict(Interp3.extra_list_shapes, DepList=("DLNil", "DLCons", "tl"), DepMap=("MNil", "MCons", "tl"))

    def isinstance_hook4(self, v, cls):
        T, Fz = z3.BoolVal(True), z3.BoolVal(False)
        if isinstance(v, SAdt) and v.sort == "TgRes":
            node = SAdt("Node", self.acc("TgNode", "node", v.t))
            if cls in ("TagList",):
                return self.is_c("TgList", v.t)
            if cls in ("Tag", "MetadataNode", "str", "HTML", "HTMLDependency"):
                return z3.And(self.is_c("TgNode", v.t), self.isinstance_term(node, cls))
            if cls in ("Tagifiable", "ReprHtml"):
                return z3.Or(self.is_c("TgList", v.t), z3.And(self.is_c("TgNode", v.t), self.isinstance_term(node, cls)))
        if isinstance(v, SAdt) and v.sort == "Dep":
            return T if cls in ("HTMLDependency", "MetadataNode") and False else (v_isdep(self, v) if cls == "HTMLDependency" else T if cls == "MetadataNode" else Fz)
        if isinstance(v, SAdt) and v.sort in ("DepList",):
            return T if cls in ("list", "Sequence") else Fz
        h = getattr(self, "isinstance_hook5", None)
        return h(v, cls) if h else None

    def coerce_hook4(self, v, sort):
        if sort == "Child" and isinstance(v, SAdt) and v.sort == "TgRes":
            return SAdt("Child", z3.If(self.is_c("TgList", v.t), self.C("CSeq", z3.IntVal(2), self.F("ofNodes", self.acc("TgList", "items", v.t))),
                                       self.C("CNode", self.acc("TgNode", "node", v.t))))
        if sort == "Node" and isinstance(v, SAdt) and v.sort == "TgRes":
            if self.implied(self.is_c("TgNode", v.t)):
                return SAdt("Node", self.acc("TgNode", "node", v.t), fresh=v.fresh)
        if sort == "Node" and isinstance(v, SAdt) and v.sort == "Dep":
            return SAdt("Node", self.C("Md", v.t), fresh=v.fresh)
        if sort == "Dep" and isinstance(v, SAdt) and v.sort == "Node":
            if self.implied(self.is_c("Md", v.t)):
                return SAdt("Dep", self.acc("Md", "d", v.t), fresh=v.fresh)
        if sort == "DepList":
            if isinstance(v, PySeq):
                t = self.C("DLNil")
                for x in reversed(v.items):
                    t = self.C("DLCons", self.coerce_param(x, "Dep").t, t)
                return SAdt("DepList", t, fresh=v.fresh)
        if sort == "DepMap" and isinstance(v, PyDict) and not v.items:
            return SAdt("DepMap", self.C("MNil"), fresh=True)
        if sort == "Rendered" and isinstance(v, PyDict) and len(v.items) == 2:
            d = {}
            for k, x in v.items:
                ks = z3.simplify(k.t) if isinstance(k, SStr) else None
                if ks is None or not z3.is_string_value(ks):
                    return None
                d[ks.as_string()] = x
            if set(d) == {"dependencies", "html"}:
                return SAdt("Rendered", self.C("Rendered", self.coerce_param(d["dependencies"], "DepList").t, self.coerce_param(d["html"], "Str").t), fresh=True)
        h = getattr(self, "coerce_hook5", None)
        return h(v, sort) if h else None

    def get_attr_hook4(self, obj, attr, node):
        if isinstance(obj, SAdt) and obj.sort == "Dep":
            c = self.ctor("Dep")
            if attr == "name":
                return SStr(self.w.acc(c, "name", obj.t))
            if attr == "version":
                v = SInt(self.w.acc(c, "ver", obj.t))
                v.is_version = True         # a packaging.Version: ordered like its Int image, str() is verStr
                return v
        if isinstance(obj, SAdt) and obj.sort == "Node" and attr in ("name", "version") and self.implied(self.is_c("Md", obj.t)):
            return self.get_attr_hook4(SAdt("Dep", self.acc("Md", "d", obj.t)), attr, node)
        h = getattr(self, "get_attr_hook5", None)
        return h(obj, attr, node) if h else None

    def contains_hook4(self, container, x, node):
        if isinstance(container, SAdt) and container.sort == "DepMap":
            return self.F("mhas", container.t, self.coerce_param(x, "Str").t)
        h = getattr(self, "contains_hook5", None)
        return h(container, x, node) if h else None

    def get_item_hook4(self, obj, k, node):
        if isinstance(obj, SAdt) and obj.sort == "DepMap":
            ks = self.coerce_param(k, "Str")
            if not self.branch(self.F("mhas", obj.t, ks.t)):
                self.raise_("KeyError", node)
            return SAdt("Dep", self.F("mget", obj.t, ks.t))
        h = getattr(self, "get_item_hook5", None)
        return h(obj, k, node) if h else None

    def set_item_hook4(self, obj, sl, v, node):
        if isinstance(obj, SAdt) and obj.sort == "DepMap" and isinstance(node, ast.Subscript):
            k = self.coerce_param(self.eval(sl), "Str")
            d = self.coerce_param(v, "Dep")
            self.writeback(node.value, SAdt("DepMap", self.F("mset", obj.t, k.t, d.t)), node)
            return True
        h = getattr(self, "set_item_hook5", None)
        return h(obj, sl, v, node) if h else False

    def method_hook4(self, obj, meth, pos, kw, node):
        if isinstance(obj, SAdt) and obj.sort == "DepMap" and meth == "values" and not pos:
            return SAdt("DepList", self.F("mvalues", obj.t), fresh=True)
        if isinstance(obj, SAdt) and obj.sort == "DepList":
            if meth == "append" and len(pos) == 1:
                d = self.coerce_param(pos[0], "Dep")
                self.writeback(node.func.value, SAdt("DepList", self.F("dsnoc", obj.t, d.t)), node)
                return SNone()
            if meth == "extend" and len(pos) == 1:
                o = self.coerce_param(pos[0], "DepList")
                self.writeback(node.func.value, SAdt("DepList", self.F("dappend", obj.t, o.t)), node)
                return SNone()
        # user objects: tagify() of an object with identity oid (A5)
        if isinstance(obj, SAdt) and obj.sort == "Node" and meth == "tagify" and not pos:
            t = obj.t
            names = ["El", "Ob", "Rp"]
            i = self.choose([self.is_c("El", t), self.is_c("Ob", t), self.is_c("Rp", t), z3.Not(z3.Or(*[self.is_c(n, t) for n in names]))])
            if i == 0:
                return self.call_q("htmltools._core.Tag.tagify", [obj], node)
            if i == 1:
                return SAdt("TgRes", self.w.funcs["tagifyOf"](self.acc("Ob", "oid", t)), fresh=True)
            if i == 2:
                return SAdt("TgRes", self.w.funcs["tagifyOf"](self.acc("Rp", "oid", t)), fresh=True)
            self.raise_("AttributeError", node)
        h = getattr(self, "method_hook5", None)
        return h(obj, meth, pos, kw, node) if h else None

    def builtin_hook4(self, name, pos, kw, node):
        if name == "list" and len(pos) == 1 and isinstance(pos[0], SAdt) and pos[0].sort == "DepList":
            return SAdt("DepList", pos[0].t, fresh=True)
        h = getattr(self, "builtin_hook5", None)
        return h(name, pos, kw, node) if h else None


def v_isdep(I, v):
    return I.w.acc(I.ctor("Dep"), "isdep", v.t)
