"""Verify one function against its contract: symbolic execution of the real body -> obligations ->
solver verdicts (DESIGN §4)."""
from __future__ import annotations
import time, traceback
import z3
from .symexec import Interp, Unsupported, Obligation, SAdt
from .interp9 import Interp9 as Interp2
from .speceval import Val, SpecError
from .calls import spec_bool, spec_term
from .vc import discharge, Verdict
from .extract import Sources, ExtractError


def lemma_instances(I, c, env, lemmas):
    """SMT axioms: instances of imported Lean theorems (only those that compiled in this run)"""
    import ast as _ast
    from .speclang import SpecFn
    out = []
    for lname, mapping in c.lemmas:
        lm = lemmas.get(lname)
        if lm is None:
            continue        # theorem not available in this run: the obligation will simply not discharge
        if any((not p.startswith("@")) and p not in env for p in mapping.values()):
            continue        # instantiated later by the harness, once the terms it mentions exist
        lenv = {}
        for lv, p in mapping.items():
            lenv[lv] = spec_term(I, p[1:], env, lname) if p.startswith("@") else env[p]
        qvars = []
        for lv, ls in lm.vars:
            if lv not in lenv:       # not instantiated by the contract: universally quantified (z3 instantiates by matching)
                qc = z3.Const(f"{lname}_{lv}", I.w.sort(ls))
                qvars.append(qc)
                lenv[lv] = Val(ls, qc)
        v = I.w.eval(_ast.parse(lm.expr, mode="eval").body, lenv, SpecFn(lname, [], "Bool", "spec"), want="Bool")
        if qvars:
            pats = []
            if getattr(lm, "trigger", ""):
                pt = I.w.eval(_ast.parse(lm.trigger, mode="eval").body, lenv, SpecFn(lname, [], "?", "spec"))
                pats = [pt.v]
            out.append(z3.ForAll(qvars, v.v, patterns=pats) if pats else z3.ForAll(qvars, v.v))
        else:
            out.append(v.v)
    return out


ALLOWED_DECORATORS = {"staticmethod", "classmethod", "property", "overload", "abstractmethod", "abc.abstractmethod", "typing.overload"}


def signature_obligations(src, c, db=None):
    """The contract speaks about the function BODY.  Two things outside the body can change what callers get:
    a decorator (the body-level contract does not describe the decorated function) and a mutable default argument
    (state shared between calls).  Both are excluded by obligation, on the real AST of this run."""
    import ast as _ast
    q = getattr(c, "real_name", None) or c.name.split("#")[0]
    short = q.replace("htmltools.", "")
    try:
        fn = src.find(q)
    except Exception:
        return []
    out = []
    decs = [_ast.unparse(d) for d in fn.decorator_list]
    bad = [d for d in decs if d not in ALLOWED_DECORATORS]
    out.append(Obligation(f"G:{short}:undecorated", [], z3.BoolVal(not bad), q, "G",
                          f"no decorator changes what callers get (decorators: {decs or 'none'}; a cache, wrapper or registration would not be described by a contract on the body)"))
    def immutable(e):
        if e is None or isinstance(e, _ast.Constant):
            return True
        if isinstance(e, _ast.Tuple):
            return all(immutable(x) for x in e.elts)
        if isinstance(e, _ast.UnaryOp) and isinstance(e.operand, _ast.Constant):
            return True
        if isinstance(e, (_ast.Name, _ast.Attribute)):
            return True          # a named constant / sentinel
        return False
    defaults = list(fn.args.defaults) + [d for d in fn.args.kw_defaults if d is not None]
    mut = [_ast.unparse(d) for d in defaults if not immutable(d)]
    out.append(Obligation(f"G:{short}:immutable-defaults", [], z3.BoolVal(not mut), q, "G",
                          f"default argument values are immutable (mutable defaults {mut or 'none'} would be state shared by every call)"))
    try:
        from .audit_det import module_state_findings
        contracted = {(getattr(k, "real_name", None) or k.name.split("#")[0]) for k in (db.by_name.values() if db is not None else [])}
        found = module_state_findings(src, q, contracted - {q})
    except Exception as ex:      # the audit must not hide the other obligations
        found = [(q, 0, f"audit failed: {type(ex).__name__}: {ex}")]
    out.append(Obligation(f"G:{short}:no-module-state", [], z3.BoolVal(not found), q, "G",
                          "the function (with the uncontracted module-level helpers it calls) neither writes nor reads module-level mutable state, no cache or registry: "
                          + ("none found" if not found else "; ".join(f"{a.replace('htmltools.', '')} line {l}: {w}" for a, l, w in found[:3]))
                          + " - the contract gives the result as a function of the arguments, earlier calls must not matter"))
    return out


def verify_contract(w, src, db, c, lemmas=None, timeout_ms=10000, relevance=None):
    lemma_fn = (lambda I, env: lemma_instances(I, c, env, lemmas or {})) if c.lemmas else None
    if lemma_fn is not None:
        lemma_fn.names = {n for n, _ in c.lemmas if n in (lemmas or {})}
    return _verify_contract(w, src, db, c, lemma_fn, timeout_ms, relevance)


def relevance_check(I, ob, verdict, relevance, timeout_ms):
    """Does every counterexample of this refuted obligation need the property's feature?  Re-discharge with the
    feature excluded: unsat -> the refutation concerns the property (relevant); sat -> it does not."""
    for pat, expr in relevance.items():
        if pat in ob.name:
            mode = "exclude"
            if isinstance(expr, tuple):
                mode, expr = expr
            try:
                feat = spec_bool(I, expr, ob.vars, ob.name)
            except Exception as ex:
                verdict.relevance_note = f"feature `{expr}` not evaluable here: {ex}"
                return True
            extra = z3.Not(feat) if mode == "exclude" else feat
            ob2 = Obligation(ob.name, list(ob.hyps) + [extra], ob.goal, ob.where, ob.kind, ob.note)
            v2 = discharge(ob2, list(I.axioms) + list(getattr(I, "q_axioms", [])), I.nat_consts, min(timeout_ms, 5000), use_cvc5=False, long_retry=False)
            if mode == "exclude":
                verdict.relevance_note = f"with `{expr}` excluded the obligation is {v2.status}"
                return v2.status == "discharged"       # every counterexample needs the feature; `unknown` is left to the property oracle
            verdict.relevance_note = f"restricted to the property's domain `{expr}` the obligation is {v2.status}"
            if v2.status == "refuted" and v2.model:
                verdict.model = v2.model
                verdict.model_text = v2.model_text
            return v2.status != "discharged"
    return False


def _verify_contract(w, src, db, c, lemma_fn=None, timeout_ms=10000, relevance=None):
    """returns (verdicts, stats).  A function leaving the subset gives one 'unknown' verdict
    named R:<fn>:subset (never a violation)."""
    I = Interp2(w, src, db)
    short = c.name.replace("htmltools.", "")
    t0 = time.time()
    verdicts = []
    try:
        if c.harness is not None:
            I.q_axioms = []
            I.available_lemmas = set(getattr(lemma_fn, "names", ()))
            I.lemma_fn = lemma_fn
            if lemma_fn is not None:
                for ax in lemma_fn(I, {}):
                    (I.q_axioms if z3.is_quantifier(ax) else I.axioms).append(ax)
            obs = c.harness(I, c)
            if not c.modifies and c.pure:
                nviol = sum(1 for ob in obs if ob.kind == "F" and ob.name.endswith(":frame"))
                obs.append(Obligation(f"F:{short}:reads-only", [], z3.BoolVal(nviol == 0), c.name, "F",
                                      f"on every explored path every store write targets an object allocated in this activation ({nviol} writes outside the frame)"))
        else:
            obs = contract_obligations(I, c, lemma_fn)
    except (Unsupported, SpecError, ExtractError, AttributeError, TypeError, KeyError, IndexError, ValueError, AssertionError, z3.Z3Exception, RecursionError) as ex:
        # an error inside the engine while interpreting this function (it does not happen on the tree the engine was built against: every
        # contract there is interpreted on every run) means the code uses something the engine has no model for - outside the verified subset,
        # decided by the bounded stand-in; never a crash of the check and never a finding
        kind_ = "" if isinstance(ex, (Unsupported, SpecError, ExtractError)) else "engine error, treated as outside the verified subset: "
        v = Verdict(f"R:{short}:subset", "unknown", "-", time.time() - t0, where=c.name,
                    note=f"function left the verified subset: {kind_}{type(ex).__name__}: {ex}")
        # the obligations about the function's signature and module state are syntactic: they are decided even when the body
        # cannot be interpreted
        sig = []
        try:
            sig = [discharge(ob, [], [], timeout_ms) for ob in signature_obligations(src, c, db)]
            for sv in sig:
                sv.contract = c.name
        except Exception:
            sig = []
        return [v] + sig, dict(I.stats, seconds=time.time() - t0, obligations=len(sig))
    obs = list(obs) + signature_obligations(src, c, db)
    seen = set()
    for ob in obs:
        key = (ob.name, ob.goal.sexpr() if hasattr(ob.goal, "sexpr") else str(ob.goal), tuple(h.sexpr() for h in ob.hyps))
        if key in seen:
            continue
        seen.add(key)
        if ob.name.endswith(":reads-only"):
            continue                                   # derived below from the verdicts of the frame obligations
        if ob.kind == "F" and z3.is_false(ob.goal):
            # "this write is unreachable": a reachability question about the path condition alone; the imported (quantified)
            # lemmas are consequences of the definitions and cannot make a reachable path unreachable
            v = discharge(ob, list(I.axioms), I.nat_consts, timeout_ms)
            if v.status == "unknown":
                v = discharge(ob, list(I.axioms) + list(getattr(I, "q_axioms", [])), I.nat_consts, timeout_ms)
        else:
            v = discharge(ob, list(I.axioms) + list(getattr(I, "q_axioms", [])), I.nat_consts, timeout_ms)
        if relevance and v.status == "refuted" and v.kind == "R":
            v.relevant = relevance_check(I, ob, v, relevance, timeout_ms)
        verdicts.append(v)
    for ob in obs:
        if ob.name.endswith(":reads-only"):
            frames = [v for v in verdicts if v.kind == "F" and v.name.split("#")[0].endswith(":frame")]
            bad = [v for v in frames if v.status != "discharged"]
            st = "discharged" if not bad else ("refuted" if any(v.status == "refuted" for v in bad) else "unknown")
            verdicts.append(Verdict(ob.name, st, "derived", 0.0, {}, "", ob.where,
                                    f"no reachable store write targets an object that was not allocated in this activation "
                                    f"({len(frames)} candidate writes, {len(bad)} reachable or undecided: {[v.name for v in bad][:4]})", "F"))
    # make names unique
    names = {}
    for v in verdicts:
        n = names.get(v.name, 0)
        names[v.name] = n + 1
        if n:
            v.name = f"{v.name}#{n}"
    return verdicts, dict(I.stats, seconds=time.time() - t0, obligations=len(verdicts))


def contract_obligations(I, c, lemma_fn=None):
    w = I.w
    short = c.name.replace("htmltools.", "")
    args, env = {}, {}
    for p, s in c.params:
        const = I.fresh(s, p)
        args[p] = I.wrap(s, const)
        if p in c.modifies and isinstance(args[p], SAdt):
            args[p].fresh = True        # the function may mutate its declared `modifies` parameters
        if c.self_class and p == "self" and isinstance(args[p], SAdt):
            args[p].pyclass = c.self_class if s not in ("Node",) else None
        env[p] = Val(s, const)
    pre = [spec_bool(I, r, env, c.name) for r in c.requires]
    I.q_axioms = []
    I.available_lemmas = set(getattr(lemma_fn, "names", ()))
    if lemma_fn is not None:
        for ax in lemma_fn(I, env):
            (I.q_axioms if z3.is_quantifier(ax) else I.axioms).append(ax)     # quantified lemmas only at discharge time
    # vacuity: the precondition must be satisfiable
    s = z3.Solver(); s.set("timeout", 5000)
    for a in I.axioms: s.add(a)
    for p_ in pre: s.add(p_)
    for n in I.nat_consts: s.add(n >= 0)
    r = s.check()
    I.obligations.append(Obligation(f"V:{short}:requires-satisfiable", [], z3.BoolVal(r != z3.unsat), c.name, "V",
                                    "vacuity guard: the precondition admits at least one input"))
    paths = I.run_function(c.body_name(I.src), args, pre)
    if not paths:
        raise Unsupported("no feasible path")
    obs = list(I.obligations)
    I.obligations = []
    I.fn_qual = c.body_name(I.src)
    I.module = I.src.split(I.fn_qual)[0]
    for pi, p in enumerate(paths):
      with I.at_path(p):
          tag = f"R:{short}:path{pi}"
          where = f"{c.name} decisions={''.join(map(str, p.decisions))}"
          # which raises clause applies (first match)
          prior = []
          if p.outcome == "return":
              for exc, cond in c.raises:
                  obs.append(Obligation(f"{tag}.no-{exc}", p.pc, z3.Not(spec_bool(I, cond, env, c.name)), where, "R",
                                        f"returns normally, so `{cond}` must be false"))
              if c.returns != "None":
                  try:
                      rv = I.to_val(I.coerce_param(p.value, c.returns))
                  except Unsupported as ex:
                      obs.append(Obligation(f"{tag}.result-sort", p.pc, z3.BoolVal(False), where, "R", f"result is not a {c.returns}: {ex}"))
                      continue
                  env2 = dict(env); env2["result"] = rv
              else:
                  env2 = env
              for k, en in enumerate(c.ensures):
                  obs.append(Obligation(f"{tag}.ensures{k}", p.pc, spec_bool(I, en, env2, c.name), where, "R", f"postcondition `{en}`"))
              if c.fresh and c.returns and isinstance(p.value, (SAdt,)) and p.value.sort in ("NodeList", "Node", "AttrList", "ChildList", "DepList"):
                  # callers rely on `fresh`: the returned container is a new object, not one of the arguments (no aliasing)
                  is_new = bool(getattr(p.value, "fresh", False)) and not any(p.value is a for a in args.values())
                  obs.append(Obligation(f"F:{short}:path{pi}.fresh-result", p.pc, z3.BoolVal(is_new), where, "F",
                                        "the returned object is newly allocated (not the receiver or an argument): later in-place changes of one cannot affect the other"))
              for m, pexpr in c.post.items():
                  want = spec_term(I, pexpr, env, c.name, want=c.sort_of(m))
                  try:
                      got = I.to_val(I.coerce_param(p.env[m], c.sort_of(m)))
                      obs.append(Obligation(f"{tag}.post[{m}]", p.pc, got.v == want.v, where, "R", f"state of `{m}` at return == `{pexpr}`"))
                  except Unsupported as ex:
                      obs.append(Obligation(f"{tag}.post[{m}]", p.pc, z3.BoolVal(False), where, "R", f"state of `{m}` at return is not a {c.sort_of(m)}: {ex}"))
          else:
              conds = [spec_bool(I, cond, env, c.name) for exc, cond in c.raises if exc == p.value.name]
              goal = z3.Or(*conds) if conds else z3.BoolVal(False)
              obs.append(Obligation(f"{tag}.raises-{p.value.name}", p.pc, goal, where, "R",
                                    f"raises {p.value.name} at line {p.line}: must be licensed by a raises clause"))
              for m in c.unchanged_on_raise:
                  try:
                      got = I.to_val(I.coerce_param(p.env[m], c.sort_of(m)))
                      obs.append(Obligation(f"{tag}.unchanged-on-raise[{m}]", p.pc, got.v == env[m].v, where, "R", f"`{m}` is unchanged when {p.value.name} is raised"))
                  except Unsupported as ex:
                      obs.append(Obligation(f"{tag}.unchanged-on-raise[{m}]", p.pc, z3.BoolVal(False), where, "R", str(ex)))
    obs.extend(I.obligations)
    if not c.modifies:
        nviol = sum(1 for ob in obs if ob.kind == "F" and ob.name.endswith(":frame"))
        obs.append(Obligation(f"F:{short}:reads-only", [], z3.BoolVal(nviol == 0), c.name, "F",
                              f"on all {len(paths)} paths every store write targets an object allocated in this activation ({nviol} writes outside the frame)"))
    for ob in obs:
        for k_, v_ in env.items():
            ob.vars.setdefault(k_, v_)
    return obs
