"""Regenerate /verif/MANIFEST.json from hv.plans (python3-vt -m hv.manifest)."""
import json, os
from .plans import PLANS

ROOT = os.path.dirname(os.path.dirname(os.path.abspath(__file__)))
BASELINE = "cd /repo && /venv/bin/python -m pytest -ra -q -p no:cacheprovider --timeout=900 --continue-on-collection-errors"

NOT_BUILT = "check not built yet (framework under construction; see DESIGN.md §11 build order)"


def main():
    props = [json.loads(l) for l in open(os.path.join(ROOT, "properties.jsonl"))]
    checks = []
    for p in props:
        pl = PLANS.get(p["id"])
        if pl is None:
            continue
        checks.append({
            "property_id": pl.id,
            "quick_cmd": f"python3-vt -m hv check {pl.id} --tier quick",
            "thorough_cmd": f"python3-vt -m hv check {pl.id} --tier thorough",
            "evidence_file": f"/verif/evidence/{pl.id}.json",
            "replay_cmd_template": "python3-vt -m hv replay {path}",
            "engine": "hv",
            "level_claimed": {"category": pl.level, "text": pl.claim or pl.title, "design_ref": pl.design_ref},
            "level_note": pl.level_note or "assumptions A1-A8 of DESIGN §3.3; z3/cvc5/Lean kernel; the VC generator and spec emitters are cross-checked, not verified",
            "technique": pl.technique or "contract-based deductive verification: VCs generated from the real AST (z3/cvc5) + Lean 4 theorems over single-source specs",
        })
    na = [{"property_id": p["id"], "reason": NA_REASONS.get(p["id"], NOT_BUILT)} for p in props if p["id"] not in PLANS]
    m = {
        "version": 1,
        "setup_cmd": "python3-vt -m hv setup",
        "hooks": {"guard": "HTMLTOOLS_VERIF", "enable": "no hooks: contracts are sidecar files keyed by qualified function name; the proof reads /repo source text with ast on every run",
                  "baseline_off_cmd": BASELINE, "source_commits": [], "add_only": True},
        "engines": [{"name": "hv", "path": "/verif/hv", "serves_properties": sorted(PLANS),
                     "kind_free_text": "AST->VC symbolic executor over z3/cvc5 with sidecar contracts; Lean 4 (core) theorems over generated specs; CPython replay"}],
        "checks": checks,
        "not_applicable": na,
        "notes": "Exit codes: 0 all obligations discharged (or only KNOWN-FINDINGs) / 1 VIOLATION / 3 checker crash. UNDECIDED lines mark obligations that are neither discharged nor refuted (never reported as violations).",
    }
    json.dump(m, open(os.path.join(ROOT, "MANIFEST.json"), "w"), indent=1)
    print(f"{len(checks)} checks, {len(na)} not_applicable")


NA_REASONS = {}

if __name__ == "__main__":
    main()
