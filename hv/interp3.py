"""Models for the child universe (C14): Child / ChildList views, TagList as a mutable NodeList value,
the inherited UserList operations (A3: `UserList.data` is the list itself; extend / slice-assign /
__init__ follow the stdlib source), dependency lists."""
from __future__ import annotations
import ast
import z3
from .symexec import (SV, SStr, SBool, SInt, SNone, SAdt, PyConst, PySeq, PyDict, PyRec, SClass, SFunc, SBuiltin, SExc, SOpaque,
                      Unsupported, _Raise, Obligation)
from .interp2 import Interp2
from .speceval import Val

KIND = {"list": 0, "tuple": 1, "TagList": 2}


class Interp3(Interp2):
    extra_list_shapes = dict(Interp2.extra_list_shapes, ChildList=("CNil", "CCons", "tl"), StrList=("SNil", "SCons", "tl"),
                             TagArgs=("TNil", "TCons", "tl"), CssArgs=("KNil", "KCons", "tl"))

    # ------------------------------------------------------------------ isinstance on Child
    def isinstance_hook3(self, v, cls):
        T, Fz = z3.BoolVal(True), z3.BoolVal(False)
        if isinstance(v, SAdt) and v.sort == "Child":
            t = v.t
            seq = self.is_c("CSeq", t)
            kind = self.acc("CSeq", "kind", t) % 3
            node = self.is_c("CNode", t)
            n = SAdt("Node", self.acc("CNode", "node", t))
            if cls in KIND:
                return z3.And(seq, kind == KIND[cls])
            if cls in ("UserList",):
                return z3.And(seq, kind == 2)
            if cls == "Sequence":
                return z3.Or(seq, z3.And(node, self.is_c("Txt", n.t)), z3.And(node, self.is_c("Raw", n.t)))
            if cls == "int":
                return z3.Or(self.is_c("CInt", t), self.is_c("CBoolC", t))
            if cls == "float":
                return self.is_c("CFloat", t)
            if cls == "bool":
                return self.is_c("CBoolC", t)
            if cls == "dict":
                return Fz
            if cls in ("str", "HTML", "Tag", "MetadataNode", "HTMLDependency"):
                return z3.And(node, self.isinstance_term(n, cls))
            if cls in ("Tagifiable", "ReprHtml"):
                return z3.Or(z3.And(node, self.isinstance_term(n, cls)), z3.And(seq, kind == 2))
        if isinstance(v, SAdt) and v.sort == "ChildList":
            return T if cls in ("list", "Sequence", "tuple") and (v.pyclass or "list") == cls or cls == "Sequence" else Fz
        if isinstance(v, SAdt) and v.sort == "TagArg":
            if cls == "dict":
                return self.is_c("TDict", v.t)
        if isinstance(v, SAdt) and v.sort == "CssVal":
            tbl = {"list": self.is_c("CssList", v.t), "str": self.is_c("CssStr", v.t)}
            return tbl.get(cls)
        if isinstance(v, SAdt) and v.sort == "StrList":
            return T if cls in ("list", "Sequence") else Fz
        h = getattr(self, "isinstance_hook4", None)
        return h(v, cls) if h else None

    def is_none_hook3(self, a):
        if isinstance(a, SAdt) and a.sort == "Child":
            return self.is_c("CNone", a.t)
        if isinstance(a, SAdt) and a.sort == "CssVal":
            return self.is_c("CssNone", a.t)
        if isinstance(a, SAdt) and a.sort == "OptStr":
            return self.is_c("NoStr", a.t)
        h = getattr(self, "is_none_hook4", None)
        return h(a) if h else None

    def str_hook3(self, v):
        if isinstance(v, SAdt) and v.sort == "Child":
            if self.implied(self.F("isNumC", v.t)):
                return SStr(self.F("numText", v.t))
            raise Unsupported("str() of a child that is not known to be a number")
        if isinstance(v, SAdt) and v.sort == "CssVal":
            if self.implied(z3.Not(z3.Or(self.is_c("CssNone", v.t), self.is_c("CssList", v.t)))):
                return SStr(self.F("cssValText", v.t))
            raise Unsupported("str() of a css value that may be None or a list")
        h = getattr(self, "str_hook4", None)
        return h(v) if h else None

    def truth_hook3(self, v):
        if isinstance(v, SAdt) and v.sort == "OptStr":
            return z3.And(self.is_c("SomeStr", v.t), self.acc("SomeStr", "s", v.t) != z3.StringVal(""))
        h = getattr(self, "truth_hook4", None)
        return h(v) if h else None

    # ------------------------------------------------------------------ coercions
    def coerce_hook3(self, v, sort):
        if sort == "ChildList":
            if isinstance(v, PySeq):
                t = self.C("CNil")
                for x in reversed(v.items):
                    t = self.C("CCons", self.coerce_param(x, "Child").t, t)
                return SAdt("ChildList", t, fresh=v.fresh, pyclass=v.kind)
            if isinstance(v, SAdt) and v.sort == "Child":
                if self.implied(self.is_c("CSeq", v.t)):
                    return SAdt("ChildList", self.acc("CSeq", "items", v.t))
                raise Unsupported("a child that is not known to be a list/tuple/TagList used as an iterable")
            if isinstance(v, SAdt) and v.sort == "NodeList":
                return SAdt("ChildList", self.F("ofNodes", v.t))
            if isinstance(v, SAdt) and v.sort == "TagArgs":
                return SAdt("ChildList", self.F("toChildren", v.t))
        if sort == "Child":
            if isinstance(v, SNone):
                return SAdt("Child", self.C("CNone"))
            if isinstance(v, SStr):
                return SAdt("Child", self.C("CNode", self.C("Txt", v.t)))
            if isinstance(v, SInt):
                return SAdt("Child", self.C("CInt", v.t))
            if isinstance(v, SBool):
                return SAdt("Child", self.C("CBoolC", v.t))
            if isinstance(v, SAdt) and v.sort == "Node":
                return SAdt("Child", self.C("CNode", v.t))
            if isinstance(v, SAdt) and v.sort == "AttrVal":
                return SAdt("Child", self.C("CNode", z3.If(self.is_c("Plain", v.t), self.C("Txt", self.acc("Plain", "s", v.t)), self.C("Raw", self.acc("RawV", "s", v.t)))))
            if isinstance(v, SAdt) and v.sort == "NodeList":
                return SAdt("Child", self.C("CSeq", z3.IntVal(2), self.F("ofNodes", v.t)))
            if isinstance(v, SAdt) and v.sort == "ChildList":
                return SAdt("Child", self.C("CSeq", z3.IntVal(KIND.get(v.pyclass or "list", 0)), v.t))
            if isinstance(v, PySeq):
                return SAdt("Child", self.C("CSeq", z3.IntVal(KIND[v.kind]), self.coerce_param(v, "ChildList").t))
        if sort == "NodeList":
            if isinstance(v, SAdt) and v.sort == "ChildList":
                # storing a python list as TagList data: every element must be a tag node (type invariant of NodeList)
                line = getattr(self, "_cur_line", "?")
                self.oblige(f"R:{self.short()}:L{line}:stores-only-nodes", self.F("allNodesC", v.t), where=self.fn_qual,
                            note="the list stored as children contains only valid tag nodes (no number, None, nested list or foreign object)")
                return SAdt("NodeList", self.F("toNodes", v.t), fresh=v.fresh)
            if isinstance(v, PySeq):
                return self.coerce_hook3(self.coerce_param(v, "ChildList"), "NodeList")
            if isinstance(v, SAdt) and v.sort == "Child" and self.implied(self.is_c("CSeq", v.t)):
                return self.coerce_hook3(SAdt("ChildList", self.acc("CSeq", "items", v.t)), "NodeList")
        if sort == "Node" and isinstance(v, SAdt) and v.sort == "Child":
            if self.implied(self.is_c("CNode", v.t)):
                return SAdt("Node", self.acc("CNode", "node", v.t))
        if sort == "TagArgs" and isinstance(v, PySeq):
            t = self.C("TNil")
            for x in reversed(v.items):
                if isinstance(x, PyDict) or (isinstance(x, SAdt) and x.sort in ("ArgDict", "AttrList")):
                    t = self.C("TCons", self.C("TDict", self.coerce_param(x, "ArgDict").t), t)
                elif isinstance(x, SAdt) and x.sort == "TagArg":
                    t = self.C("TCons", x.t, t)
                else:
                    t = self.C("TCons", self.C("TChild", self.coerce_param(x, "Child").t), t)
            return SAdt("TagArgs", t)
        if sort == "ArgDicts" and isinstance(v, SAdt) and v.sort == "TagArgs":
            return SAdt("ArgDicts", self.F("toDicts", v.t))
        if sort == "ArgDict" and isinstance(v, SAdt) and v.sort == "AttrList":
            return SAdt("ArgDict", self.F("toArgDict", v.t))
        if sort == "Str" and isinstance(v, SAdt) and v.sort == "Child":
            n = self.coerce_param(v, "Node")
            return self.as_str(n)
        if sort == "OptStr":
            if isinstance(v, SNone):
                return SAdt("OptStr", self.C("NoStr"))
            if isinstance(v, SStr):
                return SAdt("OptStr", self.C("SomeStr", v.t))
        if sort == "StrList" and isinstance(v, PySeq):
            t = self.C("SNil")
            for x in reversed(v.items):
                t = self.C("SCons", self.coerce_param(x, "Str").t, t)
            return SAdt("StrList", t)
        h = getattr(self, "coerce_hook4", None)
        return h(v, sort) if h else None

    def to_val(self, v):
        if isinstance(v, PySeq) and not v.items:
            hint = getattr(self, "_empty_list_sort", None)
            if hint:
                return self.to_val(self.coerce_param(v, hint))
        return super().to_val(v)

    # ------------------------------------------------------------------ python-list view of symbolic lists
    def method_hook3(self, obj, meth, pos, kw, node):
        if isinstance(obj, SAdt) and obj.sort == "ChildList" and meth == "append" and len(pos) == 1:
            c = self.coerce_param(pos[0], "Child")
            self.writeback(node.func.value, SAdt("ChildList", self.F("csnoc", obj.t, c.t), pyclass=obj.pyclass), node)
            return SNone()
        if isinstance(obj, PySeq) and obj.kind == "list" and meth == "append" and len(pos) == 1 and isinstance(pos[0], SAdt) and pos[0].sort in ("Child",) \
                and isinstance(node.func.value, ast.Name):
            base = self.coerce_param(obj, "ChildList")
            self.st.env[node.func.value.id] = SAdt("ChildList", self.F("csnoc", base.t, pos[0].t), fresh=True, pyclass="list")
            return SNone()
        if isinstance(obj, SAdt) and obj.sort == "AttrVal" and meth in ("split", "endswith", "strip", "rstrip", "lstrip"):
            s = SStr(z3.If(self.is_c("Plain", obj.t), self.acc("Plain", "s", obj.t), self.acc("RawV", "s", obj.t)))
            return self.str_method_hook(s, meth, pos, kw, node) or self._str_method(s, meth, pos, kw, node)
        if isinstance(obj, SAdt) and obj.sort == "CssArgs" and meth == "items" and not pos:
            return obj
        h = getattr(self, "method_hook4", None)
        return h(obj, meth, pos, kw, node) if h else None

    def _str_method(self, s, meth, pos, kw, node):
        from .calls import str_method
        return str_method(self, s, meth, pos, kw, node)

    def str_method_hook(self, s, meth, pos, kw, node):
        if meth == "split" and not pos and not kw:
            return SAdt("StrList", self.w.funcs["splitWs"](s.t), fresh=True)
        if meth == "strip" and not pos:
            return SStr(self.w.funcs["stripWs"](s.t))
        if meth in ("rstrip", "lstrip") and not pos and not kw:
            return SStr(self.F(meth + "Ws", s.t))
        if meth == "lower" and not pos:
            return SStr(self.F("lowerStr", s.t))
        if meth == "join" and len(pos) == 1 and isinstance(pos[0], SAdt) and pos[0].sort == "CssVal" and self.implied(self.is_c("CssList", pos[0].t)):
            pos = [SAdt("StrList", self.acc("CssList", "items", pos[0].t))]
        if meth == "join" and len(pos) == 1 and isinstance(pos[0], SAdt) and pos[0].sort == "StrList":
            sep = z3.simplify(s.t)
            if z3.is_string_value(sep) and sep.as_string() == " ":
                return SStr(self.w.funcs["joinSp"](pos[0].t))
            raise Unsupported("join of a symbolic list with a separator other than ' '")
        return None

    def contains_hook3(self, container, x, node):
        if isinstance(container, SAdt) and container.sort == "StrList":
            return self.F("smem", container.t, self.coerce_param(x, "Str").t)
        h = getattr(self, "contains_hook4", None)
        return h(container, x, node) if h else None

    def get_attr_hook3(self, obj, attr, node):
        if attr == "data" and isinstance(obj, SAdt) and obj.sort == "NodeList":
            return SAdt("NodeList", obj.t, fresh=obj.fresh, pyclass="list:data")
        if attr == "data" and isinstance(obj, SAdt) and obj.sort == "Child":
            if self.implied(z3.And(self.is_c("CSeq", obj.t), self.acc("CSeq", "kind", obj.t) % 3 == 2)):
                return SAdt("ChildList", self.acc("CSeq", "items", obj.t), pyclass="list")
        if attr == "__class__" and isinstance(obj, SAdt) and obj.sort == "NodeList":
            return SClass("TagList")
        h = getattr(self, "get_attr_hook4", None)
        return h(obj, attr, node) if h else None

    def set_attr_hook3(self, obj, attr, v, node):
        if attr == "data" and isinstance(obj, SAdt) and obj.sort == "NodeList":
            self._cur_line = getattr(node, "lineno", "?")
            nv = self.coerce_param(v, "NodeList")
            self.writeback(node.value, SAdt("NodeList", nv.t), node)
            return True
        h = getattr(self, "set_attr_hook4", None)
        return h(obj, attr, v, node) if h else False

    def aug_add(self, cur, rhs, node):
        # list.__iadd__ on the data list of a TagList: extend in place
        if isinstance(cur, SAdt) and cur.sort == "NodeList" and (cur.pyclass or "").startswith("list"):
            self._cur_line = getattr(node, "lineno", "?")
            extra = self.coerce_param(rhs if not (isinstance(rhs, SAdt) and rhs.sort == "NodeList") else rhs, "NodeList")
            return SAdt("NodeList", self.F("nappend", cur.t, extra.t), fresh=cur.fresh, pyclass=cur.pyclass)
        if isinstance(cur, SAdt) and cur.sort == "NodeList" and node is not None and isinstance(node, ast.AugAssign):
            # x += y on a TagList object: type(x).__iadd__ (resolved through the MRO)
            q = self.resolve_method("TagList", "__iadd__")
            if q:
                from .calls import call_function
                call_function(self, q, [cur, rhs], {}, _FakeCall(node.target, node.value, node), bound_self=True)
                return self.eval(ast.parse(ast.unparse(node.target), mode="eval").body)
        return super().aug_add(cur, rhs, node)

    def resolve_method(self, cls, meth):
        """qualified name of the function `cls.meth` resolves to: defined in /repo's class, else inherited (stdlib source)"""
        core = "htmltools._core."
        if self.src.has(f"{core}{cls}.{meth}"):
            return f"{core}{cls}.{meth}"
        base = {"TagList": "collections.UserList", "HTML": "collections.UserString"}.get(cls)
        if base and self.src.has(f"{base}.{meth}"):
            return f"{base}.{meth}"
        return None

    def get_item_hook3(self, obj, k, node):
        h = getattr(self, "splice_read", None)
        if h:
            r = h(obj, k, node)
            if r is not None:
                return r
        h = getattr(self, "get_item_hook4", None)
        return h(obj, k, node) if h else None

    def set_item_hook3(self, obj, sl, v, node):
        hs = getattr(self, "splice_write", None)
        if hs and hs(obj, sl, v, node):
            return True
        if isinstance(obj, SAdt) and obj.sort == "NodeList" and isinstance(sl, ast.Slice) and sl.step is None and sl.lower is not None and sl.upper is not None \
                and ast.dump(sl.lower) == ast.dump(sl.upper):
            # l[i:i] = xs   (UserList.__setitem__ -> list slice assignment, A3)
            self._cur_line = getattr(node, "lineno", "?")
            i = self.eval(sl.lower)
            if not isinstance(i, SInt):
                raise Unsupported("slice index")
            xs = self.coerce_param(v, "NodeList")
            self.writeback(node.value, SAdt("NodeList", self.F("ninsert", obj.t, i.t, xs.t)), node)
            return True
        if isinstance(obj, SAdt) and obj.sort == "ChildList" and isinstance(node, ast.Subscript) and isinstance(node.value, ast.Name):
            hook = getattr(self, "inplace_store", None)
            if hook:
                return hook(obj, sl, v, node)
        h = getattr(self, "set_item_hook4", None)
        return h(obj, sl, v, node) if h else False

    def super_hook3(self, cls, meth, pos, kw, node):
        selfv = self.st.env.get("self")
        if cls == "TagList" and isinstance(selfv, SAdt) and selfv.sort == "NodeList":
            self._cur_line = getattr(node, "lineno", "?")
            if meth == "__init__" and len(pos) == 1:
                xs = self.coerce_param(pos[0], "NodeList")
                self.writeback(ast.Name("self", ast.Load()), SAdt("NodeList", xs.t), node)
                return SNone()
            if meth == "extend" and len(pos) == 1:
                xs = self.coerce_param(pos[0], "NodeList")
                self.writeback(ast.Name("self", ast.Load()), SAdt("NodeList", self.F("nappend", selfv.t, xs.t)), node)
                return SNone()
        h = getattr(self, "super_hook4", None)
        return h(cls, meth, pos, kw, node) if h else None

    def expr_List(self, e):
        # [a, *xs] with xs of unknown length: a symbolic ChildList
        if any(isinstance(x, ast.Starred) for x in e.elts):
            vals = [(isinstance(x, ast.Starred), self.eval(x.value if isinstance(x, ast.Starred) else x)) for x in e.elts]
            if any(st and isinstance(v, SAdt) and v.sort in ("ChildList", "TagArgs") for st, v in vals):
                t = None
                for st, v in reversed(vals):
                    if st and t is None:
                        t = self.coerce_param(v, "ChildList").t
                        continue
                    if t is None:
                        t = self.C("CNil")
                    if st:
                        t = self.F("cappend", self.coerce_param(v, "ChildList").t, t)
                    else:
                        t = self.C("CCons", self.coerce_param(v, "Child").t, t)
                return SAdt("ChildList", t, fresh=True, pyclass="list")
        return super().expr_List(e)

    def construct_hook3(self, cls, pos, kw, node):
        from .calls import Star
        if cls == "TagList" and not kw:
            # TagList(*args): children = nodes(args), TypeError if bad(args)   (contract of TagList.__init__)
            t = None
            for v in reversed(pos):
                if isinstance(v, Star) and t is None:
                    t = self.coerce_param(v.v, "ChildList").t
                    continue
                if t is None:
                    t = self.C("CNil")
                if isinstance(v, Star):
                    t = self.F("cappend", self.coerce_param(v.v, "ChildList").t, t)
                else:
                    t = self.C("CCons", self.coerce_param(v, "Child").t, t)
            if t is None:
                return SAdt("NodeList", self.C("NNil"), fresh=True, pyclass="TagList")       # TagList(): empty
            if self.branch(self.F("bad", t)):
                raise _Raise(SExc("TypeError", []), getattr(node, "lineno", None))
            return SAdt("NodeList", self.F("nodes", t), fresh=True)
        h = getattr(self, "construct_hook4", None)
        return h(cls, pos, kw, node) if h else None

    def builtin_hook(self, name, pos, kw, node):
        if name == "re.sub" and len(pos) == 3 and all(isinstance(p, SStr) for p in pos):
            pat, rep = z3.simplify(pos[0].t), z3.simplify(pos[1].t)
            if z3.is_string_value(pat) and z3.is_string_value(rep):
                p, r = pat.as_string(), rep.as_string()
                if p == "([A-Z])" and r == "-\\1":
                    return SStr(self.w.funcs["camelHyphen"](pos[2].t))
                if len(p) == 1 and p not in ".^$*+?{}[]\\|()" and "\\" not in r:
                    return SStr(self.w.funcs["replaceAll"](pos[2].t, pos[0].t, pos[1].t))
            raise Unsupported("re.sub with a pattern outside the modelled fragment")
        if name == "list" and len(pos) == 1 and isinstance(pos[0], SAdt) and pos[0].sort == "Child":
            v = pos[0]
            if self.branch(self.is_c("CSeq", v.t)):
                return SAdt("ChildList", self.acc("CSeq", "items", v.t), fresh=True, pyclass="list")
            # list(str) splits into characters, list(other iterable) is unknown: an arbitrary list
            return SAdt("ChildList", self.fresh("ChildList", "list_of_iterable"), fresh=True, pyclass="list")
        if name == "dict" and len(pos) == 1 and not kw and isinstance(pos[0], SAdt) and pos[0].sort == "AttrList":
            return SAdt("AttrList", pos[0].t, fresh=True, pyclass="dict")      # dict(mapping): a plain-dict copy with the same items
        if name == "type" and len(pos) == 1:
            v = pos[0]
            if isinstance(v, SAdt) and (v.pyclass or "").startswith("list"):
                return SClass("list")
            return SOpaque("type")
        h = getattr(self, "builtin_hook4", None)
        return h(name, pos, kw, node) if h else None


class _FakeCall(ast.Call):
    """a call node standing for `target.__iadd__(value)` so that write-back finds the receiver"""
    def __init__(self, target, value, orig):
        super().__init__(func=ast.Attribute(value=ast.parse(ast.unparse(target), mode="eval").body, attr="__iadd__", ctx=ast.Load()), args=[value], keywords=[])
        self.lineno = getattr(orig, "lineno", 0)
        self.col_offset = 0
