"""Discharging verification conditions: z3 first, cvc5 on `unknown` (DESIGN §2, §5).

Verdict per obligation: 'discharged' (unsat), 'refuted' (sat, with model), 'unknown'.
`unknown`/timeouts are never reported as violations."""
from __future__ import annotations
import os, subprocess, tempfile, time, re
from dataclasses import dataclass, field
import z3


@dataclass
class Verdict:
    name: str
    status: str                 # discharged | refuted | unknown
    backend: str = "z3"
    seconds: float = 0.0
    model: dict = field(default_factory=dict)
    model_text: str = ""
    where: str = ""
    note: str = ""
    kind: str = "R"
    smt2: str = ""
    relevant: bool = False
    relevance_note: str = ""
    contract: str = ""
    lean_name: str = ""


def model_dict(m: z3.ModelRef):
    out = {}
    for d in m.decls():
        if d.arity() == 0:
            try:
                out[d.name()] = model_value(m[d])
            except Exception:
                out[d.name()] = str(m[d])
    return out


def model_value(v):
    try:
        from .values import z3_to_py, to_json
        return to_json(z3_to_py(v))
    except Exception:
        pass
    if z3.is_string_value(v):
        return v.as_string()
    if z3.is_int_value(v):
        return v.as_long()
    if z3.is_true(v):
        return True
    if z3.is_false(v):
        return False
    return v.sexpr()


def discharge(ob, axioms=(), nat_consts=(), timeout_ms=10000, use_cvc5=True, long_retry=None) -> Verdict:
    if long_retry is None:
        long_retry = True if timeout_ms >= 20000 else 0        # 0: short form of the last attempt, False: none
    # E-matching over the imported lemmas occasionally diverges on one instantiation order and finishes in milliseconds on
    # another (the same query text was measured at 0.2 s and at > 3 s in consecutive runs): five attempts with different solver
    # seeds and growing budgets (1/10, 1/10, 1/3, 1/3, full) before the other back ends
    dt = 0.0
    for attempt, (seed, budget) in enumerate(((0, max(1000, timeout_ms // 10)), (11, max(1000, timeout_ms // 10)), (23, max(1000, timeout_ms // 3)),
                                              (37, max(1000, timeout_ms // 3)), (51, timeout_ms))):
        s = z3.Solver()
        s.set("timeout", budget)
        if attempt:
            s.set("random_seed", seed)
            s.set("smt.random_seed", seed)
        if any(z3.is_quantifier(a) for a in axioms):
            s.set("smt.mbqi", False)         # imported lemmas are instantiated by E-matching on their triggers only
        for a in (axioms if attempt % 2 == 0 else list(reversed(list(axioms)))):
            s.add(a)
        for c in nat_consts:
            s.add(c >= 0)
        for h in ob.hyps:
            s.add(h)
        s.add(z3.Not(ob.goal))
        t0 = time.time()
        r = s.check()
        dt += time.time() - t0
        if r != z3.unknown:
            break
    if r == z3.unsat:
        return Verdict(ob.name, "discharged", "z3", dt, where=ob.where, note=ob.note, kind=ob.kind)
    if r == z3.sat:
        m = s.model()
        return Verdict(ob.name, "refuted", "z3", dt, model_dict(m), str(m), ob.where, ob.note, ob.kind)
    smt2 = s.to_smt2()
    if use_cvc5:
        v = run_cvc5(smt2, max(10, timeout_ms // 500))
        if v is not None:
            st, secs, txt = v
            if st == "unsat":
                return Verdict(ob.name, "discharged", "cvc5", dt + secs, where=ob.where, note=ob.note, kind=ob.kind)
            if st == "sat":
                return Verdict(ob.name, "refuted", "cvc5", dt + secs, {}, txt, ob.where, ob.note, ob.kind)
    if long_retry is False:
        return Verdict(ob.name, "unknown", "z3+cvc5", dt, where=ob.where, note=ob.note + f" [{s.reason_unknown()}]", kind=ob.kind, smt2=smt2)
    # last attempt: z3 with 3x (quick) / 6x (thorough) budget; only reached when every attempt above was undecided, so it costs
    # nothing on a tree whose obligations discharge and keeps a loaded machine from turning a proof into UNDECIDED
    s.set("timeout", timeout_ms * (6 if long_retry else 3))
    t0 = time.time()
    r = s.check()
    dt2 = time.time() - t0
    if r == z3.unsat:
        return Verdict(ob.name, "discharged", "z3(long)", dt + dt2, where=ob.where, note=ob.note, kind=ob.kind)
    if r == z3.sat:
        m = s.model()
        return Verdict(ob.name, "refuted", "z3(long)", dt + dt2, model_dict(m), str(m), ob.where, ob.note, ob.kind)
    return Verdict(ob.name, "unknown", "z3+cvc5", dt + dt2, where=ob.where, note=ob.note + f" [{s.reason_unknown()}]", kind=ob.kind, smt2=smt2)


def run_cvc5(smt2: str, seconds: int):
    exe = "/usr/bin/cvc5"
    if not os.path.exists(exe):
        return None
    text = "(set-logic ALL)\n(set-option :produce-models true)\n" + smt2
    if "(check-sat)" not in text:
        text += "\n(check-sat)\n"
    with tempfile.NamedTemporaryFile("w", suffix=".smt2", delete=False, dir=os.environ.get("HV_WORK", None)) as f:
        f.write(text)
        path = f.name
    t0 = time.time()
    try:
        p = subprocess.run([exe, "--strings-exp", f"--tlimit={seconds * 1000}", path], capture_output=True, text=True, timeout=seconds + 5)
        out = p.stdout.strip().splitlines()
        st = out[0].strip() if out else "unknown"
        if st not in ("sat", "unsat"):
            return None
        return st, time.time() - t0, p.stdout
    except Exception:
        return None
    finally:
        try:
            os.unlink(path)
        except OSError:
            pass
