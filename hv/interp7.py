"""Layer 7 of the symbolic executor: path functions, file objects and ghost effects (C12).

A3 library models: posixpath.join = the prim pjoin; urllib.parse.quote, os.path.join, os.path.realpath, Path(f).resolve().parent and
package_dir are uninterpreted functions of their arguments.  Calls that act on the file system (dep.copy_to, open(f, "w").write) are not
executed: they are recorded, in order, in a ghost effect log that the harness compares with the expected log.
A `for x in <symbolic list>` loop whose body only performs such calls is recorded as one `foreach` entry (the body is executed once
on a fresh element; it must neither branch on the element nor assign to variables that live after the loop)."""
from __future__ import annotations
import ast
import z3
from .symexec import (SV, SStr, SBool, SInt, SNone, SAdt, PySeq, PyDict, PyRec, SClass, SFunc, SBuiltin, SOpaque, Unsupported)
from .interp6 import Interp6

EFF = "$effects"


class Interp7(Interp6):
    # ---- ghost effects ----------------------------------------------------------------------------------------------
    def effect(self, *entry):
        log = self.st.env.get(EFF)
        items = list(log.items) if isinstance(log, PySeq) else []
        self.st.env[EFF] = PySeq(items + [PySeq(list(entry), "tuple", True)], "list", True)

    def builtin_hook7(self, name, pos, kw, node):
        if name == "posixpath.join" and len(pos) == 2 and all(isinstance(p, SStr) for p in pos):
            return SStr(self.F("pjoin", pos[0].t, pos[1].t))
        if name == "urllib.parse.quote" and len(pos) == 1 and isinstance(pos[0], SStr) and not kw:
            return SStr(self.F("quoteUrl", pos[0].t))
        if name == "os.path.join" and len(pos) == 2 and all(isinstance(p, SStr) for p in pos):
            return SStr(self.F("osJoin", pos[0].t, pos[1].t))
        if name == "os.path.realpath" and len(pos) == 1 and isinstance(pos[0], SStr):
            return SStr(self.F("realPath", pos[0].t))
        if name == "open" and 1 <= len(pos) <= 2 and isinstance(pos[0], SStr):
            mode = pos[1] if len(pos) == 2 else kw.get("mode", SStr(z3.StringVal("r")))
            return PyRec("File", {"path": pos[0], "mode": mode}, fresh=True)
        if name == "deepcopy" and len(pos) == 1 and isinstance(pos[0], (PySeq, PyDict)):
            return self.deep(pos[0])
        h = getattr(self, "builtin_hook8", None)
        return h(name, pos, kw, node) if h else None

    def deep(self, v):
        if isinstance(v, PySeq):
            return PySeq([self.deep(x) for x in v.items], v.kind, True)
        if isinstance(v, PyDict):
            return PyDict([(k, self.deep(x)) for k, x in v.items], True)
        if isinstance(v, SAdt):
            return SAdt(v.sort, v.t, fresh=True, pyclass=v.pyclass)
        return v

    def construct_hook7(self, cls, pos, kw, node):
        if cls == "Path" and len(pos) == 1 and isinstance(pos[0], SStr) and not kw:
            return PyRec("Path", {"p": pos[0], "resolved": SBool(z3.BoolVal(False))}, fresh=True)
        if cls == "HTMLDocument":
            # __init__: self._content = TagList(*args); self._html_attr_args = kwargs   (record view)
            from .calls import construct
            content = construct(self, "TagList", pos, {}, node)
            if kw:
                d = PyDict([(SStr(z3.StringVal(k)), v) for k, v in kw.items() if k != "**"], True)
                attrs = self.coerce_param(d, "ArgDict") if "**" not in kw else self.coerce_param(kw["**"].v, "ArgDict")
            else:
                attrs = SAdt("ArgDict", self.C("DNil"), fresh=True)
            return PyRec("HTMLDocument", {"_content": content, "_html_attr_args": attrs}, fresh=True)
        h = getattr(self, "construct_hook8", None)
        return h(cls, pos, kw, node) if h else None

    def get_attr(self, obj, attr, node):
        if isinstance(obj, PyRec) and (obj.cls, attr) in getattr(self, "record_methods", {}):
            return SBuiltin(attr, bound=obj)            # a method of a record object, called through the model the harness supplies (the callee's contract)
        if isinstance(obj, PyRec) and obj.cls == "Path" and attr == "parent":
            if not z3.is_true(obj.fields["resolved"].t):
                raise Unsupported("Path.parent of an unresolved path")
            return PyRec("Path", {"p": SStr(self.F("parentDir", obj.fields["p"].t)), "resolved": SBool(z3.BoolVal(True)), "is_parent": SBool(z3.BoolVal(True))}, fresh=True)
        return super().get_attr(obj, attr, node)

    def str_of(self, v, node=None):
        if isinstance(v, SAdt) and (v.sort == "NodeList" and v.pyclass == "TagList" or v.sort == "Node" and self.implied(self.is_c("El", v.t))):
            # str(tag) / str(taglist) is _render_tag_or_taglist (its contract): the markup, plus the serialised dependencies when the
            # module global html_dependency_render_mode (a ghost input of this activation) is "json"
            if "$render_mode" not in self.st.env:
                self.st.env["$render_mode"] = SStr(self.fresh("Str", "render_mode"))
            lst = v.sort == "NodeList"
            if self.branch(self.F("hasObL", self.F("tagifyL", v.t)) if lst else self.F("hasObT", self.F("tagifyT", v.t))):
                self.raise_("RuntimeError", node)
            return SStr(self.F("strOut", self.F("renderL", v.t) if lst else self.F("renderT", v.t), self.st.env["$render_mode"].t))
        if isinstance(v, PyRec) and v.cls == "Path":
            if "is_parent" in v.fields:
                return v.fields["p"]
            raise Unsupported("str() of a Path other than Path(f).resolve().parent")
        return super().str_of(v, node)

    def method_hook8(self, obj, meth, pos, kw, node):
        if isinstance(obj, PyRec) and (obj.cls, meth) in getattr(self, "record_methods", {}):
            m = self.record_methods[(obj.cls, meth)]
            if getattr(self, "record_method_receivers", False):
                return m(pos, kw, node, recv=obj)
            return m(pos, kw, node)
        if isinstance(obj, PyRec) and obj.cls == "Path" and meth == "resolve" and not pos:
            return PyRec("Path", {"p": obj.fields["p"], "resolved": SBool(z3.BoolVal(True))}, fresh=True)
        if isinstance(obj, PyRec) and obj.cls == "File" and meth == "write" and len(pos) == 1:
            self.effect(SStr(z3.StringVal("write")), obj.fields["path"], obj.fields["mode"], pos[0])
            return SNone()
        if isinstance(obj, SAdt) and obj.sort == "Dep" and meth == "copy_to" and getattr(self, "effects_enabled", False):
            path = pos[0] if pos else kw.get("path")
            iv = pos[1] if len(pos) > 1 else kw.get("include_version", SBool(z3.BoolVal(True)))
            self.effect(SStr(z3.StringVal("copy_to")), obj, path, iv)
            return SNone()
        h = getattr(self, "method_hook9", None)
        return h(obj, meth, pos, kw, node) if h else None

    def str_method_hook(self, s, meth, pos, kw, node):
        if meth in ("removesuffix", "removeprefix") and len(pos) == 1 and isinstance(pos[0], SStr) and not kw:
            x = pos[0].t
            if meth == "removesuffix":
                return SStr(z3.If(z3.And(z3.Length(x) > 0, z3.SuffixOf(x, s.t)), z3.SubString(s.t, 0, z3.Length(s.t) - z3.Length(x)), s.t))
            return SStr(z3.If(z3.And(z3.Length(x) > 0, z3.PrefixOf(x, s.t)), z3.SubString(s.t, z3.Length(x), z3.Length(s.t) - z3.Length(x)), s.t))
        return super().str_method_hook(s, meth, pos, kw, node)

    # ---- with open(...) as f: ... -----------------------------------------------------------------------------------------
    def stmt_With(self, s):
        if len(s.items) != 1:
            raise Unsupported("with: several context managers")
        it = s.items[0]
        v = self.eval(it.context_expr)
        if not (isinstance(v, PyRec) and v.cls == "File"):
            raise Unsupported(f"with: context manager {v!r}")
        if it.optional_vars is not None:
            self.assign(it.optional_vars, v)
        self.exec_block(s.body)
        self.effect(SStr(z3.StringVal("close")), v.fields["path"])

    # ---- effect loops ---------------------------------------------------------------------------------------------------
    def loop_hook(self, s, k, rule):
        if rule is not None or not getattr(self, "effects_enabled", False):
            return False
        it = self.eval(s.iter)
        if not (isinstance(it, SAdt) and it.sort == "DepList"):
            return False
        elem = SAdt("Dep", self.fresh("Dep", "each"), fresh=False)
        before_env = dict(self.st.env)
        npc = len(self.st.pc)
        saved_log = self.st.env.get(EFF)
        self.st.env[EFF] = PySeq([], "list", True)
        self.assign(s.target, elem)
        self.exec_block(s.body)
        if len(self.st.pc) != npc:
            raise Unsupported("effect loop: the body branches")
        body_log = self.st.env[EFF]
        names = {n.id for n in ast.walk(s.target) if isinstance(n, ast.Name)}
        for kname, v in self.st.env.items():
            if kname in names or kname == EFF:
                continue
            if before_env.get(kname) is not v:
                raise Unsupported(f"effect loop: the body assigns `{kname}`")
        self.st.env = dict(before_env)
        self.st.env[EFF] = saved_log if saved_log is not None else PySeq([], "list", True)
        self.effect(SStr(z3.StringVal("foreach")), it, elem, body_log)
        return True
