"""Constants of this run read from /repo, their finite side conditions (G-obligations), the generated
Lean modules HV.Consts / HV.RunLemmas, and the lemma instances imported into SMT (DESIGN §2, §4.2)."""
from __future__ import annotations
from dataclasses import dataclass, field
import ast
from .extract import Sources, OrderedSet
from .emit_lean import LeanEmitter, lean_str
from .speclang import SpecFn, REG
from .speceval import Val

REGEX_META = set(".^$*+?{}[]\\|()")


@dataclass
class Lemma:
    """A Lean theorem whose statement is an L1 Bool expression; imported into SMT as an axiom
    (instantiated at given terms) only if the theorem compiled in this run."""
    name: str
    vars: list            # [(name, sort)]
    expr: str             # L1 Bool expression over vars
    proof: str            # Lean proof text (after `:=`)
    why: str = ""
    imports: tuple = ()   # extra Lean modules the proof needs
    trigger: str = ""     # L1 expression over the variables: E-matching pattern when the lemma is imported with quantified variables


@dataclass
class GCond:
    name: str
    holds: bool
    detail: str = ""
    lean: str = ""        # name of the Lean theorem that re-proves it by `decide`


class Constants:
    def __init__(self, src: Sources):
        self.src = src
        self.TEXT = dict(src.const("htmltools._util", "HTML_ESCAPE_TABLE"))
        self.ATTR = dict(src.const("htmltools._util", "HTML_ATTRS_ESCAPE_TABLE"))
        self.VOID = list(src.const("htmltools._core", "_VOID_TAG_NAMES"))
        self.NOESC = list(src.const("htmltools._core", "_NO_ESCAPE_TAG_NAMES"))

    # ---- python bindings of the abstract parameters (executable spec) ----
    def bind_python(self):
        from .spec import render

        def esc(table):
            def f(s):
                return "".join(table.get(ch, ch) for ch in s)
            return f
        render.BIND.update(escT=esc(self.TEXT), escA=esc(self.ATTR), isVoid=lambda n: n in self.VOID, noEsc=lambda n: n in self.NOESC)

    # ---- G-obligations (finite; evaluated here and re-proved by `decide` in Consts.lean) ----
    def gconds(self):
        out = []
        for nm, T in (("TEXT", self.TEXT), ("ATTR", self.ATTR)):
            items = list(T.items())
            single = all(isinstance(k, str) and len(k) == 1 for k in T)
            out.append(GCond(f"G:{nm}_TABLE:singleCharKeys", single, f"keys={list(T)}"))
            out.append(GCond(f"G:{nm}_TABLE:regexLiteralKeys", all(k not in REGEX_META for k in T), "keys are not regex metacharacters (A3 model of re.search)"))
            fresh = all(all(k2 not in v for k2, _ in items[i + 1:]) for i, (_, v) in enumerate(items))
            bad = [(k2, v) for i, (_, v) in enumerate(items) for k2, _ in items[i + 1:] if k2 in v]
            out.append(GCond(f"G:{nm}_TABLE:keysFresh", fresh, f"later key occurs in earlier replacement: {bad}" if bad else "", lean=f"G_{nm}_fresh"))
            out.append(GCond(f"G:{nm}_TABLE:startsAmp", all(v.startswith("&") for v in T.values()), "", lean=f"G_{nm}_amp"))
            out.append(GCond(f"G:{nm}_TABLE:ampIsKey", "&" in T, "", lean=f"G_{nm}_key"))
            vals = list(T.values())
            pf = all(a == b or not (a.startswith(b) or b.startswith(a)) for a in vals for b in vals) and len(set(vals)) == len(vals)
            out.append(GCond(f"G:{nm}_TABLE:prefixFree", pf, "", lean=f"G_{nm}_pf"))
        return out

    # ---- Lean text ----
    def table_lean(self, T):
        return "[" + ", ".join(f"({ord(k)}, {lean_list(v)})" for k, v in T.items()) + "]"

    def consts_lean(self):
        L = ["import HV.Esc", "import HV.Spec", "/- GENERATED on every run from the constants in /repo (hv/ground.py). -/", "namespace HV", ""]
        L.append(f"def TEXT : Table := {self.table_lean(self.TEXT)}")
        L.append(f"def ATTR : Table := {self.table_lean(self.ATTR)}")
        L.append(f"def VOID : List Str := [{', '.join(lean_list(n) for n in self.VOID)}]")
        L.append(f"def NOESC : List Str := [{', '.join(lean_list(n) for n in self.NOESC)}]")
        L.append("def realCfg : Cfg := { escT := esc TEXT, escA := esc ATTR, isVoid := fun n => VOID.contains n, noEsc := fun n => NOESC.contains n }")
        L.append("")
        for nm in ("TEXT", "ATTR"):
            L.append(f"theorem G_{nm}_fresh : keysFreshB {nm} = true := by decide")
        L.append("end HV")
        return "\n".join(L) + "\n"

    # ---- lemma schemas ----
    def lemmas(self):
        out = []
        for nm, T, fn in (("TEXT", self.TEXT, "escT"), ("ATTR", self.ATTR, "escA")):
            if not all(isinstance(k, str) and len(k) == 1 for k in T):
                continue
            chain = "s"
            for k, v in T.items():
                chain = f"replaceAll({chain}, {k!r}, {v!r})"
            anyk = " or ".join(f"contains(s, {k!r})" for k in T)
            out.append(Lemma(
                name=f"L_html_escape_{nm}", vars=[("s", "Str")],
                expr=f"({chain} if ({anyk}) else s) == {fn}(s)",
                proof=f"by\n  have h := escapeImpl_eq_esc {nm} (keysFresh_of_B _ G_{nm}_fresh) s\n"
                      f"  simpa [escapeImpl, anyKeyIn, chainR, {nm}, realCfg, Bool.or_assoc] using h",
                why=f"regex fast path + replace loop over the real {nm} table = per-character map esc {nm} (escapeImpl_eq_esc, G:{nm}_TABLE:keysFresh)"))
        return out


def lean_list(s: str) -> str:
    return "[" + ", ".join(str(ord(c)) for c in s) + "]"


def lemmas_lean(lemmas, imports=("HV.Consts",), cfg="realCfg"):
    em = LeanEmitter()
    em.cfg_name = cfg
    imports = list(imports) + sorted({m for lm in lemmas for m in lm.imports if m not in imports})
    L = [f"import {m}" for m in imports] + ["/- GENERATED on every run (hv/ground.py): statements are L1 expressions emitted by hv.emit_lean;",
         "   the same expressions are instantiated as SMT axioms iff this module compiles. -/", "set_option linter.unusedVariables false", "namespace HV", ""]
    for lm in lemmas:
        env = {n: Val(s, n) for n, s in lm.vars}
        v = em.eval(ast.parse(lm.expr, mode="eval").body, env, SpecFn(lm.name, [], "Bool", "spec"), want="Bool")
        binders = " ".join(f"({n} : {em.sort(s)})" for n, s in lm.vars)
        if "env." in str(v.v):
            binders = "(env : Env) " + binders
        L.append(f"theorem {lm.name} {binders} :\n    {v.v} = true := {lm.proof}\n")
    L.append("end HV")
    return "\n".join(L) + "\n"


def all_gconds(ctx):
    out = list(ctx.consts.gconds())
    for fn in EXTRA_GCONDS:
        out.extend(fn(ctx))
    return out


def _module_gconds(ctx):
    """import / class-structure facts read from the AST of this run"""
    import ast as _ast
    out = []
    init = ctx.src.module("htmltools")
    ok = any(isinstance(n, _ast.ImportFrom) and n.level == 1 and n.module == "_util" and any(a.name == "html_escape" and a.asname is None for a in n.names) for n in init.body)
    rebound = any(isinstance(n, (_ast.Assign, _ast.FunctionDef)) and "html_escape" in [getattr(t, "id", None) for t in _ast.walk(n) if isinstance(t, _ast.Name) and isinstance(t.ctx, _ast.Store)] + [getattr(n, "name", None)] for n in init.body)
    out.append(GCond("G:htmltools.html_escape:reexport", ok and not rebound, "htmltools.html_escape is htmltools._util.html_escape"))
    void16 = {"area", "base", "br", "col", "command", "embed", "hr", "img", "input", "keygen", "link", "meta", "param", "source", "track", "wbr"}
    out.append(GCond("G:_VOID_TAG_NAMES:sixteen", set(ctx.consts.VOID) == void16, f"void names of this run: {sorted(ctx.consts.VOID)} (the statement's 16 void names)"))
    out.append(GCond("G:_NO_ESCAPE_TAG_NAMES:script-style", set(ctx.consts.NOESC) == {"script", "style"}, f"{sorted(ctx.consts.NOESC)}"))
    cls = ctx.src.find_class("htmltools._core.HTML")
    meths = [n.name for n in cls.body if isinstance(n, _ast.FunctionDef)]
    out.append(GCond("G:HTML:no__iadd__", "__iadd__" not in meths and "__mul__" not in meths, f"HTML defines {meths}: += is + (A4)"))
    # A2 for metadata: MetadataNode / HTMLDependency are neither self-rendering nor tagifiable (the kinds of stored children partition)
    for cname in ("MetadataNode", "HTMLDependency"):
        try:
            k = ctx.src.find_class("htmltools._core." + cname)
            ms = [n.name for n in k.body if isinstance(n, (_ast.FunctionDef, _ast.AsyncFunctionDef))] + [t.id for n in k.body if isinstance(n, _ast.Assign) for t in n.targets if isinstance(t, _ast.Name)]
            bases = [_ast.unparse(b) for b in k.bases]
            special = [m_ for m_ in ms if m_ in ("_repr_html_", "tagify", "__copy__", "__deepcopy__", "__reduce__", "__reduce_ex__", "__getstate__", "__setstate__", "__hash__", "__iter__", "__len__", "__getitem__")]
            okk = not special and all(b in ("MetadataNode", "object") for b in bases)
            out.append(GCond(f"G:{cname}:not-self-rendering", okk, f"{cname}({', '.join(bases)}) defines none of _repr_html_ / tagify (a metadata node is only ever skipped) and no copy / pickle / "
                                                                    f"container protocol method (copy.copy of it is the default field-wise copy); found: {special or 'none'}"))
        except Exception as ex:
            out.append(GCond(f"G:{cname}:not-self-rendering", False, f"cannot read class: {ex}"))
    return out


EXTRA_GCONDS = [_module_gconds]
