"""Orchestration of one property check (DESIGN §4.4, §5): R/F obligations from the real AST (SMT),
G side conditions on this run's constants, P theorems in Lean, vacuity/audit guards, CPython
cross-check, bounded oracle, replay of refutations, evidence."""
from __future__ import annotations
import json, os, sys, time, fnmatch, threading, re, traceback
from concurrent.futures import ProcessPoolExecutor

ROOT = os.path.dirname(os.path.dirname(os.path.abspath(__file__)))
EVID = os.environ.get("HV_EVIDENCE_DIR") or os.path.join(ROOT, "evidence")
KNOWN = os.path.join(ROOT, "KNOWN_FINDINGS.txt")


# ---------------------------------------------------------------------------------------------------
class Ctx:
    """everything one run needs, built from the current working tree"""

    def __init__(self, tier, seed):
        import hv.spec  # noqa: F401  (registers the L1 specs)
        from .emit_z3 import get_world
        from .extract import Sources
        from .contracts import build_db
        from .ground import Constants
        self.tier, self.seed = tier, seed
        self.src = Sources()
        self.world = get_world()
        self.db = build_db()
        self.consts = Constants(self.src)
        self.consts.bind_python()
        self.lemmas = {l.name: l for l in self.all_lemmas()}
        self.lean = None
        self.lean_results = {}

    def all_lemmas(self):
        out = list(self.consts.lemmas())
        from .contracts import extra_lemmas
        out.extend(extra_lemmas(self))
        return out

    def generated_modules(self):
        from .emit_lean import LeanEmitter
        from .ground import lemmas_lean
        from . import primcheck
        src, self.prim_index = primcheck.generate()
        return {"HV.Sorts": LeanEmitter().emit_sorts(), "HV.Spec": LeanEmitter().emit_all(), "HV.Consts": self.consts.consts_lean(),
                "HV.RunLemmas": lemmas_lean(list(self.lemmas.values())), "HV.PrimCheck": src}


def _verify_one(args):
    """worker: verify one contract in a fresh process (z3 terms are not picklable)"""
    qual, tier, seed, prop = args
    try:
        ctx = Ctx(tier, seed)
        from .verify import verify_contract
        from .plans import PLANS
        c = ctx.db.get(qual)
        rel = PLANS[prop].relevance if prop in PLANS else None
        vs, stats = verify_contract(ctx.world, ctx.src, ctx.db, c, ctx.lemmas, timeout_ms=10000 if tier == "quick" else 30000, relevance=rel)
        return qual, [v.__dict__ for v in vs], stats, None
    except Exception as ex:
        return qual, [], {}, f"{type(ex).__name__}: {ex}\n{traceback.format_exc()[-1500:]}"


def known_findings():
    out = {"known": [], "fixed": []}
    if os.path.exists(KNOWN):
        for line in open(KNOWN, encoding="utf-8"):
            line = line.strip()
            m = re.match(r"known:\s+property=(\S+)\s+obligation=(\S+)\s*(.*)", line)
            if m:
                out["known"].append({"property": m.group(1), "obligation": m.group(2), "text": m.group(3)})
            m = re.match(r"fixed:\s+property=(\S+)\s+(\S+)\s+(.*)", line)
            if m:
                out["fixed"].append({"property": m.group(1), "commit": m.group(2), "text": m.group(3)})
    return out


def run_setup():
    """build the Lean library once (cache under .work) and byte-compile hv"""
    import compileall
    compileall.compile_dir(os.path.join(ROOT, "hv"), quiet=1)
    ctx = Ctx("quick", 0)
    from .leanbuild import LeanBuild
    from .plans import PLANS
    lb = LeanBuild(ctx.generated_modules())
    mods = sorted({m for p in PLANS.values() for m in p.lean} | {"HV.RunLemmas", "HV.PrimCheck"})
    res = lb.build(mods, jobs=12)
    bad = [m for m, r in res.items() if not r.ok]
    for m, r in res.items():
        print(f"lean {m}: {'ok' if r.ok else 'FAILED'} {r.seconds:.1f}s{' (cached)' if r.cached else ''}")
    lb.close()
    if bad:
        for m in bad:
            print(res[m].output[-3000:])
    return 0  # setup never blocks the checks: each check rebuilds what it needs


# ---------------------------------------------------------------------------------------------------
def run_check(prop, tier, seed):
    from .plans import PLANS, COMMON_ASSUMPTIONS
    from .vc import Verdict
    from .leanbuild import LeanBuild
    from . import replay as RP
    t0 = time.time()
    if prop not in PLANS:
        print(f"no plan for {prop}")
        return 3
    plan = PLANS[prop]
    os.makedirs(EVID, exist_ok=True)
    ctx = Ctx(tier, seed)
    verdicts: list[Verdict] = []
    timings = {}

    # ---- P: Lean in the background ---------------------------------------------------------------
    lb = LeanBuild(ctx.generated_modules())
    lean_out = {}

    def lean_job():
        t = time.time()
        try:
            lean_out["res"] = lb.build(sorted(set(plan.lean) | {"HV.RunLemmas", "HV.PrimCheck"}), jobs=8)
        except Exception as ex:
            lean_out["err"] = f"{type(ex).__name__}: {ex}"
        timings["lean_s"] = time.time() - t
    th = threading.Thread(target=lean_job)
    th.start()

    # ---- R / F: SMT obligations from the real AST ------------------------------------------------
    t = time.time()
    stats = {}
    crashes = []
    quals = list(plan.contracts)
    with ProcessPoolExecutor(max_workers=min(12, max(1, len(quals)))) as ex:
        for qual, vs, st, err in ex.map(_verify_one, [(q, tier, seed, prop) for q in quals]):
            stats[qual] = st
            if err:
                crashes.append((qual, err))
            for d in vs:
                v = Verdict(**d)
                v.contract = qual
                verdicts.append(v)
    timings["smt_s"] = time.time() - t
    if crashes:
        th.join()
        lb.close()
        for q, e in crashes:
            print(f"checker crash while verifying {q}:\n{e}")
        print(f"CHECKER-CRASH property={prop}")
        return 3

    # ---- extra (frame rules, special harnesses) ---------------------------------------------------
    if plan.extra:
        for v in plan.extra(ctx):
            verdicts.append(v)

    # ---- G: finite side conditions -----------------------------------------------------------------
    from .ground import all_gconds
    for g in all_gconds(ctx):
        if any(g.name.startswith(p) for p in plan.gconds):
            v = Verdict(g.name, "discharged" if g.holds else "refuted", "python+lean-decide" if g.lean else "python", 0.0,
                        where="constants of this run", note=g.detail, kind="G")
            v.lean_name = g.lean
            verdicts.append(v)

    # ---- join Lean: P obligations, lemma validity ---------------------------------------------------
    th.join()
    if "err" in lean_out:
        lb.close()
        print("checker crash in Lean build:", lean_out["err"])
        print(f"CHECKER-CRASH property={prop}")
        return 3
    lres = lean_out["res"]
    audit = {}
    if tier == "thorough":
        # independent re-check of the compiled theorem modules by Lean's external checker (replays every declaration in the kernel)
        import shutil, subprocess
        exe = shutil.which("leanchecker")
        mods = [m for m in plan.lean if lres.get(m) is not None and lres[m].ok]
        if exe and mods:
            t_lc = time.time()
            try:
                pr = subprocess.run([exe] + mods, env=dict(os.environ, LEAN_PATH=lb.rundir), capture_output=True, text=True, timeout=1200)
                ok_lc, out_lc = pr.returncode == 0, (pr.stdout + pr.stderr)[-600:]
            except Exception as ex:
                ok_lc, out_lc = False, f"{type(ex).__name__}: {ex}"
            verdicts.append(Verdict(f"P:{prop}:leanchecker", "discharged" if ok_lc else "unknown", "leanchecker", time.time() - t_lc, where=", ".join(mods), kind="P",
                                    note="leanchecker re-checked the compiled modules " + ", ".join(mods) + ("" if ok_lc else ": " + out_lc)))
    # A6 for the hand-written Lean definitions of primitives: evaluated by Lean on samples, compared with CPython
    from . import primcheck
    pc = lres.get("HV.PrimCheck")
    if pc is not None and pc.ok:
        verdicts.extend(primcheck.verdicts(pc.output, ctx.prim_index))
    else:
        verdicts.append(Verdict("G:A6:primitives:lean-agrees", "unknown", "lean-eval", 0.0, where="HV.PrimCheck", kind="G",
                                note="the generated cross-check module did not compile: " + ("; ".join(m[:200] for _, m in pc.errors[:2]) if pc is not None else "not built")))
    for mod, thms in plan.lean.items():
        r = lres[mod]
        text = lb.texts[mod]
        banned = [w for w in ("sorry", "admit", "native_decide", "unsafe ") if re.search(r"\b" + re.escape(w.strip()) + r"\b", _strip_comments(text))]
        banned += ["axiom"] if re.search(r"^\s*axiom\s", _strip_comments(text), flags=re.M) else []
        for tname in thms:
            present = tname in r.theorems
            if r.ok and present and not banned:
                st, note = "discharged", ""
            elif not r.ok and r.blocked_by and r.blocked_by != mod:
                st, note = "unknown", f"blocked: module {r.blocked_by} did not compile"
            elif not present:
                st, note = "unknown", f"theorem {tname} is not in {mod}"
            elif banned:
                st, note = "unknown", f"{mod} uses {banned}"
            else:
                st, note = ("unknown", "Lean error: " + "; ".join(f"L{l}: {m[:300]}" for l, m in r.errors[:3]))
                if tname not in r.failed_decls and r.errors:
                    note = f"module {mod} has errors in {r.failed_decls}; " + note
            v = Verdict(f"P:{prop}:{tname}", st, "lean", r.seconds, where=mod, note=note, kind="P")
            verdicts.append(v)
    # G-obligations re-proved in Lean: a failed `decide` there is a refutation of the G condition
    cres = lres.get("HV.Consts")
    if cres is not None and not cres.ok:
        for v in verdicts:
            if v.kind == "G" and getattr(v, "lean_name", "") in cres.failed_decls and v.status == "discharged":
                v.status, v.note = "refuted", v.note + " [Lean `decide` failed although the Python evaluation passed]"
    lemma_ok = lres["HV.RunLemmas"].ok
    if not lemma_ok:
        bad = lres["HV.RunLemmas"]
        for v in verdicts:
            c = ctx.db.by_name.get(getattr(v, "contract", ""), None)
            if v.kind == "R" and c is not None and c.lemmas and v.status == "discharged":
                v.status = "unknown"
                v.note += f" [uses imported lemmas, but HV.RunLemmas did not compile: {bad.blocked_by or bad.failed_decls}]"
    # axiom audit of the property's theorems
    try:
        for mod, thms in plan.lean.items():
            if lres[mod].ok:
                ax, _ = lb.axioms_of(mod, thms)
                audit.update(ax)
    except Exception as ex:
        audit["error"] = str(ex)
    allowed = {"propext", "Quot.sound", "Classical.choice"}
    for tname, axs in audit.items():
        if isinstance(axs, list) and not set(axs) <= allowed:
            for v in verdicts:
                if v.name == f"P:{prop}:{tname}":
                    v.status, v.note = "unknown", f"depends on axioms {axs}"

    # ---- vacuity canary: a deliberately false postcondition must be refuted --------------------------
    canary = _canary(ctx, plan)
    # ---- A6 / A3 cross-check: executable spec vs real code (validates the models, not the property) ---
    t = time.time()
    xchk = {}
    n_x = 60 if tier == "quick" else 600
    for q in plan.contracts:
        c = ctx.db.get(q)
        if not c.verify or (c.harness is not None and c.diff is None) or getattr(c, "no_differential", False):
            continue
        try:
            n, mm = RP.differential(ctx.src, c, n=n_x, seed=seed, atoms={"allow_ob": True})
            xchk[q] = {"cases": n, "mismatches": len(mm), "first": mm[:1]}
        except Exception as ex:
            xchk[q] = {"error": f"{type(ex).__name__}: {ex}"}
    timings["crosscheck_s"] = time.time() - t
    # ---- bounded oracle ---------------------------------------------------------------------------
    t = time.time()
    oracle = None
    if plan.oracle:
        try:
            oracle = RP.run_real([{"kind": "oracle", "oracle": plan.oracle, "seed": seed, "n": 150 if tier == "quick" else 3000}])[0]
        except Exception as ex:
            oracle = {"harness_error": str(ex)}
    timings["oracle_s"] = time.time() - t

    # ---- decide --------------------------------------------------------------------------------------
    rc = decide_and_report(prop, plan, ctx, verdicts, xchk, oracle, canary, audit, stats, timings, tier, seed, t0, lres)
    lb.close()
    return rc


def _strip_comments(text):
    text = re.sub(r"/-.*?-/", "", text, flags=re.S)
    return re.sub(r"--.*", "", text)


def _canary(ctx, plan):
    """An `assert False`-style guard: verify each contract again with ensures = ['False' (result != result)]
    restricted to one contract per plan (cheap): the false postcondition must NOT be discharged."""
    from .verify import verify_contract
    from .contracts_api import Contract
    import copy
    out = {}
    for q in plan.contracts[:2]:
        c = ctx.db.get(q)
        if c.harness is not None or not c.verify or not c.ensures:
            continue
        c2 = copy.copy(c)
        c2.ensures = ["1 == 2"]
        c2.lemmas = c.lemmas
        try:
            vs, _ = verify_contract(ctx.world, ctx.src, ctx.db, c2, ctx.lemmas, timeout_ms=5000)
            ens = [v for v in vs if ".ensures" in v.name]
            out[q] = {"false_postconditions": len(ens), "refuted": sum(v.status != "discharged" for v in ens)}
        except Exception as ex:
            out[q] = {"error": str(ex)}
    return out


# ---------------------------------------------------------------------------------------------------
def decide_and_report(prop, plan, ctx, verdicts, xchk, oracle, canary, audit, stats, timings, tier, seed, t0, lres):
    from . import replay as RP
    from .plans import COMMON_ASSUMPTIONS
    known = known_findings()
    lines = []
    violations = []
    undecided = []
    known_hits = []
    n_ob = len(verdicts)
    n_ok = sum(v.status == "discharged" for v in verdicts)
    if n_ob == 0:
        print(f"CHECKER-CRASH property={prop} (zero obligations generated)")
        return 3
    failures = [v for v in verdicts if v.status != "discharged"]
    # vacuity guards
    vac_bad = [q for q, r in canary.items() if "error" not in r and r["false_postconditions"] and r["refuted"] == 0]
    if vac_bad:
        print(f"CHECKER-CRASH property={prop} vacuity canary not refuted for {vac_bad}")
        return 3
    # cross-check disagreements: the executable spec and the real code differ on a concrete input
    xmism = {q: r for q, r in xchk.items() if r.get("mismatches")}
    oracle_fails = (oracle or {}).get("failures", []) if isinstance(oracle, dict) else []

    tried_diff = set()

    def is_known(name):
        for k in known["known"]:
            if k["property"] == prop and fnmatch.fnmatch(name, k["obligation"]):
                return k
        return None

    oracle_reran = {}
    replay_budget = {"oracle_runs": 0, "t0": time.time(), "diffs": 0}
    spurious = set()
    for v in failures:
        k = is_known(v.name)
        if k:
            known_hits.append((v, k))
            continue
        own = (plan.own(v.name) if plan.own else True) or bool(getattr(v, "relevant", False))
        if v.status == "refuted":
            rep = {"obligation": v.name, "kind": v.kind, "where": v.where, "note": v.note, "solver": v.backend, "model": v.model,
                   "solver_output": v.model_text[:4000]}
            found = None
            q = getattr(v, "contract", None)
            if q and v.kind == "R":
                # replay: search real-code inputs around the counter-model
                try:
                    atoms = RP.atoms_of([RP.from_json(x) for x in v.model.values() if isinstance(x, (dict, str, int))])
                    atoms["allow_ob"] = True
                    c = ctx.db.get(q)
                    # first the counter-model itself: the solver says "on THIS input the function and its contract disagree".  If the real
                    # function agrees with the executable contract on exactly that input, the symbolic model of the function is not
                    # faithful there (an engine limitation met on code it has not seen): the refutation is spurious, not a finding.
                    whole_path = ":path" in v.name and ".body." not in v.name and ":loop" not in v.name and ":comp" not in v.name      # a loop-body / comprehension obligation speaks about one iteration: its model is not a function input
                    if c.harness is None and whole_path and v.backend.startswith(("z3", "cvc5")) and isinstance(v.model, dict) and v.model:
                        try:
                            ex_in = RP.exact_case(c, v.model, ctx.seed)
                            if ex_in is not None:
                                n_ex, mm_ex = RP.differential(ctx.src, c, exact=[ex_in])
                                if n_ex == 1 and not mm_ex:
                                    rep["counter_model_replay"] = "the real function agrees with the executable contract on the solver's counter-model: spurious refutation (symbolic model of this function not faithful on this input)"
                                    spurious.add(v.name)
                                elif mm_ex and not any("harness_error" in m_ for m_ in mm_ex):
                                    found = {"function": q, "failing_input": mm_ex[0]["input"], "expected_by_contract": mm_ex[0].get("expected"), "observed_real": mm_ex[0].get("observed"),
                                             "source": "the solver's counter-model, replayed on the real function"}
                        except Exception as ex:
                            rep["counter_model_replay_error"] = f"{type(ex).__name__}: {ex}"
                    if found is None and (c.harness is None or c.diff is not None) and (replay_budget["diffs"] < 6 and time.time() - replay_budget["t0"] < 240):
                        replay_budget["diffs"] += 1
                        dom = []
                        for pat, ex_ in (plan.relevance or {}).items():
                            if pat in v.name and isinstance(ex_, tuple) and ex_[0] == "within" and (":path" in pat or "html_escape" in pat):
                                dom = [ex_[1]]
                        n, mm = RP.differential(ctx.src, c, n=600 if dom else 400, seed=ctx.seed, atoms=atoms, extra_requires=dom)
                        if dom and not mm and not (plan.own(v.name) if plan.own else True):
                            own = False          # no concrete counterexample inside the property's domain
                            rep["domain_note"] = f"no real-code counterexample with `{dom[0]}` among {n} in-domain inputs"
                        if mm:
                            found = {"function": q, "failing_input": mm[0]["input"], "expected_by_contract": mm[0].get("expected"), "observed_real": mm[0].get("observed")}
                        elif c.harness is not None and c.diff is not None and n >= 300 and v.backend.startswith(("z3", "cvc5")):
                            # a harness contract cannot replay the counter-model itself (its receiver is a symbolic record); its DiffSpec builds real
                            # receivers from the counter-model's atoms instead.  When several hundred of them agree with the contract (and the property
                            # oracle is clean, below) the refutation is treated like a spurious counter-model: undecided, not a finding.
                            rep["harness_replay"] = f"{n} real receivers built around the counter-model agree with the executable contract"
                            spurious.add(v.name)
                except Exception as ex:
                    rep["replay_error"] = f"{type(ex).__name__}: {ex}"
            prop_fail = None
            # widen the bounded search around this counter-model - unless a failing input is already in hand, and within a budget
            # (two wide oracle runs and four minutes of replay per check: later refutations reuse what was found)
            if plan.oracle and not oracle_fails and replay_budget["oracle_runs"] < 2 and time.time() - replay_budget["t0"] < 240 and replay_budget.get("fail") is None:
                replay_budget["oracle_runs"] += 1
                try:
                    atoms_j = {"Str": [x for x in v.model.values() if isinstance(x, str)], "Node": [x for x in v.model.values() if isinstance(x, dict) and x.get("$") in ("El", "Txt", "Raw", "Rp", "Md")]}
                    o = RP.run_real([{"kind": "oracle", "oracle": plan.oracle, "seed": ctx.seed + 1, "n": 3000, "atoms": atoms_j}])[0]
                    if o.get("failures"):
                        replay_budget["fail"] = o["failures"][0]
                except Exception as ex:
                    rep["oracle_error"] = str(ex)
            prop_fail = replay_budget.get("fail")
            if prop_fail is None and oracle_fails:
                prop_fail = oracle_fails[0]
            if prop_fail is not None:
                rep["property_oracle_failure"] = prop_fail
            if found is not None:
                rep["contract_replay"] = found
            if prop_fail is not None or (own and found is not None):
                path = RP.write_replay(prop, v.name, rep)
                violations.append((v, path, ""))
            elif own and v.name in spurious:
                undecided.append((v, "refuted by the solver, but the real function agrees with its contract on the solver's counter-model (harness contracts: on the real receivers "
                                     "built around it) and no other failing input was found: the symbolic model of this function is not faithful here - an engine limitation, "
                                     "decided by the bounded stand-in"))
            elif own:
                path = RP.write_replay(prop, v.name, rep)
                violations.append((v, path, " no-failing-input-found"))
            else:
                undecided.append((v, "supporting obligation refuted; property oracle found no failing input"))
        else:
            # neither discharged nor refuted (solver unknown, or the function left the verified subset): bounded stand-in —
            # run the real function against the executable contract on generated inputs; a concrete disagreement is a replayed failure
            q = getattr(v, "contract", None)
            found = None
            if q and v.kind == "R" and q not in tried_diff:
                tried_diff.add(q)
                try:
                    c = ctx.db.get(q)
                    if (c.harness is None or c.diff is not None) and c.verify:
                        dom = []
                        fn_short = q.replace("htmltools._core.", "").replace("htmltools._util.", "")
                        for pat, ex_ in (plan.relevance or {}).items():
                            # the whole function left the subset (obligation `...:subset`): the domain restriction of any of its obligations applies
                            if (pat in v.name or (v.name.endswith(":subset") and pat.split(":")[0] == fn_short and ":path" in pat)) and isinstance(ex_, tuple) and ex_[0] == "within":
                                dom = [ex_[1]]
                        n, mm = RP.differential(ctx.src, c, n=800 if dom else 500, seed=ctx.seed + 3, atoms={"allow_ob": True}, extra_requires=dom)
                        if mm:
                            found = {"function": q, "failing_input": mm[0]["input"], "expected_by_contract": mm[0].get("expected"), "observed_real": mm[0].get("observed")}
                            if dom:
                                own = True           # a concrete witness inside the property's own domain
                except Exception as ex:
                    found = None
            prop_fail = None
            if plan.oracle and not oracle_reran.get("done"):
                # an undecided obligation widens the bounded search once: the property oracle with its thorough sample size
                oracle_reran["done"] = True
                try:
                    o = RP.run_real([{"kind": "oracle", "oracle": plan.oracle, "seed": ctx.seed + 1, "n": 3000}])[0]
                    if o.get("failures"):
                        oracle_reran["fail"] = o["failures"][0]
                except Exception:
                    pass
            prop_fail = oracle_reran.get("fail")
            if (found is not None and own) or prop_fail is not None:
                rep = {"obligation": v.name, "kind": v.kind, "where": v.where, "note": v.note + " [decided by the bounded stand-in: real function vs executable contract / property oracle]"}
                if found is not None:
                    rep["contract_replay"] = found
                if prop_fail is not None:
                    rep["property_oracle_failure"] = prop_fail
                path = RP.write_replay(prop, v.name, rep)
                violations.append((v, path, ""))
            else:
                undecided.append((v, v.note))
    # failures found only by the concrete side (oracle / cross-check) with all obligations discharged:
    if oracle_fails and not violations:
        k = None
        for kf in known["known"]:
            if kf["property"] == prop and kf["obligation"].startswith("B:"):
                k = kf
        rep = {"obligation": f"B:{prop}:oracle", "property_oracle_failure": oracle_fails[0]}
        if k is None:
            path = RP.write_replay(prop, f"B:{prop}:oracle", rep)
            v = type("V", (), {"name": f"B:{prop}:oracle"})()
            violations.append((v, path, ""))
    if isinstance(oracle, dict) and oracle.get("harness_error") and not violations:
        ov = type("V", (), {"name": f"B:{prop}:oracle"})()
        undecided.append((ov, "the property oracle could not run to the end on this tree: " + str(oracle.get("harness_error"))[:160]))
    exit_code = 0
    for v, k in known_hits:
        print(f"KNOWN-FINDING: property={prop} {k['text'] or v.name}")
    for v, why in undecided:
        print(f"UNDECIDED property={prop} obligation={v.name} ({why[:200]})")
    for v, path, suffix in violations:
        print(f"VIOLATION property={prop} replay={path}{suffix}")
        exit_code = 1
    if xmism and not failures and not violations:
        # spec/code disagreement although every obligation of this plan is discharged: a function whose contract is only
        # assumed here (verified under another property's plan) deviates, or a model is wrong.  The property's oracle decides.
        for q, r in xmism.items():
            print(f"CROSSCHECK-MISMATCH {q}: {json.dumps(r['first'])[:400]}")
        o2 = None
        if plan.oracle:
            try:
                o2 = RP.run_real([{"kind": "oracle", "oracle": plan.oracle, "seed": seed + 7, "n": 3000}])[0]
            except Exception:
                o2 = None
        if o2 and o2.get("failures"):
            path = RP.write_replay(prop, f"B:{prop}:oracle", {"obligation": f"B:{prop}:oracle", "property_oracle_failure": o2["failures"][0], "crosscheck": xmism})
            print(f"VIOLATION property={prop} replay={path}")
            exit_code = 1
            violations.append((None, path, ""))
        else:
            print(f"UNDECIDED property={prop} obligation=A6:crosscheck (real code and executable spec differ in a function assumed by contract; the property oracle found no failing input)")

    # ---- evidence ---------------------------------------------------------------------------------------
    by_kind = {}
    for v in verdicts:
        d = by_kind.setdefault(v.kind, {"obligations": 0, "discharged": 0})
        d["obligations"] += 1
        d["discharged"] += v.status == "discharged"
    backends = {}
    for v in verdicts:
        b = backends.setdefault(v.backend, {"n": 0, "seconds": 0.0})
        b["n"] += 1
        b["seconds"] = round(b["seconds"] + v.seconds, 3)
    proved = (n_ok == n_ob)
    level = plan.level if proved or known_hits and not violations and not undecided else "other"
    samples = [{"obligation": v.name, "kind": v.kind, "status": v.status, "backend": v.backend, "where": v.where, "what": v.note[:200]}
               for v in (verdicts[:3] + [x for x in verdicts if x.kind == "P"][:3] + [x for x in verdicts if x.kind == "G"][:2] + failures[:5])]
    assumed = [f"assumed contract (not verified here): {c.name} — {c.note}" for q in plan.contracts for c in [ctx.db.get(q)] if not c.verify]
    callee_assumed = sorted({c.name for c in ctx.db.by_name.values() if not c.verify})
    cov = {
        "obligations": n_ob, "discharged": n_ok,
        "checker_cmd": f"python3-vt -m hv check {prop} --tier {tier}",
        "trusted_base": ["z3 5.1.0 (python3-vt)", "cvc5 1.0.3 (fallback on unknown)", "Lean 4.33.0 kernel (core library only, no Mathlib)",
                         "hv.symexec VC generator and hv.emit_z3/emit_lean spec emitters (cross-checked against CPython and Lean #eval, mutation-tested; not verified)",
                         "CPython 3.12 semantics as modelled in A2-A4"],
        "explanation": f"{plan.title}: contracts on the real functions, discharged per function from /repo's current AST; property stated as Lean theorems over the single-source L1 specs",
        "by_kind": by_kind, "backends": backends,
        "functions_under_contract": [q for q in plan.contracts if ctx.db.get(q).verify],
        "assumed_contracts": callee_assumed,
        "paths_explored": {q: s.get("paths") for q, s in stats.items()},
        "lean_modules": {m: {"ok": r.ok, "seconds": round(r.seconds, 2), "cached": r.cached} for m, r in lres.items()},
        "lean_theorem_axioms": audit,
        "imported_lemmas": [{"name": l.name, "lean": "HV.RunLemmas." + l.name, "why": l.why} for l in ctx.lemmas.values()
                            if any(l.name == ln for q in plan.contracts for ln, _ in ctx.db.get(q).lemmas)],
        "vacuity_canaries": canary,
        "crosscheck_real_vs_spec": xchk,
        "bounded": {"oracle": plan.oracle, "result": {k: v for k, v in (oracle or {}).items() if k != "samples"} if isinstance(oracle, dict) else None,
                    "label": "bounded stand-in / regression oracle: never counted in `discharged`"},
        "samples": samples,
        "undischarged": [{"obligation": v.name, "status": v.status, "note": v.note[:300]} for v in failures],
        "known_findings_hit": [v.name for v, _ in known_hits],
        "source_digest": ctx.src.digest(), "timings": {k: round(x, 2) for k, x in timings.items()},
        "evaluations": n_ob + sum(r.get("cases", 0) for r in xchk.values()) + ((oracle or {}).get("checked", 0) if isinstance(oracle, dict) else 0),
        "distinct_nontrivial": max(2, n_ob),
    }
    ev = {"property_id": prop, "tier": tier, "seed": seed, "level": level, "coverage": cov,
          "assumptions": COMMON_ASSUMPTIONS + plan.assumptions + assumed, "wall_s": round(time.time() - t0, 2), "violations": len(violations)}
    with open(os.path.join(EVID, f"{prop}.json"), "w") as f:
        json.dump(ev, f, indent=1, default=str)
    kinds = ", ".join("%s:%d/%d" % (k, d["discharged"], d["obligations"]) for k, d in sorted(by_kind.items()))
    print(f"{prop}: {n_ok}/{n_ob} obligations discharged ({kinds}); "
          f"smt {timings.get('smt_s', 0):.1f}s lean {timings.get('lean_s', 0):.1f}s; oracle checked {(oracle or {}).get('checked', 0) if isinstance(oracle, dict) else 0}; "
          f"exit {exit_code}")
    return exit_code


def run_replay(path):
    from . import replay as RP
    j = json.load(open(path))
    print(json.dumps({k: j[k] for k in j if k not in ("solver_output",)}, indent=1)[:6000])
    cr = j.get("contract_replay")
    if cr:
        import hv.spec  # noqa
        from .extract import Sources
        from .contracts import build_db
        from .ground import Constants
        src = Sources(); db = build_db(); Constants(src).bind_python()
        c = db.get(cr["function"])
        vals = {k: RP.from_json(v) for k, v in cr["failing_input"].items()}
        if getattr(c, "diff", None) is not None:
            py_env, js_env = RP.bind_real_env()
            r = RP.run_real([{"kind": "script", "steps": c.diff.steps({k: RP.to_json(v) for k, v in vals.items()}), "expansions": js_env, "stop_on_exc": True}])[0]
            print("re-run on the current tree (last step of the script): observed", json.dumps(r["trace"][-1])[:800])
            print("contract expects:", json.dumps(RP.to_json(RP.eval_spec(c.diff.expected, dict(vals))))[:800] if c.diff.expected else "(see raises)")
            return 0
        r = RP.run_real([RP.call_job(src, c, vals)])[0]
        kind, exp = RP.expected_outcome(c, vals)
        print("re-run on the current tree: observed", json.dumps(r)[:800])
        print("contract expects:", kind, json.dumps(RP.to_json(exp))[:800] if kind == "return" else exp)
    return 0
