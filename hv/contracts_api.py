"""Sidecar contracts keyed by qualified function name (DESIGN §4.1).

A contract states, in the L1 expression language over the declared parameter sorts:
  requires  : list of Bool expressions (checked at every call site inside verified code)
  raises    : list of (ExceptionName, Bool expression): the call raises exactly when the expression
              holds (first matching clause wins)
  ensures   : list of Bool expressions over the parameters and `result` (normal return)
  loops     : per loop ordinal (source order inside the function) a loop rule instance
  comps     : per comprehension ordinal a comprehension rule instance
  modifies  : parameter names the function may mutate (frame); everything else is read-only
  fresh     : the result is a newly allocated object (ghost freshness for C08)
"""
from __future__ import annotations
import ast
from dataclasses import dataclass, field
from typing import Optional


@dataclass
class Fold:
    """`for x in xs: BODY` == left fold: state after the loop = fn(xs, state-before, params...)"""
    fn: str                       # recursive L1 fold function (shape-checked)
    over: str                     # source text of the iterable expression (checked against the AST)
    elem: object                  # loop target: "child" or ("key", "val")
    state: dict                   # code variable -> L1 expression over the fold fn's accumulator `acc`
    acc: str                      # L1 expression building the accumulator from code variables
    args: dict = field(default_factory=dict)   # other fold-fn parameter name -> L1 expression over code vars
    callee_raises: Optional[str] = None        # L1 Bool expr over elem vars: the body raises iff this holds
    raises: Optional[str] = None               # exception name raised by the body in that case
    raises_fold: Optional[str] = None          # L1 Bool expr over the list: the loop raises iff ...
    state_sorts: dict = field(default_factory=dict)   # state variable -> L1 sort (for variables initialised with an empty literal)


@dataclass
class DiffSpec:
    """how to run a harness contract's function on generated spec values and what the contract expects"""
    params: list                      # [(name, sort)] generated inputs
    steps: object                     # callable(json values) -> realrun script steps; the LAST step's value is the result
    expected: Optional[str] = None    # L1 expression over the params: the expected result
    raises: list = field(default_factory=list)   # [(exception name, L1 Bool over the params)]
    ret_sort: str = "Node"
    gen: Optional[object] = None      # callable(Gen) -> {name: spec value} (targeted generation), else per-sort generation
    requires: list = field(default_factory=list)


@dataclass
class InPlaceMap:
    """`for i, x in enumerate(r): r[i] = g(x)` (the only write is at index i) == r := fn(r), fn = map of `step`"""
    fn: str                       # L1 map function over the list sort (checked: fn(cons(c, r)) == cons(step, fn(r)))
    list_var: str
    step: str                     # L1 expression over `c` for the new element
    elem_raises: Optional[str] = None   # L1 Bool over `c`: the body raises iff this holds
    raises: Optional[str] = None
    raises_fold: Optional[str] = None   # L1 Bool over `xs`
    elem_inv: Optional[str] = None      # L1 Bool over `c` assumed for every element ...
    list_inv: Optional[str] = None      # ... justified by this L1 Bool over `xs` (obligation at loop entry; checked to be `all elem_inv`)


@dataclass
class BackwardSplice:
    """`for i in reversed(range(len(xs))): ... xs[i] = e | xs[i:i+1] = es` (only writes at i, only read xs[i])
    == xs := fn(xs), fn = flatMap of `repl` (soundness: Lean theorem spliceLoop_all)"""
    fn: str                       # L1 function over the list sort with fn(cons(c, r)) == append(repl(c), fn(r))
    list_var: str
    repl: str                     # L1 expression over `c` (a list): what replaces element c
    fresh_when: Optional[str] = None   # L1 Bool over `c`: for these elements every written object must be newly allocated (C08)


@dataclass
class Unroll:
    """loop over a constant of the current source: unrolled completely (exhaustive, not bounded)"""
    pass


@dataclass
class Filter:
    """[x for x in xs if p(x)] == fn(xs) where fn is a shape-checked filter with keep-predicate `keep`"""
    fn: str
    keep: str                     # L1 Bool expression over `x`
    args: dict = field(default_factory=dict)   # extra parameters of fn -> L1 expression over code variables


@dataclass
class MapComp:
    """[f(x) for x in xs] over a symbolic list == fn(xs, args...), fn = map of `elem` (checked: fn(cons(c, r)) == cons(elem, fn(r)))"""
    fn: str = ""
    elem: str = ""                # L1 expression over `c` (and code variables) for one element of the result
    args: dict = field(default_factory=dict)


@dataclass
class FindFirst:
    """`for i, x in enumerate(xs): if P(x): var = i; break`: var is the index of the first element satisfying `pred`
    (None when there is none).  The engine keeps the index symbolic and reads/writes `xs[var]` through first/replace functions."""
    pred: str                     # L1 Bool over `c`
    var: str
    has: str                      # L1 Bool function name over the list: some element satisfies pred
    first: str                    # L1 function name: the first such element
    replace: str                  # L1 function name (list, value): the list with the first such element replaced
    first_sat_lemma: str = ""     # imported Lean lemma `has(l) -> pred(first(l))`, instantiated when the element is read


@dataclass
class Contract:
    name: str
    params: list                              # [(pname, sort)]; sort 'Any' = engine value passed through
    returns: str = "None"
    requires: list = field(default_factory=list)
    raises: list = field(default_factory=list)
    ensures: list = field(default_factory=list)
    loops: dict = field(default_factory=dict)
    comps: dict = field(default_factory=dict)
    modifies: list = field(default_factory=list)
    fresh: bool = False
    self_class: Optional[str] = None          # python class of `self` ("Tag", "TagList", ...)
    verify: bool = True                       # False: assumed contract (external / A5), listed as such
    note: str = ""
    props: list = field(default_factory=list) # properties this contract serves
    harness: Optional[object] = None          # optional callable(interp) -> custom verification
    diff: Optional[object] = None             # harness contracts: DiffSpec for the differential replay (real code vs executable spec)
    pure: bool = False                        # harness contracts: add the F:<fn>:reads-only obligation (no write outside the activation)
    inline: bool = False                      # callers execute the body instead of using the contract
    lemmas: list = field(default_factory=list)  # [(lemma name, {lemma var: contract param})] imported Lean theorems
    post: dict = field(default_factory=dict)    # modified parameter -> L1 expression for its state at normal return
    unchanged_on_raise: list = field(default_factory=list)   # modified parameters that must be unchanged when the call raises
    no_differential: bool = False
    inherited_from: Optional[str] = None        # if the class does not define the method in /repo, the body verified is this (stdlib source)

    def body_name(self, src):
        if self.inherited_from and not src.has(self.name):
            return self.inherited_from
        return self.name

    def sort_of(self, p):
        for n, s in self.params:
            if n == p:
                return s
        raise KeyError(p)


class ContractDB:
    def __init__(self):
        self.by_name: dict[str, Contract] = {}
        self.const_preds: dict[str, str] = {}     # module constant name -> L1 predicate (isVoid, noEsc)
        self.method_table: dict[tuple, str] = {}  # (python class, method) -> qualname

    def add(self, c: Contract):
        assert c.name not in self.by_name, c.name
        self.by_name[c.name] = c
        return c

    def has(self, q):
        return q in self.by_name

    def get(self, q) -> Contract:
        return self.by_name[q]

    def const_pred(self, cname):
        return self.const_preds.get(cname)

    def method(self, cls, meth):
        return self.method_table.get((cls, meth))

    def serving(self, prop):
        return [c for c in self.by_name.values() if prop in c.props]


def parse_expr(src: str) -> ast.expr:
    return ast.parse(src, mode="eval").body
