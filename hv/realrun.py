"""Runs the REAL code of the working tree on concrete inputs (replay of counter-models, CPython
cross-check of the specs, executable property oracles).  Executed by /venv/bin/python (the baseline
interpreter) as a separate process:  python realrun.py <repo> < jobs.json > results.json
Stand-alone: imports nothing from hv (no z3 in that interpreter)."""
import sys, json, copy, traceback, io, os


def main():
    repo = sys.argv[1]
    sys.path.insert(0, repo)
    os.environ.setdefault("PYTHONHASHSEED", "0")
    import htmltools  # noqa: F401
    R = Real()
    jobs = json.load(sys.stdin)
    # the result channel is the ORIGINAL stdout; whatever the code under test prints (e.g. through sys.__displayhook__) goes to stderr
    channel = os.fdopen(os.dup(1), "w")
    os.dup2(2, 1)
    sys.stdout = sys.__stdout__ = sys.stderr
    out = []
    for job in jobs:
        try:
            out.append(R.run(job))
        except Exception as ex:  # harness failure (not the code under test)
            out.append({"harness_error": f"{type(ex).__name__}: {ex}", "tb": traceback.format_exc()[-1500:]})
    json.dump(out, channel)
    channel.flush()


class Real:
    def __init__(self):
        import htmltools
        from htmltools import _core, _util
        self.h = htmltools
        self.core = _core
        self.util = _util
        core = _core
        self.expansions = {}
        R = self

        class ReprObj:
            def __init__(self, s, oid):
                self.s, self.oid = s, oid

            def _repr_html_(self):
                return self.s

            def __eq__(self, o):
                return type(o) is type(self) and o.__dict__ == self.__dict__

        class ReprTagObj(ReprObj):
            def tagify(self):
                return R.dec(R.expansions[str(self.oid)])

        class TagifyObj:
            def __init__(self, oid):
                self.oid = oid

            def tagify(self):
                return R.dec(R.expansions[str(self.oid)])

            def __eq__(self, o):
                return type(o) is type(self) and o.oid == self.oid

        class Meta(core.MetadataNode):
            def __init__(self, name, ver, uid):
                self.name, self.ver, self.uid = name, ver, uid

            def __eq__(self, o):
                return type(o) is type(self) and o.__dict__ == self.__dict__

        class Junk:
            "an object that is not a valid tag child"
            def __init__(self, uid):
                self.uid = uid

            def __eq__(self, o):
                return type(o) is type(self) and o.uid == self.uid
        class StrObj:
            "an arbitrary object that is neither str nor HTML; str(obj) is s"
            def __init__(self, s):
                self.s = s

            def __str__(self):
                return self.s
        self.StrObj = StrObj
        self.ReprObj, self.ReprTagObj, self.TagifyObj, self.Meta, self.Junk = ReprObj, ReprTagObj, TagifyObj, Meta, Junk

    # ---- decoding JSON spec values into real objects -------------------------------------------
    def dec(self, j):
        core = self.core
        if isinstance(j, list):
            return [self.dec(x) for x in j]
        if not isinstance(j, dict) or "$" not in j:
            return j
        k = j["$"]
        if k == "Txt":
            return j["s"]
        if k == "Raw":
            return core.HTML(j["s"])
        if k == "Rp":
            has_t = str(j["oid"]) in self.expansions
            return (self.ReprTagObj if has_t else self.ReprObj)(j["s"], j["oid"])
        if k == "Ob":
            return self.TagifyObj(j["oid"])
        if k == "Md":
            d = j["d"]
            if d["isdep"]:
                return core.HTMLDependency(d["name"], self.version(d["ver"]), head=core.TagList(core.HTML(f"<!--{d['uid']}-->")) if d["uid"] else None)
            return self.Meta(d["name"], d["ver"], d["uid"])
        if k == "El":
            t = core.Tag.__new__(core.Tag)
            t.name = j["name"]
            t.add_ws = j["ws"]
            t.attrs = core.TagAttrDict()
            for kk, vv in self.unlist(j["attrs"]):
                dict.__setitem__(t.attrs, kk, self.dec(vv))
            t.children = self.dec(j["kids"])
            t.prev_displayhook = None
            return t
        if k in ("NNil", "NCons"):
            tl = core.TagList()
            tl.data = [self.dec(x) for x in self.unlist(j)]
            return tl
        if k in ("ANil", "ACons"):
            d = core.TagAttrDict()
            for kk, vv in self.unlist(j):
                dict.__setitem__(d, kk, self.dec(vv))
            return d
        if k == "Plain":
            return j["s"]
        if k == "RawV":
            return core.HTML(j["s"])
        if k == "CNone":
            return None
        if k == "CInt":
            return j["n"]
        if k == "CFloat":
            return float(j["fid"]) + 0.5
        if k == "CBoolC":
            return j["b"]
        if k == "CNode":
            return self.dec(j["node"])
        if k == "CBad":
            return self.Junk(j["oid"])
        if k == "CSeq":
            items = [self.dec(x) for x in self.unlist(j["items"])]
            kind = j["kind"] % 3
            if kind == 0:
                return items
            if kind == 1:
                return tuple(items)
            tl = core.TagList()
            tl.data = items       # a TagList argument holds nodes only in reachable states; the generator respects that
            return tl
        if k in ("CNil", "CCons"):
            return [self.dec(x) for x in self.unlist(j)]
        if k == "Dep":
            return self.dec({"$": "Md", "d": j})
        if k in ("DLNil", "DLCons"):
            return [self.dec(x) for x in self.unlist(j)]
        if k == "APlain":
            return j["s"]
        if k == "AHtml":
            return core.HTML(j["s"])
        if k == "AObj":
            return self.StrObj(j["s"])
        if k == "VNone":
            return None
        if k == "VBool":
            return j["b"]
        if k == "VStr":
            return j["s"]
        if k == "VHtml":
            return core.HTML(j["s"])
        if k == "VInt":
            return j["n"]
        if k == "VFloat":
            return float(j["fid"]) + 0.5
        if k == "VOther":
            return self.Junk(j["oid"])
        if k in ("DNil", "DCons"):
            d = {}
            while j["$"] != "DNil":
                d[j["k"]] = self.dec(j["v"]); j = j["tl"]
            return d
        if k in ("DDNil", "DDCons", "SNil", "SCons", "TNil", "TCons"):
            return [self.dec(x) for x in self.unlist(j)]
        if k == "TDict":
            return self.dec(j["d"])
        if k == "TChild":
            return self.dec(j["c"])
        if k == "NoAV" or k == "NoStr":
            return None
        if k == "SomeAV":
            return self.dec(j["v"])
        if k == "SomeStr":
            return j["s"]
        if k in ("CssNone",):
            return None
        if k == "CssStr":
            return j["s"]
        if k == "CssInt":
            return j["n"]
        if k == "CssFloat":
            return float(j["fid"]) + 0.5
        if k == "CssBool":
            return j["b"]
        if k == "CssList":
            return [self.dec(x) for x in self.unlist(j["items"])]
        if k in ("KNil", "KCons"):
            d = {}
            while j["$"] != "KNil":
                d[j["k"]] = self.dec(j["v"]); j = j["tl"]
            return d
        if k == "pylist":
            return [self.dec(x) for x in j["items"]]
        if k == "pytuple":
            return tuple(self.dec(x) for x in j["items"])
        if k == "pydict":
            return {kk: self.dec(vv) for kk, vv in j["items"]}
        if k == "none":
            return None
        if k == "float":
            return float(j["v"])
        if k == "junk":
            return self.Junk(j["uid"])
        if k == "taglist":
            tl = core.TagList()
            tl.data = [self.dec(x) for x in j["items"]]
            return tl
        raise ValueError(f"cannot decode {k}")

    def version(self, n):
        # the Int image of the Version order: n -> "0.n" for n >= 0 (monotone), negative -> "0.0.devN"
        return f"0.{n}" if n >= 0 else f"0.0.dev{1000000 + n}"

    def unlist(self, j):
        out = []
        while j["$"] not in ("NNil", "ANil", "SNil", "CNil", "DNil", "DDNil", "TNil", "KNil", "DLNil"):
            if j["$"] == "ACons":
                out.append((j["k"], j["v"]))
            else:
                out.append(j["hd"])
            j = j["tl"]
        return out

    # ---- encoding real objects back --------------------------------------------------------------
    def enc(self, v):
        core = self.core
        if v is None or isinstance(v, (bool, int, str)):
            return v if not isinstance(v, float) else {"$": "float", "v": repr(v)}
        if isinstance(v, float):
            return {"$": "float", "v": repr(v)}
        if isinstance(v, core.HTML):
            return {"$": "Raw", "s": v.data}
        if isinstance(v, core.Tag):
            return {"$": "El", "name": v.name, "ws": v.add_ws, "attrs": self.enc_attrs(v.attrs), "kids": self.enc_nodes(v.children)}
        if isinstance(v, core.TagList):
            return self.enc_nodes(v)
        if isinstance(v, core.HTMLDependency):
            return {"$": "Md", "d": {"$": "Dep", "isdep": True, "name": v.name, "ver": self.unversion(v.version), "uid": self.dep_uid(v)}}
        if isinstance(v, self.Meta):
            return {"$": "Md", "d": {"$": "Dep", "isdep": False, "name": v.name, "ver": v.ver, "uid": v.uid}}
        if isinstance(v, self.ReprObj):
            return {"$": "Rp", "s": v.s, "oid": v.oid}
        if isinstance(v, self.TagifyObj):
            return {"$": "Ob", "oid": v.oid}
        if isinstance(v, self.Junk):
            return {"$": "junk", "uid": v.uid}
        if isinstance(v, dict):
            return {"$": "pydict", "items": [[k, self.enc(x)] for k, x in v.items()]}
        if isinstance(v, list):
            return {"$": "pylist", "items": [self.enc(x) for x in v]}
        if isinstance(v, tuple):
            return {"$": "pytuple", "items": [self.enc(x) for x in v]}
        return {"$": "opaque", "repr": repr(v)[:200], "type": type(v).__name__}

    def enc_sort(self, v, sort):
        """encode a real value as the JSON form of an L1 value of the given sort"""
        core = self.core
        def cons(items, nil, c):
            r = {"$": nil}
            for x in reversed(items):
                r = dict({"$": c}, **x, tl=r)
            return r
        if sort in ("Str", "Int", "Nat", "Bool", "Any", "None", None):
            return self.enc(v)
        if sort == "Node":
            return {"$": "Txt", "s": v} if isinstance(v, str) and not isinstance(v, core.HTML) else self.enc(v)
        if sort == "NodeList":
            items = list(v.data) if hasattr(v, "data") else list(v)
            return cons([{"hd": self.enc_sort(x, "Node")} for x in items], "NNil", "NCons")
        if sort == "AttrVal":
            return {"$": "RawV", "s": v.data} if isinstance(v, core.HTML) else {"$": "Plain", "s": v} if isinstance(v, str) else self.enc(v)
        if sort == "OptAV":
            return {"$": "NoAV"} if v is None else {"$": "SomeAV", "v": self.enc_sort(v, "AttrVal")}
        if sort == "OptStr":
            return {"$": "NoStr"} if v is None else {"$": "SomeStr", "s": v}
        if sort == "AttrList":
            return cons([{"k": k, "v": self.enc_sort(x, "AttrVal")} for k, x in v.items()], "ANil", "ACons")
        if sort == "StrList":
            return cons([{"hd": x} for x in v], "SNil", "SCons")
        if sort == "Dep":
            return self.enc(v)["d"]
        if sort == "DepList":
            return cons([{"hd": self.enc_sort(x, "Dep")} for x in v], "DLNil", "DLCons")
        if sort == "Rendered":
            return {"$": "Rendered", "deps": self.enc_sort(v["dependencies"], "DepList"), "html": v["html"]}
        if sort == "TgRes":
            return {"$": "TgList", "items": self.enc_sort(v, "NodeList")} if isinstance(v, core.TagList) else {"$": "TgNode", "node": self.enc_sort(v, "Node")}
        if sort == "Child":
            if v is None:
                return {"$": "CNone"}
            if isinstance(v, bool):
                return {"$": "CBoolC", "b": v}
            if isinstance(v, int):
                return {"$": "CInt", "n": v}
            if isinstance(v, float):
                return {"$": "CFloat", "fid": int(v - 0.5)}
            if isinstance(v, self.Junk):
                return {"$": "CBad", "oid": v.uid}
            if isinstance(v, (list, tuple, core.TagList)):
                kind = 0 if isinstance(v, list) else 1 if isinstance(v, tuple) else 2
                return {"$": "CSeq", "kind": kind, "items": self.enc_sort(list(v), "ChildList")}
            return {"$": "CNode", "node": self.enc_sort(v, "Node")}
        if sort == "ChildList":
            return cons([{"hd": self.enc_sort(x, "Child")} for x in v], "CNil", "CCons")
        return self.enc(v)

    def dep_uid(self, d):
        try:
            if d.head is None:
                return 0
            s = d.head.get_html_string()
            if s.startswith("<!--") and s.endswith("-->"):
                return int(s[4:-3])
        except Exception:
            pass
        return -1

    def unversion(self, v):
        s = str(v)
        if s.startswith("0.0.dev"):
            return int(s[7:]) - 1000000
        if s.startswith("0."):
            try:
                return int(s[2:])
            except ValueError:
                return -999
        return -999

    def enc_nodes(self, tl):
        r = {"$": "NNil"}
        for x in reversed(list(tl.data if hasattr(tl, "data") else tl)):
            r = {"$": "NCons", "hd": self.enc_sort(x, "Node"), "tl": r}
        return r

    def enc_attrs(self, d):
        r = {"$": "ANil"}
        for k, v in reversed(list(d.items())):
            vv = {"$": "RawV", "s": v.data} if isinstance(v, self.core.HTML) else {"$": "Plain", "s": v} if isinstance(v, str) else self.enc(v)
            r = {"$": "ACons", "k": k, "v": vv, "tl": r}
        return r

    # ---- jobs ------------------------------------------------------------------------------------
    def resolve(self, q):
        import importlib
        parts = q.split(".")
        for i in range(len(parts), 0, -1):
            try:
                obj = importlib.import_module(".".join(parts[:i]))
            except ImportError:
                continue
            for p in parts[i:]:
                obj = getattr(obj, p)
            return obj
        raise ImportError(q)

    def run(self, job):
        self.expansions = job.get("expansions", {})
        kind = job.get("kind", "call")
        if kind == "call":
            fn = self.resolve(job["fn"])
            args = [self.dec(a) for a in job.get("args", [])]
            kwargs = {k: self.dec(v) for k, v in job.get("kwargs", {}).items()}
            sorts = job.get("arg_sorts") or [None] * len(args)
            snap_args = list(args)
            if job.get("star") is not None:           # spread the *args parameter
                i = job["star"]
                args = args[:i] + list(args[i]) + args[i + 1:]
            if job.get("starkw") is not None:
                kwargs.update(self.dec(job["starkw"]))
            snap = [self.enc_sort(a, s) for a, s in zip(snap_args, sorts)] if job.get("snapshot") else None
            try:
                r = fn(*args, **kwargs)
                res = {"ok": self.enc_sort(r, job.get("ret_sort"))}
            except RecursionError:
                res = {"exc": "RecursionError"}
            except Exception as ex:
                res = {"exc": type(ex).__name__, "msg": str(ex)[:300]}
            if job.get("snapshot"):
                res["args_after"] = [self.enc_sort(a, s) for a, s in zip(snap_args, sorts)]
                res["args_before"] = snap
            return res
        if kind == "script":
            # a tiny interpreter for operation sequences: list of steps
            #   {"let": name, "call": q | "method": [name, meth], "args": [...]}   (args may reference {"$":"var","name":...})
            env = {}
            trace = []
            for st in job["steps"]:
                def val(a):
                    if isinstance(a, dict) and a.get("$") == "var":
                        return env[a["name"]]
                    if isinstance(a, dict) and a.get("$") == "pylist":
                        return [val(x) for x in a["items"]]
                    if isinstance(a, dict) and a.get("$") == "pytuple":
                        return tuple(val(x) for x in a["items"])
                    return self.dec(a)
                args = [val(a) for a in st.get("args", [])]
                if st.get("star") is not None:                      # spread a spec list (NodeList ...) as positional arguments
                    args = args + list(val(st["star"]))
                kwargs = {k: val(v) for k, v in st.get("kwargs", {}).items()}
                if st.get("starkw") is not None:
                    kwargs.update(val(st["starkw"]))
                try:
                    if "call" in st:
                        r = self.resolve(st["call"])(*args, **kwargs)
                    elif "method" in st:
                        r = getattr(env[st["method"][0]], st["method"][1])(*args, **kwargs)
                    elif "op" in st:
                        r = self.op(st["op"], env, args)
                    else:
                        raise ValueError("bad step")
                    if "let" in st:
                        env[st["let"]] = r
                    trace.append({"ok": self.enc(r), "env": {k: self.enc(v) for k, v in env.items()} if st.get("dump") else None})
                except Exception as ex:
                    trace.append({"exc": type(ex).__name__, "msg": str(ex)[:200], "env": {k: self.enc(v) for k, v in env.items()} if st.get("dump") else None})
                    if job.get("stop_on_exc"):
                        break
            return {"trace": trace}
        if kind == "oracle":
            import importlib.util
            odir = os.path.join(os.path.dirname(os.path.abspath(__file__)), "oracles")
            if odir not in sys.path:
                sys.path.insert(0, odir)
            path = os.path.join(odir, job["oracle"] + ".py")
            spec = importlib.util.spec_from_file_location("hv_oracle_" + job["oracle"], path)
            mod = importlib.util.module_from_spec(spec)
            spec.loader.exec_module(mod)
            try:
                return mod.run(self, job)
            except Exception as ex:
                # An oracle guards (try/except) every library call where the statement allows an exception.  An exception that
                # escapes from an unguarded call and was raised inside the library under test (directly, or in a stdlib function it
                # called) is therefore an observation about the library - "raises where the property says it works" - not a
                # harness failure.  An exception raised by the oracle's own code stays a harness error (UNDECIDED).
                libdir = os.path.dirname(os.path.abspath(self.h.__file__)) + os.sep
                frames = traceback.extract_tb(ex.__traceback__)
                site = [f for f in frames if os.path.abspath(f.filename).startswith(os.path.abspath(odir) + os.sep)]
                owner = None
                for f in reversed(frames):
                    fn = os.path.abspath(f.filename)
                    if fn.startswith(libdir):
                        owner = ("lib", f)
                        break
                    if fn.startswith(os.path.abspath(odir) + os.sep) or fn == os.path.abspath(__file__):
                        owner = ("oracle", f)
                        break
                if owner and owner[0] == "lib" and site:
                    at, lf = site[-1], owner[1]
                    return {"checked": 0, "nontrivial": 0, "escaped_exception": True, "failures": [{
                        "input": f"oracle {job['oracle']} (seed {job.get('seed', 0)}, n {job.get('n')}): unguarded library call at {os.path.basename(at.filename)}:{at.lineno} `{(at.line or '').strip()[:160]}`",
                        "observed": f"raised {type(ex).__name__}: {str(ex)[:200]} (at {os.path.relpath(lf.filename, os.path.dirname(libdir.rstrip(os.sep)))}:{lf.lineno} in {lf.name})",
                        "expected": "no exception: the oracle wraps every call for which the statement allows one"}]}
                raise
        raise ValueError(kind)

    def op(self, name, env, args):
        import operator
        if name == "add":
            return args[0] + args[1]
        if name == "iadd":
            x = args[0]
            x += args[1]
            return x
        if name == "mul":
            return args[0] * args[1]
        if name == "imul":
            x = args[0]
            x *= args[1]
            return x
        if name == "getitem":
            return args[0][args[1]]
        if name == "slice":
            return args[0][args[1]:args[2]]
        if name == "eq":
            return args[0] == args[1]
        if name == "copy":
            return copy.copy(args[0])
        if name == "str":
            return str(args[0])
        if name == "id":
            return args[0]
        raise ValueError(name)


if __name__ == "__main__":
    main()
