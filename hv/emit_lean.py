"""Lean 4 emission of the L1 specs (ADTs -> inductives/structures, spec functions -> defs, abstract
parameters -> fields of `Cfg`, prims -> references into HV/Prim.lean)."""
from __future__ import annotations
import ast
from .speclang import REG, SpecFn, Ctor, BASE_SORTS
from .speceval import Evaluator, Val, SpecError, num

LEAN_SORT = {"Str": "Str", "Int": "Int", "Nat": "Nat", "Bool": "Bool"}


def lean_str(s: str) -> str:
    return "([" + ", ".join(str(ord(c)) for c in s) + "] : Str)"


class LeanEmitter(Evaluator):
    def __init__(self, reg=REG):
        super().__init__(reg)
        self._fresh = 0
        self.indent = 0
        self.cfg_name = "cfg"
        self.env_name = "env"

    # ---- naming ----
    def is_record(self, aname):
        a = self.reg.adts[aname]
        return len(a.ctors) == 1 and len(a.group) == 1 and all(s != aname for _, s in a.ctors[0].fields)

    def sort(self, s):
        return LEAN_SORT.get(s, s)

    def ctor_name(self, c: Ctor):
        return f"{c.adt.name}.mk" if self.is_record(c.adt.name) else f"{c.adt.name}.{c.name}"

    # ---- declarations ----
    def emit_adts(self):
        out, done = [], set()
        for aname, a in self.reg.adts.items():
            if aname in done:
                continue
            if self.is_record(aname):
                c = a.ctors[0]
                out.append(f"structure {aname} where")
                for f, s in c.fields:
                    out.append(f"  {f} : {self.sort(s)}")
                out.append("  deriving Repr, DecidableEq\n")
                done.add(aname)
                continue
            group = a.group
            if len(group) > 1:
                out.append("mutual")
            for g in group:
                out.append(f"inductive {g} where")
                for c in self.reg.adts[g].ctors:
                    sig = " → ".join([self.sort(s) for _, s in c.fields] + [g])
                    out.append(f"  | {c.name} : {sig}")
                out.append("  deriving Repr, DecidableEq")
                done.add(g)
            if len(group) > 1:
                out.append("end")
            out.append("")
        return "\n".join(out)

    GROUPS = (("cfg", "Cfg"), ("env", "Env"))

    def emit_cfg(self):
        out = []
        for g, sname in self.GROUPS:
            abst = [f for f in self.reg.fns.values() if f.kind == "abstract" and f.group == g]
            if not abst:
                continue
            out.append(f"structure {sname} where")
            for f in abst:
                sig = " → ".join([self.sort(s) for _, s in f.params] + [self.sort(f.ret)])
                out.append(f"  {f.name} : {sig}")
            out.append("")
        return "\n".join(out) + "\n"

    def group_binders(self, name):
        return "".join(f"({g} : {sname}) " for g, sname in self.GROUPS if self.reg.uses_cfg(name, g))

    def group_args(self, name):
        return "".join(f" {self.cfg_name if g == 'cfg' else self.env_name}" for g, sname in self.GROUPS if self.reg.uses_cfg(name, g))

    def emit_fn(self, f: SpecFn):
        self.indent = 1
        params = " ".join(f"({p} : {self.sort(s)})" for p, s in f.params)
        cfg = self.group_binders(f.name)
        env = {p: Val(s, p) for p, s in f.params}
        body = self.eval_block(list(f.node.body), env, f)
        doc = f"/-- {f.doc.strip()} -/\n" if f.doc.strip() else ""
        return f"{doc}def {f.name} {cfg}{params} : {self.sort(f.ret)} :=\n{self.pad()}{body.v}\n"

    def emit_sorts(self):
        return "import HV.Prim\n/- GENERATED (hv.emit_lean): the algebraic sorts of the L1 specs -/\nnamespace HV\n\n" + self.emit_adts() + "\nend HV\n"

    def emit_all(self, header="import HV.PrimL\nset_option linter.unusedVariables false\nnamespace HV\n", footer="end HV\n"):
        parts = [header, self.emit_cfg()]
        for comp in self.reg.sccs():
            if len(comp) > 1:
                parts.append("mutual")
            for n in comp:
                parts.append(self.emit_fn(self.reg.fns[n]))
            if len(comp) > 1:
                parts.append("end\n")
        parts.append(footer)
        return "\n".join(parts)

    def pad(self):
        return "  " * self.indent

    # ---- back end ----
    def b_bool(self, b):
        return Val("Bool", "true" if b else "false")

    def b_int(self, n, sort):
        return Val(sort, f"({n} : {sort})")

    def b_str(self, s):
        return Val("Str", lean_str(s))

    def b_and(self, vs):
        return Val("Bool", "(" + " && ".join(v.v for v in vs) + ")")

    def b_or(self, vs):
        return Val("Bool", "(" + " || ".join(v.v for v in vs) + ")")

    def b_not(self, v):
        return Val("Bool", f"(!{v.v})")

    def b_concat(self, a, b):
        return Val("Str", f"({a.v} ++ {b.v})")

    def b_add(self, a, b):
        return Val("Int" if "Int" in (a.sort, b.sort) else "Nat", f"({a.v} + {b.v})")

    def b_sub(self, a, b):
        if a.sort == "Nat" or b.sort == "Nat":
            raise SpecError("subtraction on Nat is not in the subset")
        return Val("Int", f"({a.v} - {b.v})")

    def b_eq(self, a, b):
        return Val("Bool", f"({a.v} == {b.v})")

    def b_cmp(self, op, a, b):
        return Val("Bool", f"(decide ({a.v} {'≤' if op == '<=' else '≥' if op == '>=' else op} {b.v}))")

    def b_ite(self, c, a, b, want):
        self.indent += 1
        x = a()
        y = b()
        self.indent -= 1
        if x.sort != y.sort and not (num(x.sort) and num(y.sort)):
            raise SpecError(f"branches have sorts {x.sort} / {y.sort}")
        p = self.pad()
        return Val(x.sort, f"(if {c.v} then\n{p}  {x.v}\n{p}else\n{p}  {y.v})")

    def b_let(self, name, v, body):
        r = body(Val(v.sort, name))
        return Val(r.sort, f"let {name} : {self.sort(v.sort)} := {v.v}\n{self.pad()}{r.v}")

    def b_field(self, v, c, f, s):
        return Val(s, f"({v.v}).{f}" if not str(v.v).isidentifier() else f"{v.v}.{f}")

    def b_ctor(self, c, args):
        if not args:
            return Val(c.adt.name, self.ctor_name(c))
        return Val(c.adt.name, "(" + self.ctor_name(c) + " " + " ".join(a.v for a in args) + ")")

    def b_call(self, f: SpecFn, args, caller):
        if f.kind == "abstract":
            head = f"{self.cfg_name if f.group == 'cfg' else self.env_name}.{f.name}"
        elif f.kind == "prim":
            head = f.lean
        else:
            head = f.name + self.group_args(f.name)
        return Val(f.ret, "(" + head + "".join(" " + a.v for a in args) + ")")

    def pat_text(self, p):
        k = p[0]
        if k == "wild":
            return "_", {}
        if k == "var":
            return p[1], {p[1]: Val(p[2], p[1])}
        if k == "lit":
            lit = p[1]
            if isinstance(lit, bool):
                return ("true" if lit else "false"), {}
            if isinstance(lit, int):
                return str(lit), {}
            return lean_str(lit), {}
        c = p[1]
        binds, subs = {}, []
        for sub in p[2]:
            t, b = self.pat_text(sub)
            subs.append(t)
            binds.update(b)
        if self.is_record(c.adt.name):
            return "⟨" + ", ".join(subs) + "⟩", binds
        if not subs:
            return f".{c.name}", binds
        return "(." + c.name + " " + " ".join(subs) + ")", binds

    def b_match(self, subj, cases, want, fn):
        p = self.pad()
        lines = [f"(match {subj.v} with"]
        sort = None
        self.indent += 2
        for pat, body in cases:
            np_ = self.pattern_sorted(pat, subj.sort, fn)
            t, binds = self.pat_text(np_)
            v = body(binds)
            sort = sort or v.sort
            lines.append(f"{p}  | {t} =>\n{p}    {v.v}")
        self.indent -= 2
        return Val(sort, "\n".join(lines) + ")")


def to_lean_value(v, sort, reg=REG) -> str:
    """Python spec value -> Lean term (for the A6 cross-check via #eval)."""
    if sort == "Str":
        return lean_str(v)
    if sort == "Bool":
        return "true" if v else "false"
    if sort in ("Int", "Nat"):
        return f"({v} : {sort})"
    em = LeanEmitter(reg)
    c = reg.ctors[type(v).__name__]
    args = [to_lean_value(getattr(v, f), s, reg) for f, s in c.fields]
    if not args:
        return em.ctor_name(c)
    return "(" + em.ctor_name(c) + " " + " ".join(args) + ")"
