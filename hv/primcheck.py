"""A6 for the hand-written third form: every primitive's Lean definition (hv/lean/HV/Prim.lean, PrimL.lean) is evaluated by Lean
(`#eval`) on sample arguments and compared with the primitive's Python body, which is the CPython operation itself.

The generated module HV.PrimCheck contains one `#eval (prim args == expected)` per sample; Lean prints `true` or `false`.
One G-obligation per primitive: `G:A6:<prim>:lean-agrees` (all samples true).  This validates the definitions the Lean theorems
are about against the real library functions on samples; it is a cross-check, not a proof (stated as such in the evidence)."""
from __future__ import annotations
import itertools
from .speclang import REG

STRS = ["", "a", "a_b_", "x-", "x__", "_", "</script>", "<\\/", "a/b", "/x", "a/", "  b  c ", "\tq\n", "é", "A_bC", "fontSize", "aXbX", 'q"q', "color:red;x:1", "a</b", "</", "<", "ab ab", " z", "ß", "İ"]
OPEN, CLOSE = '<script type="application/json" data-html-dependency="">', "</script>"
CUSTOM = {
    "replaceAll": [(s, o, n) for s in STRS for o, n in (("_", "-"), ("</", "<\\/"), ("X", ""), ('"', '\\"'), ("ab", "b"), ("", "-"), ("aa", "a"))][:120],
    "replaceN": [(s, o, n, k) for s in ["a@@b@@c", "@@", "", "x", "a@b"] for o, n in (("@@", "<R>"), ("@", ""), ("x", "xx")) for k in (1, 0, 2, -1)],
    "reFindallLazy": [(o, c, s) for o, c in ((OPEN, CLOSE), ("[", "]"), ("<o>", "</c>")) for s in
                      ["", "no", o + "T" + c, "p" + o + c + "q", o + "a" + c + "mid" + o + "b" + c + "end", o + "unclosed", c + o + "x" + c + c, o + o + "y" + c, "a" + o + "1" + c + o + "1" + c,
                       o[:-1] + o + "z" + c, o + "multi\nline\r\n" + c]],
    "rep": [(s, n) for s in ["  ", "ab", ""] for n in (0, 1, 3)],
    "pjoin": [(a, b) for a in ["", "a", "a/", "/", "a/b", "lib", "x y"] for b in ["", "b", "/b", "b/", "c/d", "/"]],
    "strOfInt": [(n,) for n in (0, 1, -1, 10, -120, 123456789)],
    "mod3": [(n,) for n in (-4, -1, 0, 1, 2, 3, 7)],
    "strOfFloat": [(n,) for n in (0, 1, 5, -2)],
}
CUSTOM["reSubLazy"] = CUSTOM["reFindallLazy"]
CUSTOM["lowerStr"] = [(x,) for x in STRS if x.isascii()]        # the model is stated for ASCII letters only (C16 assumption)
SKIP = {"strOfFloat"}       # floats are opaque atoms: any fixed injective rendering will do, the Lean one is deliberately not CPython's
LISTS = [[], ["a"], ["a", "b"], ["", "x", ""], ["a b", "c;d", "e\nf"]]


def lean_str(s: str) -> str:
    return "([" + ", ".join(str(ord(ch)) for ch in s) + "] : Str)"


def lean_val(v, sort):
    if sort == "Str":
        return lean_str(v)
    if sort == "Bool":
        return "true" if v else "false"
    if sort == "Nat":
        return f"({int(v)} : Nat)"
    if sort == "Int":
        return f"({int(v)} : Int)"
    if sort == "StrList":
        out = "StrList.SNil"
        for x in reversed(v):
            out = f"(StrList.SCons {lean_str(x)} {out})"
        return out
    raise ValueError(sort)


def py_list(v):
    "spec StrList value -> python list"
    out = []
    while type(v).__name__ == "SCons":
        out.append(v.hd)
        v = v.tl
    return out


def to_spec_list(xs):
    C = {n: c.pyclass for n, c in REG.ctors.items()}
    out = C["SNil"]()
    for x in reversed(xs):
        out = C["SCons"](x, out)
    return out


def samples(f):
    if f.name in CUSTOM:
        return CUSTOM[f.name]
    pools = []
    for _, s in f.params:
        pools.append({"Str": STRS, "Int": [-1, 0, 1, 2, 10], "Nat": [0, 1, 2, 3], "Bool": [True, False], "StrList": LISTS}[s])
    combos = list(itertools.product(*pools))
    return combos[:150]


def generate():
    """(lean source, [(prim, args, expected)])"""
    lines = ["/- GENERATED per run by hv/primcheck.py: Lean evaluates each primitive on samples; `true` = agrees with CPython -/", "import HV.PrimL", "namespace HV", ""]
    index = []
    for name, f in REG.fns.items():
        if f.kind != "prim" or not f.lean or f.pyfn is None or name in SKIP:
            continue
        sorts = [s for _, s in f.params]
        if any(s not in ("Str", "Int", "Nat", "Bool", "StrList") for s in sorts) or f.ret not in ("Str", "Int", "Nat", "Bool", "StrList"):
            continue
        for args in samples(f):
            try:
                pyargs = [to_spec_list(a) if s == "StrList" else a for a, s in zip(args, sorts)]
                r = f.pyfn(*pyargs)
            except Exception:
                continue
            exp = py_list(r) if f.ret == "StrList" else r
            try:
                call = f"{f.lean} " + " ".join(lean_val(a, s) for a, s in zip(args, sorts))
                lines.append(f"#eval (({call}) == {lean_val(exp, f.ret)})")
            except (ValueError, TypeError):
                continue
            index.append((name, args, exp))
    lines += ["", "end HV", ""]
    return "\n".join(lines), index


def verdicts(output: str, index):
    """parse Lean's stdout (one true/false per #eval, in order) into one G verdict per primitive"""
    from .vc import Verdict
    res = [l.strip() for l in output.splitlines() if l.strip() in ("true", "false")]
    out = []
    by = {}
    for i, (name, args, exp) in enumerate(index):
        ok = i < len(res) and res[i] == "true"
        by.setdefault(name, []).append((ok, args, exp))
    for name, rows in by.items():
        bad = [(a, e) for ok, a, e in rows if not ok]
        note = f"Lean definition `{REG.fns[name].lean}` agrees with CPython on {len(rows) - len(bad)}/{len(rows)} samples" + (f"; first disagreement: args={bad[0][0]!r} python={bad[0][1]!r}" if bad else "")
        out.append(Verdict(f"G:A6:{name}:lean-agrees", "discharged" if not bad and len(res) == len(index) else "refuted", "lean-eval", 0.0,
                           {} if not bad else {"args": repr(bad[0][0]), "python": repr(bad[0][1])}, "", f"hv/lean/HV (definition of {REG.fns[name].lean})", note, "G"))
    return out
