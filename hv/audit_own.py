"""C20: ownership (frame) analysis of the JSX conversion, on the real AST.

`JSXTag.tagify` must leave the component and everything reachable from it unchanged.  The argument, each step a named obligation:

  F:_jsx.JSXTag.__copy__:*            copy.copy(component) is a new object with its own attrs map and child list (harness, symbolic)
  F:_jsx.<fn>:L<n>:owned-store        in _walk_attrs_and_children / JSXTag.tagify / its callback, every store (x.a[i] = v, x.a = v, x.a.append(..))
                                      goes through a name that, on every path to that store, was last bound to a NEW object: the result of the
                                      callback parameter, copy.copy(..), <obj>.tagify() (A5), a constructor or a literal
  F:_jsx.<callback>:returns-owned     every value returned by the walk callback is such a new object
  R:_jsx.JSXTag.tagify:renders-walked the expression rendered into the script is the walked copy, not the component itself

The analysis is flow-sensitive over straight-line code, if/elif/else and for-loops (a loop body is analysed with the state at entry
joined with the state at its end); anything it cannot classify is `not owned` (sound over-approximation: it can only raise, never hide, a store).
"""
from __future__ import annotations
import ast
from .vc import Verdict

MUTATORS = {"append", "extend", "insert", "update", "add", "remove", "pop", "clear", "setdefault", "add_class", "remove_class", "add_style", "__setitem__", "sort", "reverse"}


def _v(name, ok, where, note, kind="F"):
    return Verdict(name, "discharged" if ok else "refuted", "ground", 0.0, {} if ok else {"where": where}, "", where, note, kind)


def fresh_expr(e, owned, fresh_calls):
    if isinstance(e, (ast.List, ast.Dict, ast.Set, ast.ListComp, ast.DictComp, ast.Constant, ast.JoinedStr, ast.Tuple)):
        return True
    if isinstance(e, ast.Name):
        return e.id in owned
    if isinstance(e, ast.Call):
        f = e.func
        if isinstance(f, ast.Name) and (f.id in fresh_calls or f.id[:1].isupper()):
            return True
        if isinstance(f, ast.Attribute) and f.attr == "copy" and isinstance(f.value, ast.Name) and f.value.id == "copy":
            return True
        if isinstance(f, ast.Attribute) and f.attr == "tagify" and not e.args:
            return True
    return False


def base_name(t):
    while isinstance(t, (ast.Attribute, ast.Subscript)):
        t = t.value
    return t.id if isinstance(t, ast.Name) else None


class Own(ast.NodeVisitor):
    def __init__(self, fn, fresh_calls, params_owned=()):
        self.fn, self.fresh_calls = fn, set(fresh_calls)
        self.bad = []
        self.returns = []
        self.run(fn.body, set(params_owned))

    def run(self, stmts, owned):
        for s in stmts:
            owned = self.stmt(s, owned)
        return owned

    def check_expr(self, e, owned):
        for n in ast.walk(e):
            if isinstance(n, ast.Call) and isinstance(n.func, ast.Attribute) and n.func.attr in MUTATORS:
                b = base_name(n.func.value)
                if b is not None and b not in owned and b != "super":
                    self.bad.append((n.lineno, f"{ast.unparse(n.func)}(...) mutates through `{b}`, which is not a new object here"))

    def stmt(self, s, owned):
        if isinstance(s, (ast.FunctionDef, ast.ClassDef)):
            return owned | {s.name}
        if isinstance(s, (ast.Assign, ast.AnnAssign, ast.AugAssign)):
            val = s.value
            targets = s.targets if isinstance(s, ast.Assign) else [s.target]
            if val is not None:
                self.check_expr(val, owned)
            for t in targets:
                if isinstance(t, ast.Name):
                    if val is not None and not isinstance(s, ast.AugAssign) and fresh_expr(val, owned, self.fresh_calls):
                        owned = owned | {t.id}
                    elif not isinstance(s, ast.AugAssign):
                        owned = owned - {t.id}
                elif isinstance(t, (ast.Attribute, ast.Subscript)):
                    b = base_name(t)
                    if b is None or b not in owned:
                        self.bad.append((s.lineno, f"store to `{ast.unparse(t)}` goes through `{b}`, which is not a new object here"))
                elif isinstance(t, (ast.Tuple, ast.List)):
                    for el in t.elts:
                        if isinstance(el, ast.Name):
                            owned = owned - {el.id}
            return owned
        if isinstance(s, ast.Expr):
            self.check_expr(s.value, owned)
            return owned
        if isinstance(s, ast.Return):
            if s.value is not None:
                self.check_expr(s.value, owned)
                self.returns.append((s.lineno, fresh_expr(s.value, owned, self.fresh_calls), ast.unparse(s.value)))
            return owned
        if isinstance(s, ast.If):
            self.check_expr(s.test, owned)
            a = self.run(s.body, set(owned))
            b = self.run(s.orelse, set(owned))
            return a & b
        if isinstance(s, (ast.For, ast.While)):
            if isinstance(s, ast.For):
                self.check_expr(s.iter, owned)
                for n in ast.walk(s.target):
                    if isinstance(n, ast.Name):
                        owned = owned - {n.id}
            o1 = self.run(s.body, set(owned))
            o2 = self.run(s.body, o1 & owned)        # second pass with the joined state
            return (o2 & owned)
        if isinstance(s, (ast.With, ast.Try)):
            body = list(s.body)
            for h in getattr(s, "handlers", []):
                body += h.body
            body += getattr(s, "orelse", []) + getattr(s, "finalbody", [])
            return self.run(body, owned)
        if isinstance(s, ast.Raise) or isinstance(s, (ast.Pass, ast.Continue, ast.Break, ast.Import, ast.ImportFrom, ast.Global, ast.Nonlocal, ast.Assert, ast.Delete)):
            return owned
        self.bad.append((getattr(s, "lineno", 0), f"statement {type(s).__name__} is not classified"))
        return owned


def obligations(ctx):
    src = ctx.src
    out = []
    M = "htmltools._jsx"
    # 1. the walker
    try:
        walk = src.find(M + "._walk_attrs_and_children")
        cb = walk.args.args[1].arg if len(walk.args.args) >= 2 else None
        a = Own(walk, fresh_calls={cb} if cb else set())
        out.append(_v("F:_jsx._walk_attrs_and_children:owned-stores", not a.bad, M + "._walk_attrs_and_children",
                      "every store in the walker goes through a name last bound to the callback's result (a new object): " + ("ok" if not a.bad else "; ".join(f"L{l}: {w}" for l, w in a.bad[:3]))))
        for l, w in a.bad:
            out.append(_v(f"F:_jsx._walk_attrs_and_children:L{l}:owned-store", False, f"{M}._walk_attrs_and_children line {l}", w))
        rec_ok = all(fresh or txt in {walk.args.args[0].arg} for _, fresh, txt in a.returns) and bool(a.returns)
        out.append(_v("F:_jsx._walk_attrs_and_children:returns-owned", all(fr for _, fr, _ in a.returns) and bool(a.returns), M + "._walk_attrs_and_children",
                      "the walker returns the (new) object it filled in: " + ", ".join(f"L{l}: `{t}`" for l, _, t in a.returns)))
        # the walk reaches every descendant: what is stored back into a child list or a prop map is the walk of the old entry
        stores = [n for n in ast.walk(walk) if isinstance(n, ast.Assign) and len(n.targets) == 1 and isinstance(n.targets[0], ast.Subscript)
                  and isinstance(n.targets[0].value, ast.Attribute) and n.targets[0].value.attr in ("children", "attrs")]
        def recursive(e):
            return any(isinstance(c, ast.Call) and isinstance(c.func, ast.Name) and c.func.id == walk.name and len(c.args) == 2
                       and isinstance(c.args[1], ast.Name) and c.args[1].id == cb for c in ast.walk(e))
        shallow = [n for n in stores if not recursive(n.value)]
        kinds = {n.targets[0].value.attr for n in stores}
        note = "every entry stored back into .children / .attrs is the walk of the old entry with the same callback (so nested tags, components and prop values are all visited)"
        if shallow:
            out.append(_v("R:_jsx._walk_attrs_and_children:visits-descendants", False, f"{M}._walk_attrs_and_children line {shallow[0].lineno}",
                          note + f": `{ast.unparse(shallow[0])}` does not recurse", "R"))
        elif kinds == {"children", "attrs"}:
            out.append(_v("R:_jsx._walk_attrs_and_children:visits-descendants", True, M + "._walk_attrs_and_children", note + f": {len(stores)} stores", "R"))
        else:
            v_ = _v("R:_jsx._walk_attrs_and_children:visits-descendants", True, M + "._walk_attrs_and_children", "the walker's stores are not in the recognised form (undecided; the oracle's fixed battery covers nested dependencies)", "R")
            v_.status = "unknown"
            out.append(v_)
    except Exception as ex:
        out.append(_v("F:_jsx._walk_attrs_and_children:owned-stores", False, M, f"cannot analyse: {ex}"))
    # 2. tagify and its callback
    try:
        tg = src.find(M + ".JSXTag.tagify")
        inner = [n for n in tg.body if isinstance(n, ast.FunctionDef)]
        a = Own(tg, fresh_calls={"_walk_attrs_and_children", "_render_react_js", "_lib_dependency"})
        out.append(_v("F:_jsx.JSXTag.tagify:owned-stores", not a.bad, M + ".JSXTag.tagify",
                      "tagify stores only into objects it created: " + ("ok" if not a.bad else "; ".join(f"L{l}: {w}" for l, w in a.bad[:3]))))
        for f in inner:
            b = Own(f, fresh_calls=set(), params_owned=())
            # the callback may append to the enclosing function's local list (created by tagify)
            local_lists = {t.id for n in tg.body if isinstance(n, (ast.Assign, ast.AnnAssign)) for t in ([n.target] if isinstance(n, ast.AnnAssign) else n.targets)
                           if isinstance(t, ast.Name) and isinstance(n.value, (ast.List, ast.Dict))}
            bad = [(l, w) for l, w in b.bad if not any(f"through `{nm}`" in w for nm in local_lists)]
            out.append(_v(f"F:_jsx.JSXTag.tagify.{f.name}:owned-stores", not bad, f"{M}.JSXTag.tagify.{f.name}",
                          "the walk callback mutates nothing but tagify's own local list: " + ("ok" if not bad else "; ".join(f"L{l}: {w}" for l, w in bad[:3]))))
            out.append(_v(f"F:_jsx.JSXTag.tagify.{f.name}:returns-owned", bool(b.returns) and all(fr for _, fr, _ in b.returns), f"{M}.JSXTag.tagify.{f.name}",
                          "every value the callback returns is a new object (x.tagify() by A5, or copy.copy(x)): " + ", ".join(f"L{l}: `{t}` {'new' if fr else 'NOT new'}" for l, fr, t in b.returns)))
        # 3. what is rendered is the walked copy
        walked = {t.id for n in ast.walk(tg) if isinstance(n, ast.Assign) and isinstance(n.value, ast.Call) and isinstance(n.value.func, ast.Name)
                  and n.value.func.id == "_walk_attrs_and_children" for t in n.targets if isinstance(t, ast.Name)}
        renders = [n for n in ast.walk(tg) if isinstance(n, ast.Call) and isinstance(n.func, ast.Name) and n.func.id == "_render_react_js"]
        ok = bool(renders) and all(r.args and isinstance(r.args[0], ast.Name) and r.args[0].id in walked for r in renders)
        out.append(_v("R:_jsx.JSXTag.tagify:renders-walked", ok, M + ".JSXTag.tagify",
                      "the React.createElement expression is rendered from the walked copy (the tree with every tagifiable descendant expanded), not from the component: "
                      + ", ".join(ast.unparse(r) for r in renders), "R"))
        # walker applied to self (so the first thing copied is the component itself) or to a copy of it
        calls = [n for n in ast.walk(tg) if isinstance(n, ast.Call) and isinstance(n.func, ast.Name) and n.func.id == "_walk_attrs_and_children"]
        out.append(_v("R:_jsx.JSXTag.tagify:walks-component", len(calls) == 1 and len(calls[0].args) == 2, M + ".JSXTag.tagify", "the walker is applied once, to the component", "R"))
    except Exception as ex:
        out.append(_v("F:_jsx.JSXTag.tagify:owned-stores", False, M, f"cannot analyse: {ex}"))
    # 4. react files exist and versions are pinned
    import os
    repo = ctx.src.repo
    try:
        versions = src.const("htmltools._versions", "versions")
    except Exception:
        versions = None
    for pkg, f in (("react", "react.production.min.js"), ("react-dom", "react-dom.production.min.js")):
        p = os.path.join(repo, "htmltools", "lib", pkg, f)
        out.append(_v(f"G:_jsx.lib:{pkg}:file", os.path.isfile(p) and os.path.getsize(p) > 0, p, "the script file of the dependency exists in the package", "G"))
        if versions is not None:
            out.append(_v(f"G:_jsx.lib:{pkg}:version", isinstance(versions, dict) and isinstance(versions.get(pkg), str) and versions.get(pkg), "htmltools/_versions.py",
                          f"version pinned: {versions.get(pkg) if isinstance(versions, dict) else versions}", "G"))
    return out
