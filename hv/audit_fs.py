"""C12: order of file-system effects in HTMLDependency.copy_to, on the real AST (F-obligations).

A forward may-analysis with one bit of state, `may have written`: set by any call that can change the file system (rmtree, mkdir,
makedirs, copy2, copytree, copy, copyfile, move, remove, unlink, rmdir, rename, replace, open(.., 'w'/'a'/'x'), write_text, write_bytes,
touch), propagated through sequences, joined over branches, iterated to a fixpoint over loops.

  F:_core.HTMLDependency.copy_to:L<n>:no-write-before-raise   at every `raise` (the missing-file error) the bit is clear: the target is untouched
  F:_core.HTMLDependency.copy_to:L<n>:early-return-clean      the `return` taken when there is nothing to copy (source == "") precedes every write
  F:_core.HTMLDependency.copy_to:clears-before-copy           on every path the target directory is removed (rmtree) before the first file is copied
  F:_core.HTMLDependency.copy_to:copies-exist                 files are copied at all (the copy calls are still there)
"""
from __future__ import annotations
import ast
from .vc import Verdict

WRITERS = {"rmtree", "mkdir", "makedirs", "copy2", "copytree", "copy", "copyfile", "move", "remove", "unlink", "rmdir", "rename", "replace", "write_text", "write_bytes", "touch", "symlink", "link"}
COPIERS = {"copy2", "copytree", "copy", "copyfile"}


def _v(name, ok, where, note):
    return Verdict(name, "discharged" if ok else "refuted", "ground", 0.0, {} if ok else {"where": where}, "", where, note, "F")


def calls_in(node):
    out = []
    for n in ast.walk(node):
        if isinstance(n, ast.Call):
            f = n.func
            nm = f.attr if isinstance(f, ast.Attribute) else (f.id if isinstance(f, ast.Name) else None)
            if nm == "open":
                mode = None
                if len(n.args) > 1 and isinstance(n.args[1], ast.Constant):
                    mode = n.args[1].value
                for k in n.keywords:
                    if k.arg == "mode" and isinstance(k.value, ast.Constant):
                        mode = k.value.value
                if mode is None or any(ch in str(mode) for ch in "wax+"):
                    out.append("open-for-writing")
            elif nm in WRITERS:
                out.append(nm)
    return out


class Flow:
    def __init__(self, fn):
        self.events = []       # (kind, line, written?, cleared?)
        self.run(fn.body, (False, False, False))

    def expr(self, e, st):
        w, cleared, copied = st
        for c in calls_in(e):
            if c == "rmtree":
                cleared = True
            if c in COPIERS:
                self.events.append(("copy", getattr(e, "lineno", 0), w, cleared))
                copied = True
            w = True
        return (w, cleared, copied)

    def run(self, stmts, st):
        for s in stmts:
            st = self.stmt(s, st)
        return st

    def stmt(self, s, st):
        if isinstance(s, ast.Raise):
            if s.exc is not None:
                st = self.expr(s.exc, st)
            self.events.append(("raise", s.lineno, st[0], st[1]))
            return st
        if isinstance(s, ast.Return):
            if s.value is not None:
                st = self.expr(s.value, st)
            self.events.append(("return", s.lineno, st[0], st[1]))
            return st
        if isinstance(s, ast.If):
            st = self.expr(s.test, st)
            a = self.run(s.body, st)
            b = self.run(s.orelse, st)
            # may-written: or; must-cleared: and (a conditional rmtree guarded by `exists` clears what exists: treat the guarded form as clearing)
            guarded_clear = "rmtree" in calls_in(ast.Module(body=s.body, type_ignores=[])) and not s.orelse
            return (a[0] or b[0], (a[1] and b[1]) or guarded_clear or st[1], a[2] or b[2])
        if isinstance(s, (ast.For, ast.While)):
            st = self.expr(s.iter if isinstance(s, ast.For) else s.test, st)
            once = self.run(s.body, st)
            twice = self.run(s.body, (st[0] or once[0], st[1], st[2] or once[2]))
            return (st[0] or twice[0], st[1], st[2] or twice[2])
        if isinstance(s, (ast.With, ast.Try)):
            for it in getattr(s, "items", []):
                st = self.expr(it.context_expr, st)
            st = self.run(s.body, st)
            for h in getattr(s, "handlers", []):
                st2 = self.run(h.body, st)
                st = (st[0] or st2[0], st[1] and st2[1], st[2] or st2[2])
            st = self.run(getattr(s, "orelse", []), st)
            return self.run(getattr(s, "finalbody", []), st)
        if isinstance(s, (ast.FunctionDef, ast.ClassDef)):
            return st
        return self.expr(s, st)


def obligations(ctx):
    q = "htmltools._core.HTMLDependency.copy_to"
    short = q.replace("htmltools.", "")
    out = []
    try:
        fn = ctx.src.find(q)
    except Exception as ex:
        return [_v(f"F:{short}:no-write-before-raise", False, q, f"cannot read: {ex}")]
    fl = Flow(fn)
    merged = {}
    for k, line, w, cl in fl.events:           # a statement inside a loop is visited twice: keep the worst state per statement
        o = merged.get((k, line))
        merged[(k, line)] = (k, line, w or (o[2] if o else False), cl and (o[3] if o else True))
    fl.events = list(merged.values())
    raises = [e for e in fl.events if e[0] == "raise"]
    out.append(_v(f"F:{short}:raises-exist", len(raises) >= 1, q, f"{len(raises)} raise statement(s): a missing listed file is reported"))
    for k, line, w, cl in raises:
        out.append(_v(f"F:{short}:L{line}:no-write-before-raise", not w, f"{q} line {line}", "no call that can change the file system is reachable before this raise: the target directory is untouched when copying fails"))
    rets = [e for e in fl.events if e[0] == "return"]
    for k, line, w, cl in rets:
        out.append(_v(f"F:{short}:L{line}:early-return-clean", not w, f"{q} line {line}", "the early return (nothing to copy: source == '') happens before any file-system change"))
    out.append(_v(f"F:{short}:early-return-exists", len(rets) >= 1, q, "URL-sourced and source-less dependencies return before copying"))
    copies = [e for e in fl.events if e[0] == "copy"]
    out.append(_v(f"F:{short}:copies-exist", len(copies) >= 1, q, f"{len(copies)} copy call(s)"))
    for k, line, w, cl in copies:
        out.append(_v(f"F:{short}:L{line}:clears-before-copy", cl, f"{q} line {line}", "the target directory is removed (rmtree of what exists) before any file is copied into it: stale contents are gone"))
    return out
