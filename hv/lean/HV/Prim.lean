/-
Primitive string-level definitions shared by the generated spec (HV/Spec.lean) and the theorems.
Strings are lists of code points (`Str = List Nat`): strictly more values than Python's str, so every
scalar value and every surrogate is covered.  Hand written (DESIGN §4.1b: primitives have three
hand-written forms — Python in hv/spec/strings.py, z3 there too, Lean here — cross-checked per run);
everything else in the spec is generated.
-/
namespace HV
abbrev Str := List Nat

/-- `s * n` -/
def rep (s : Str) : Nat → Str
  | 0 => []
  | n+1 => s ++ rep s n

/-- `stripPre v s = some rest` iff `s = v ++ rest` -/
def stripPre : Str → Str → Option Str
  | [], s => some s
  | _ :: _, [] => none
  | a :: v, b :: s => if a = b then stripPre v s else none

/-- leftmost non-overlapping scan with explicit fuel (fuel ≥ length suffices) -/
def replaceAllAux (old new : Str) : Nat → Str → Str
  | 0, s => s
  | _+1, [] => []
  | f+1, x :: xs =>
    match stripPre old (x :: xs) with
    | some rest => new ++ replaceAllAux old new f rest
    | none => x :: replaceAllAux old new f xs

/-- `s.replace(old, new)`; for the empty pattern Python inserts `new` around every character -/
def replaceAll (s old new : Str) : Str :=
  if old = [] then new ++ s.flatMap (fun c => c :: new) else replaceAllAux old new s.length s

/-- `sub in s` -/
def containsStr : Str → Str → Bool
  | [], sub => sub == []
  | x :: xs, sub => (stripPre sub (x :: xs)).isSome || containsStr xs sub

/-- `posixpath.join(a, b)`: an absolute `b` wins; otherwise `a`, a slash unless `a` is empty or already ends with one, then `b` -/
def pjoin (a b : Str) : Str :=
  if b.head? = some 47 then b
  else if a = [] ∨ a.getLast? = some 47 then a ++ b
  else a ++ [47] ++ b

/-- `str(n)` for an int -/
def strOfInt (n : Int) : Str := (toString n).toList.map Char.toNat

/-- `s.replace(old, new, n)`: at most n replacements (n < 0: all) -/
def replaceNAux (old new : Str) : Nat → Nat → Str → Str
  | 0, _, s => s
  | _, 0, s => s
  | _+1, _, [] => []
  | f+1, k+1, x :: xs =>
    match stripPre old (x :: xs) with
    | some rest => new ++ replaceNAux old new f k rest
    | none => x :: replaceNAux old new f (k+1) xs

def replaceN (s old new : Str) (n : Int) : Str :=
  if n < 0 then replaceAll s old new
  else if old = [] then s   -- not used with an empty pattern
  else replaceNAux old new s.length n.toNat s

/-- `str(x)` for the float with identity `fid` (floats are opaque atoms; any fixed function will do) -/
def strOfFloat (fid : Int) : Str := [102, 108, 111, 97, 116, 35] ++ strOfInt fid

/-- `k % 3` -/
def mod3 (k : Int) : Int := k % 3

/-- `s[:-1]` -/
def dropLast1 (s : Str) : Str := s.dropLast

/-- `s.endswith(suf)` -/
def endsWith (s suf : Str) : Bool := suf.isSuffixOf s

theorem stripPre_append (v r : Str) : stripPre v (v ++ r) = some r := by
  induction v with
  | nil => simp [stripPre]
  | cons a v ih => simp [stripPre, ih]

theorem stripPre_some (v s r : Str) (h : stripPre v s = some r) : s = v ++ r := by
  induction v generalizing s with
  | nil => simp [stripPre] at h; simp [h]
  | cons a v ih =>
    cases s with
    | nil => simp [stripPre] at h
    | cons b s =>
      simp only [stripPre] at h
      split at h
      · rename_i hab; subst hab; simp [ih s h]
      · simp at h

theorem stripPre_len (v s r : Str) (h : stripPre v s = some r) : r.length + v.length = s.length := by
  have := stripPre_some v s r h; subst this; simp [Nat.add_comm]

end HV
