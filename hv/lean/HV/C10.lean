/-
C10 — dependencies are collected in document order from every nesting level and resolve one per name to
the highest version (earliest on ties), names ordered by first occurrence; resolution is idempotent,
independent of placement, and with dedup disabled nothing is dropped or reordered.
Statements fixed; proofs to be supplied.  `Dep` has fields isdep/name/ver/uid; `ver : Int` is the image of the
packaging.Version order (assumption A3: an abstract strict total order).
-/
import HV.Spec
namespace HV

def dlToList : DepList → List Dep
  | .DLNil => []
  | .DLCons d r => d :: dlToList r
def mkeys : DepMap → List Str
  | .MNil => []
  | .MCons k _ tl => k :: mkeys tl
def firstOccS : List Str → List Str
  | [] => []
  | x :: xs => x :: (firstOccS xs).filter (· != x)

/-- the representative the property demands for name n: the earliest dependency among those of maximal version -/
def bestFor (n : Str) : List Dep → Option Dep
  | [] => none
  | d :: r => match bestFor n r with
    | none => if d.name == n then some d else none
    | some b => if d.name == n && decide (b.ver ≤ d.ver) then some d else some b

theorem dsnoc_toList (l : DepList) (d : Dep) : dlToList (dsnoc l d) = dlToList l ++ [d] := by
  induction l with
  | DLNil => simp [dsnoc, dlToList]
  | DLCons h t ih => simp [dsnoc, dlToList, ih]
theorem dappend_toList (a b : DepList) : dlToList (dappend a b) = dlToList a ++ dlToList b := by
  induction a with
  | DLNil => simp [dappend, dlToList]
  | DLCons h t ih => simp [dappend, dlToList, ih]

/-! ### helper lemmas: DepList algebra -/
theorem dlToList_inj (a b : DepList) (h : dlToList a = dlToList b) : a = b := by
  induction a generalizing b with
  | DLNil => cases b <;> simp [dlToList] at h ⊢
  | DLCons x t ih =>
    cases b with
    | DLNil => simp [dlToList] at h
    | DLCons y u => simp [dlToList] at h; rw [h.1, ih u h.2]
theorem dappend_nil (a : DepList) : dappend a .DLNil = a :=
  dlToList_inj _ _ (by simp [dappend_toList, dlToList])
theorem dappend_nil_left (a : DepList) : dappend .DLNil a = a := by rw [dappend]
theorem dappend_assoc (a b c : DepList) : dappend (dappend a b) c = dappend a (dappend b c) :=
  dlToList_inj _ _ (by simp [dappend_toList])
theorem dsnoc_eq (a : DepList) (d : Dep) : dsnoc a d = dappend a (.DLCons d .DLNil) :=
  dlToList_inj _ _ (by simp [dappend_toList, dsnoc_toList, dlToList])

/-! ### helper lemmas: firstOccS -/
theorem mem_firstOccS (x : Str) (l : List Str) : x ∈ firstOccS l ↔ x ∈ l := by
  induction l with
  | nil => simp [firstOccS]
  | cons y r ih =>
    simp only [firstOccS, List.mem_cons, List.mem_filter, ih]
    by_cases hxy : x = y <;> simp [hxy]
theorem firstOccS_nodup (l : List Str) : (firstOccS l).Nodup := by
  induction l with
  | nil => simp [firstOccS]
  | cons y r ih =>
    simp only [firstOccS, List.nodup_cons]
    exact ⟨by simp [List.mem_filter], ih.filter _⟩
theorem firstOccS_snoc (l : List Str) (x : Str) :
    firstOccS (l ++ [x]) = if x ∈ l then firstOccS l else firstOccS l ++ [x] := by
  induction l with
  | nil => simp [firstOccS]
  | cons y r ih =>
    simp only [List.cons_append, firstOccS, ih]
    by_cases hr : x ∈ r
    · simp [hr]
    · by_cases hxy : x = y
      · subst hxy; simp [hr, List.filter_append]
      · simp [hr, hxy, List.filter_append]

/-! ### helper lemmas: bestFor -/
theorem bestFor_snoc_none (n : Str) (l : List Dep) (d : Dep) (h : bestFor n l = none) :
    bestFor n (l ++ [d]) = if d.name == n then some d else none := by
  induction l with
  | nil => simp [bestFor]
  | cons x r ih =>
    simp only [List.cons_append, bestFor] at h ⊢
    cases hr : bestFor n r with
    | some b => simp [hr] at h; split at h <;> simp at h
    | none =>
      rw [ih hr]
      simp only [hr] at h
      have hx : (x.name == n) = false := by
        cases hxn : (x.name == n) <;> simp [hxn] at h ⊢
      by_cases hd : (d.name == n) = true <;> simp [hd, hx]
theorem bestFor_snoc_some (n : Str) (l : List Dep) (d b : Dep) (h : bestFor n l = some b) :
    bestFor n (l ++ [d]) = if d.name == n && decide (b.ver < d.ver) then some d else some b := by
  induction l generalizing b with
  | nil => simp [bestFor] at h
  | cons x r ih =>
    simp only [List.cons_append, bestFor] at h ⊢
    cases hr : bestFor n r with
    | none =>
      rw [bestFor_snoc_none n r d hr]
      simp only [hr] at h
      by_cases hx : (x.name == n) = true
      · simp only [hx, if_true, Option.some.injEq] at h
        subst h
        by_cases hd : (d.name == n) = true
        · simp only [hd, if_true, hx, Bool.true_and]
          by_cases hv : x.ver < d.ver
          · have : ¬ d.ver ≤ x.ver := by omega
            simp [hv, this]
          · have : d.ver ≤ x.ver := by omega
            simp [hv, this]
        · simp [hd, hx]
      · simp [hx] at h
    | some b0 =>
      rw [ih b0 hr]
      simp only [hr] at h
      by_cases hd : (d.name == n) = true
      · by_cases hx : (x.name == n) = true
        · simp only [hd, hx, Bool.true_and] at h ⊢
          by_cases hv0 : b0.ver < d.ver
          · simp only [hv0, decide_true, if_true]
            by_cases hvx : b0.ver ≤ x.ver
            · simp only [hvx, decide_true, if_true, Option.some.injEq] at h
              subst h
              by_cases hv : d.ver ≤ x.ver
              · have : ¬ x.ver < d.ver := by omega
                simp [hv, this]
              · have : x.ver < d.ver := by omega
                simp [hv, this]
            · simp only [hvx, decide_false] at h
              simp at h
              subst h
              have h1 : ¬ d.ver ≤ x.ver := by omega
              simp [h1, hv0]
          · simp only [hv0, decide_false]
            simp only [Bool.false_eq_true, if_false]
            by_cases hvx : b0.ver ≤ x.ver
            · simp only [hvx, decide_true, if_true, Option.some.injEq] at h ⊢
              subst h
              have : ¬ x.ver < d.ver := by omega
              simp [this]
            · simp only [hvx, decide_false] at h ⊢
              simp at h ⊢
              subst h
              simp [hv0]
        · have hx' : (x.name == n) = false := by simpa using hx
          simp only [hd, hx', Bool.true_and, Bool.false_and] at h ⊢
          simp at h
          subst h
          by_cases hv0 : b0.ver < d.ver <;> simp [hv0]
      · have hd' : (d.name == n) = false := by simpa using hd
        simp only [hd', Bool.false_and] at h ⊢
        simpa using h
theorem bestFor_none_of_not_mem (n : Str) (l : List Dep) (h : n ∉ l.map (·.name)) : bestFor n l = none := by
  induction l with
  | nil => simp [bestFor]
  | cons x r ih =>
    simp only [List.map_cons, List.mem_cons, not_or] at h
    have hx : (x.name == n) = false := by
      simp only [beq_eq_false_iff_ne]; exact fun e => h.1 e.symm
    simp [bestFor, ih h.2, hx]
theorem bestFor_name (n : Str) (l : List Dep) (b : Dep) (h : bestFor n l = some b) : b.name = n := by
  induction l generalizing b with
  | nil => simp [bestFor] at h
  | cons x r ih =>
    simp only [bestFor] at h
    cases hr : bestFor n r with
    | none =>
      simp only [hr] at h
      by_cases hx : (x.name == n) = true
      · simp [hx] at h; subst h; simpa using hx
      · simp [hx] at h
    | some b0 =>
      simp only [hr] at h
      split at h
      · rename_i hc; simp at h; subst h; simp at hc; exact hc.1
      · simp at h; subst h; exact ih b0 hr
theorem bestFor_mem (n : Str) (l : List Dep) (b : Dep) (h : bestFor n l = some b) : b ∈ l := by
  induction l generalizing b with
  | nil => simp [bestFor] at h
  | cons x r ih =>
    simp only [bestFor] at h
    cases hr : bestFor n r with
    | none =>
      simp only [hr] at h
      split at h
      · simp at h; subst h; simp
      · simp at h
    | some b0 =>
      simp only [hr] at h
      split at h
      · simp at h; subst h; simp
      · simp at h; subst h; exact List.mem_cons_of_mem _ (ih b0 hr)
theorem bestFor_max (n : Str) (l : List Dep) (b : Dep) (h : bestFor n l = some b) (d' : Dep) (hm : d' ∈ l)
    (hn : d'.name = n) : d'.ver ≤ b.ver := by
  induction l generalizing b with
  | nil => simp at hm
  | cons x r ih =>
    simp only [bestFor] at h
    cases hr : bestFor n r with
    | none =>
      simp only [hr] at h
      split at h
      · simp at h; subst h
        rcases List.mem_cons.mp hm with e | e
        · subst e; omega
        · exfalso
          have : n ∈ r.map (·.name) := List.mem_map.mpr ⟨d', e, hn⟩
          by_cases hnm : n ∈ r.map (·.name)
          · -- bestFor would be some
            clear this
            have : ∀ (r : List Dep), n ∈ r.map (·.name) → bestFor n r ≠ none := by
              intro r
              induction r with
              | nil => simp
              | cons y s ihs =>
                intro hy
                simp only [bestFor]
                cases hs : bestFor n s with
                | none =>
                  simp only [List.map_cons, List.mem_cons] at hy
                  rcases hy with e1 | e1
                  · simp [e1]
                  · exact absurd hs (ihs e1)
                | some c => simp only; split <;> simp
            exact this r hnm hr
          · exact hnm this
      · simp at h
    | some b0 =>
      simp only [hr] at h
      have ih0 := ih b0 hr
      split at h
      · rename_i hc
        simp at h; subst h; simp at hc
        rcases List.mem_cons.mp hm with e | e
        · subst e; omega
        · have := ih0 e; omega
      · rename_i hc
        simp at h; subst h
        rcases List.mem_cons.mp hm with e | e
        · subst e
          simp [hn] at hc; omega
        · exact ih0 e

/-! ### helper lemmas: the ordered map -/
theorem mhas_iff (m : DepMap) (k : Str) : mhas m k = true ↔ k ∈ mkeys m := by
  induction m with
  | MNil => simp [mhas, mkeys]
  | MCons k2 v tl ih =>
    simp only [mhas, mkeys, Bool.or_eq_true, beq_iff_eq, ih, List.mem_cons]
    constructor
    · rintro (e | e)
      · exact Or.inl e.symm
      · exact Or.inr e
    · rintro (e | e)
      · exact Or.inl e.symm
      · exact Or.inr e
theorem mkeys_mset (m : DepMap) (k : Str) (d : Dep) :
    mkeys (mset m k d) = if mhas m k = true then mkeys m else mkeys m ++ [k] := by
  induction m with
  | MNil => simp [mset, mhas, mkeys]
  | MCons k2 v tl ih =>
    simp only [mset, mhas]
    by_cases hk : (k2 == k) = true
    · simp [hk, mkeys]
    · have hk' : (k2 == k) = false := by simpa using hk
      rw [if_neg hk]
      simp only [hk', mkeys, ih, Bool.false_or]
      split <;> simp
theorem mget_mset (m : DepMap) (k : Str) (d : Dep) (k' : Str) :
    mget (mset m k d) k' = if k' = k then d else mget m k' := by
  induction m with
  | MNil =>
    simp only [mset, mget]
    by_cases h : k' = k
    · simp [h]
    · have : ¬ k = k' := fun e => h e.symm
      simp [h, this]
  | MCons k2 v tl ih =>
    simp only [mset]
    by_cases hk : (k2 == k) = true
    · have e : k2 = k := by simpa using hk
      subst e
      simp only [beq_self_eq_true, if_true, mget]
      by_cases h : k' = k2
      · subst h; simp
      · have : ¬ k2 = k' := fun e => h e.symm
        simp [h, this]
    · rw [if_neg hk]
      simp only [mget, ih]
      have hne : ¬ k2 = k := by simpa using hk
      by_cases h2 : k2 = k'
      · subst h2; simp [hne]
      · simp [h2]
theorem mem_values_of_mhas (m : DepMap) (k : Str) (h : mhas m k = true) : mget m k ∈ dlToList (mvalues m) := by
  induction m with
  | MNil => simp [mhas] at h
  | MCons k2 v tl ih =>
    simp only [mhas, Bool.or_eq_true] at h
    simp only [mget, mvalues, dlToList]
    by_cases hk : (k2 == k) = true
    · simp [hk]
    · simp only [hk]
      exact List.mem_cons_of_mem _ (ih (by simpa [hk] using h))
theorem mhas_of_mem_values (m : DepMap) (hnd : (mkeys m).Nodup) (d : Dep) (h : d ∈ dlToList (mvalues m)) :
    ∃ k, mhas m k = true ∧ mget m k = d := by
  induction m with
  | MNil => simp [mvalues, dlToList] at h
  | MCons k2 v tl ih =>
    simp only [mvalues, dlToList, List.mem_cons] at h
    simp only [mkeys, List.nodup_cons] at hnd
    rcases h with e | e
    · exact ⟨k2, by simp [mhas], by simp [mget, e]⟩
    · obtain ⟨k, hk1, hk2⟩ := ih hnd.2 e
      refine ⟨k, by simp [mhas, hk1], ?_⟩
      have : ¬ k2 = k := by
        intro e2; subst e2; exact hnd.1 ((mhas_iff _ _).mp hk1)
      simp [mget, this, hk2]
theorem values_names (m : DepMap) (hnd : (mkeys m).Nodup) (hn : ∀ k, mhas m k = true → (mget m k).name = k) :
    (dlToList (mvalues m)).map (·.name) = mkeys m := by
  induction m with
  | MNil => simp [mvalues, dlToList, mkeys]
  | MCons k2 v tl ih =>
    simp only [mkeys, List.nodup_cons] at hnd
    simp only [mvalues, dlToList, List.map_cons, mkeys]
    have h1 : v.name = k2 := by simpa [mhas, mget] using hn k2
    rw [h1, ih hnd.2]
    intro k hk
    have hne : ¬ k2 = k := by
      intro e2; subst e2; exact hnd.1 ((mhas_iff _ _).mp hk)
    have := hn k (by simp [mhas, hk])
    simpa [mget, hne] using this

/-! ### the fold invariant -/
structure RInv (m : DepMap) (pre : List Dep) : Prop where
  keys : mkeys m = firstOccS (pre.map (·.name))
  best : ∀ k, mhas m k = true → bestFor k pre = some (mget m k)

theorem RInv_step (m : DepMap) (pre : List Dep) (d : Dep) (h : RInv m pre) : RInv (resolveStep m d) (pre ++ [d]) := by
  have hmem : ∀ k, mhas m k = true ↔ k ∈ pre.map (·.name) := by
    intro k; rw [mhas_iff, h.keys, mem_firstOccS]
  unfold resolveStep
  by_cases hh : mhas m d.name = true
  · have hb := h.best _ hh
    have hin := (hmem _).mp hh
    simp only [hh, Bool.not_true, Bool.false_eq_true, if_false]
    by_cases hv : d.ver > (mget m d.name).ver
    · simp only [hv, decide_true, if_true]
      constructor
      · rw [mkeys_mset, if_pos hh, h.keys, List.map_append, List.map_cons, List.map_nil, firstOccS_snoc, if_pos hin]
      · intro k hk
        rw [mget_mset]
        by_cases hkd : k = d.name
        · subst hkd
          rw [bestFor_snoc_some _ _ _ _ hb]
          have : (mget m d.name).ver < d.ver := by omega
          simp [this]
        · have hk' : mhas m k = true := by
            rw [mhas_iff, mkeys_mset, if_pos hh] at hk; exact (mhas_iff _ _).mpr hk
          rw [bestFor_snoc_some _ _ _ _ (h.best k hk')]
          have : ¬ d.name = k := fun e => hkd e.symm
          simp [hkd, this]
    · simp only [hv, decide_false, Bool.false_eq_true, if_false]
      constructor
      · rw [h.keys, List.map_append, List.map_cons, List.map_nil, firstOccS_snoc, if_pos hin]
      · intro k hk
        rw [bestFor_snoc_some _ _ _ _ (h.best k hk)]
        by_cases hkd : d.name = k
        · subst hkd
          have : ¬ (mget m d.name).ver < d.ver := by omega
          simp [this]
        · simp [hkd]
  · have hin : d.name ∉ pre.map (·.name) := fun e => hh ((hmem _).mpr e)
    have hh' : mhas m d.name = false := by simpa using hh
    simp only [hh', Bool.not_false, if_true]
    constructor
    · rw [mkeys_mset, if_neg hh, h.keys, List.map_append, List.map_cons, List.map_nil, firstOccS_snoc, if_neg hin]
    · intro k hk
      rw [mget_mset]
      by_cases hkd : k = d.name
      · subst hkd
        rw [bestFor_snoc_none _ _ _ (bestFor_none_of_not_mem _ _ hin)]
        simp
      · have hk' : mhas m k = true := by
          rw [mhas_iff, mkeys_mset, if_neg hh, List.mem_append] at hk
          rcases hk with hk | hk
          · exact (mhas_iff _ _).mpr hk
          · simp at hk; exact absurd hk hkd
        rw [bestFor_snoc_some _ _ _ _ (h.best k hk')]
        have : ¬ d.name = k := fun e => hkd e.symm
        simp [hkd, this]

theorem RInv_fold (deps : DepList) (m : DepMap) (pre : List Dep) (h : RInv m pre) :
    RInv (resolveFold deps m) (pre ++ dlToList deps) := by
  induction deps generalizing m pre with
  | DLNil => simpa [resolveFold, dlToList] using h
  | DLCons d r ih =>
    have := ih _ _ (RInv_step m pre d h)
    simpa [resolveFold, dlToList, List.append_assoc] using this

theorem RInv_resolve (deps : DepList) : RInv (resolveFold deps .MNil) (dlToList deps) := by
  have := RInv_fold deps .MNil [] ⟨by simp [mkeys, firstOccS], by simp [mhas]⟩
  simpa using this

theorem resolve_keys_nodup (deps : DepList) : (mkeys (resolveFold deps .MNil)).Nodup := by
  rw [(RInv_resolve deps).keys]; exact firstOccS_nodup _

theorem resolve_names (deps : DepList) :
    (dlToList (resolve deps)).map (·.name) = mkeys (resolveFold deps .MNil) := by
  unfold resolve
  apply values_names _ (resolve_keys_nodup deps)
  intro k hk
  exact bestFor_name _ _ _ ((RInv_resolve deps).best k hk)

/-! ### resolution -/
/-- each name appears once -/
theorem C10_resolve_names_nodup (deps : DepList) : ((dlToList (resolve deps)).map (·.name)).Nodup := by
  rw [resolve_names]; exact resolve_keys_nodup deps
/-- names ordered by first occurrence -/
theorem C10_resolve_order (deps : DepList) :
    (dlToList (resolve deps)).map (·.name) = firstOccS ((dlToList deps).map (·.name)) := by
  rw [resolve_names]; exact (RInv_resolve deps).keys
/-- represented by the object with the highest version, the earliest such object on ties -/
theorem C10_resolve_is_max_earliest (deps : DepList) (d : Dep) (h : d ∈ dlToList (resolve deps)) :
    bestFor d.name (dlToList deps) = some d := by
  obtain ⟨k, hk1, hk2⟩ := mhas_of_mem_values _ (resolve_keys_nodup deps) d h
  have hb := (RInv_resolve deps).best k hk1
  rw [hk2] at hb
  rw [bestFor_name _ _ _ hb]; exact hb
theorem C10_resolve_max (deps : DepList) (d d' : Dep) (h : d ∈ dlToList (resolve deps)) (h' : d' ∈ dlToList deps) (hn : d'.name = d.name) :
    d'.ver ≤ d.ver :=
  bestFor_max _ _ _ (C10_resolve_is_max_earliest deps d h) d' h' hn
/-- nothing is invented: every resolved dependency is one of the collected objects -/
theorem C10_resolve_subset (deps : DepList) (d : Dep) (h : d ∈ dlToList (resolve deps)) : d ∈ dlToList deps :=
  bestFor_mem _ _ _ (C10_resolve_is_max_earliest deps d h)
/-- every collected name is represented -/
theorem C10_resolve_complete (deps : DepList) (d : Dep) (h : d ∈ dlToList deps) :
    ∃ r ∈ dlToList (resolve deps), r.name = d.name := by
  have hk : mhas (resolveFold deps .MNil) d.name = true := by
    rw [mhas_iff, (RInv_resolve deps).keys, mem_firstOccS]
    exact List.mem_map.mpr ⟨d, h, rfl⟩
  exact ⟨_, mem_values_of_mhas _ _ hk, bestFor_name _ _ _ ((RInv_resolve deps).best _ hk)⟩

/-! idempotence: on a list whose names are already distinct, the fold only appends -/
def msnoc : DepMap → Str → Dep → DepMap
  | .MNil, k, d => .MCons k d .MNil
  | .MCons k2 d2 tl, k, d => .MCons k2 d2 (msnoc tl k d)
theorem mset_fresh (m : DepMap) (k : Str) (d : Dep) (h : mhas m k = false) : mset m k d = msnoc m k d := by
  induction m with
  | MNil => simp [mset, msnoc]
  | MCons k2 v tl ih =>
    simp only [mhas, Bool.or_eq_false_iff] at h
    simp [mset, msnoc, h.1, ih h.2]
theorem mkeys_msnoc (m : DepMap) (k : Str) (d : Dep) : mkeys (msnoc m k d) = mkeys m ++ [k] := by
  induction m with
  | MNil => simp [msnoc, mkeys]
  | MCons k2 v tl ih => simp [msnoc, mkeys, ih]
theorem mvalues_msnoc (m : DepMap) (k : Str) (d : Dep) : mvalues (msnoc m k d) = dsnoc (mvalues m) d := by
  induction m with
  | MNil => simp [msnoc, mvalues, dsnoc]
  | MCons k2 v tl ih => simp [msnoc, mvalues, dsnoc, ih]
theorem fold_nodup (l : DepList) (m : DepMap) (h : (mkeys m ++ (dlToList l).map (·.name)).Nodup) :
    mvalues (resolveFold l m) = dappend (mvalues m) l := by
  induction l generalizing m with
  | DLNil => simp [resolveFold, dappend_nil]
  | DLCons d r ih =>
    simp only [dlToList, List.map_cons] at h
    have hd : mhas m d.name = false := by
      cases hc : mhas m d.name with
      | false => rfl
      | true =>
        exfalso
        have := (mhas_iff _ _).mp hc
        have h2 := List.nodup_append.mp h
        exact h2.2.2 _ this _ (by simp) rfl
    have hs : resolveStep m d = msnoc m d.name d := by
      simp [resolveStep, hd, mset_fresh]
    rw [resolveFold, hs, ih, mvalues_msnoc, dsnoc_eq, dappend_assoc]
    · rfl
    · rw [mkeys_msnoc]; simpa [List.append_assoc] using h
/-- resolution is idempotent -/
theorem C10_resolve_idem (deps : DepList) : resolve (resolve deps) = resolve deps := by
  have := fold_nodup (resolve deps) .MNil (by simpa [mkeys] using C10_resolve_names_nodup deps)
  rw [resolve.eq_1 (resolve deps), this]
  simp [mvalues, dappend_nil_left]

/-! ### collection: document order, every nesting level, independent of where the objects sit -/
theorem collectL_nil (acc : DepList) : collectL .NNil acc = acc := by rw [collectL]
theorem collectL_cons (c : Node) (r : NodeList) (acc : DepList) :
    collectL (.NCons c r) acc = collectL r (collectStep acc c) := by rw [collectL]
theorem collectStep_md (acc : DepList) (d : Dep) : collectStep acc (.Md d) = if d.isdep then dsnoc acc d else acc := by
  rw [collectStep]
theorem collectStep_el (acc : DepList) (n : Str) (ws : Bool) (a : AttrList) (kids : NodeList) :
    collectStep acc (.El n ws a kids) = dappend acc (collectL kids .DLNil) := by rw [collectStep]
theorem collectStep_other (acc : DepList) (c : Node) (hm : ∀ d, c ≠ .Md d) (he : ∀ n ws a k, c ≠ .El n ws a k) :
    collectStep acc c = acc := by
  rw [collectStep]
  · intro d hd; exact hm d hd
  · intro n ws a k hd; exact he n ws a k hd

theorem collectStep_acc (c : Node) (acc : DepList) : collectStep acc c = dappend acc (collectStep .DLNil c) := by
  cases c with
  | Md d =>
    rw [collectStep_md, collectStep_md]
    cases d.isdep
    · simp [dappend_nil]
    · simp [dsnoc_eq, dappend_nil_left]
  | El n ws a kids => rw [collectStep_el, collectStep_el, dappend_nil_left]
  | Txt s => rw [collectStep_other _ _ (by simp) (by simp), collectStep_other _ _ (by simp) (by simp), dappend_nil]
  | Raw s => rw [collectStep_other _ _ (by simp) (by simp), collectStep_other _ _ (by simp) (by simp), dappend_nil]
  | Rp s i => rw [collectStep_other _ _ (by simp) (by simp), collectStep_other _ _ (by simp) (by simp), dappend_nil]
  | Ob i => rw [collectStep_other _ _ (by simp) (by simp), collectStep_other _ _ (by simp) (by simp), dappend_nil]

theorem C10_collect_acc (l : NodeList) (acc : DepList) : collectL l acc = dappend acc (collectL l .DLNil) :=
  match l with
  | .NNil => by rw [collectL_nil, collectL_nil, dappend_nil]
  | .NCons c r => by
    rw [collectL_cons, collectL_cons, C10_collect_acc r (collectStep acc c), C10_collect_acc r (collectStep .DLNil c),
      collectStep_acc c acc, dappend_assoc]
theorem collectL_cons_nil (c : Node) (r : NodeList) :
    collectL (.NCons c r) .DLNil = dappend (collectStep .DLNil c) (collectL r .DLNil) := by
  rw [collectL_cons, C10_collect_acc]
theorem C10_collect_append (a b : NodeList) : collectL (nappend a b) .DLNil = dappend (collectL a .DLNil) (collectL b .DLNil) :=
  match a with
  | .NNil => by rw [nappend, collectL_nil, dappend_nil_left]
  | .NCons c r => by
    rw [nappend, collectL_cons_nil, collectL_cons_nil, C10_collect_append r b, dappend_assoc]
theorem C10_collect_dep (d : Dep) (r : NodeList) (h : d.isdep = true) :
    dlToList (collectL (.NCons (.Md d) r) .DLNil) = d :: dlToList (collectL r .DLNil) := by
  rw [collectL_cons_nil, collectStep_md, if_pos h, dappend_toList]
  simp [dsnoc, dlToList]
theorem C10_collect_tag (n : Str) (ws : Bool) (a : AttrList) (kids r : NodeList) :
    dlToList (collectL (.NCons (.El n ws a kids) r) .DLNil) = dlToList (collectL kids .DLNil) ++ dlToList (collectL r .DLNil) := by
  rw [collectL_cons_nil, collectStep_el, dappend_toList, dappend_nil_left]
theorem C10_collect_other (c : Node) (r : NodeList) (hm : ∀ d, c ≠ .Md d) (he : ∀ n ws a k, c ≠ .El n ws a k) :
    collectL (.NCons c r) .DLNil = collectL r .DLNil := by
  rw [collectL_cons, collectStep_other _ _ hm he]
/-- with dedup disabled nothing is dropped or reordered -/
theorem C10_dedup_false (l : NodeList) : depsOf l false = collectL l .DLNil := by
  simp [depsOf]
/-- the reported list depends only on the collected sequence, i.e. only on document order -/
theorem C10_placement_independent (l1 l2 : NodeList) (h : collectL l1 .DLNil = collectL l2 .DLNil) (b : Bool) :
    depsOf l1 b = depsOf l2 b := by
  simp [depsOf, h]

#print axioms C10_resolve_names_nodup
#print axioms C10_resolve_order
#print axioms C10_resolve_is_max_earliest
#print axioms C10_resolve_max
#print axioms C10_resolve_subset
#print axioms C10_resolve_complete
#print axioms C10_resolve_idem
#print axioms C10_collect_acc
#print axioms C10_collect_append
#print axioms C10_collect_dep
#print axioms C10_collect_tag
#print axioms C10_collect_other
#print axioms C10_dedup_false
#print axioms C10_placement_independent

end HV
