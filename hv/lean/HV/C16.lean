/-
C16 — class/style helpers and css() act as token-set and declaration algebra.
Statements fixed; proofs to be supplied.  `addClassAttrs`, `removeClassAttrs`, `hasClassAttrs`, `classToks`,
`classText`, `addStyleAttrs`, `cssSpec`, `cssFold`, `cssStep`, `cssKey`, `sremove`, `smem` are generated L1 specs (HV.Spec);
`splitWs`, `joinSp`, `stripWs`, `isWs`, `camelHyphen`, `lowerStr` are in HV/PrimL.lean.
-/
import HV.Spec
import HV.Esc
namespace HV

/-- a class token as the statement quantifies it: non-empty and free of whitespace -/
def okTok (c : Str) : Prop := c ≠ [] ∧ ∀ x ∈ c, isWs x = false

def toksOf : StrList → List Str
  | .SNil => []
  | .SCons x r => x :: toksOf r

/-! ### helper lemmas: splitAux -/
theorem isWs_space : isWs 32 = true := by decide

/-- reading a run of non-whitespace characters extends the current token -/
theorem splitAux_nows (t : Str) (ht : ∀ x ∈ t, isWs x = false) (s : Str) :
    ∀ cur, splitAux (t ++ s) cur = splitAux s (cur ++ t) := by
  induction t with
  | nil => intro cur; simp
  | cons x t ih =>
    intro cur
    have hx : isWs x = false := ht x (by simp)
    have ht' : ∀ y ∈ t, isWs y = false := fun y hy => ht y (by simp [hy])
    simp only [List.cons_append, splitAux, hx, Bool.false_eq_true, ↓reduceIte]
    rw [ih ht']; simp

theorem splitAux_ws (w : Nat) (hw : isWs w = true) (s cur : Str) :
    splitAux (w :: s) cur = if cur.isEmpty then splitAux s [] else .SCons cur (splitAux s []) := by
  simp [splitAux, hw]

theorem splitAux_nil (cur : Str) : splitAux [] cur = if cur.isEmpty then .SNil else .SCons cur .SNil := by
  simp [splitAux]

theorem splitAux_tok (c : Str) (hc : okTok c) : splitAux c [] = .SCons c .SNil := by
  have h := splitAux_nows c hc.2 [] []
  simp only [List.append_nil, List.nil_append] at h
  rw [h, splitAux_nil]
  have : c.isEmpty = false := by simpa [List.isEmpty_iff] using hc.1
  simp [this]

theorem splitAux_toks_ok (s : Str) : ∀ cur, (∀ x ∈ cur, isWs x = false) →
    ∀ t ∈ toksOf (splitAux s cur), okTok t := by
  induction s with
  | nil =>
    intro cur hcur t ht
    rw [splitAux_nil] at ht
    by_cases he : cur.isEmpty = true
    · simp [he, toksOf] at ht
    · rw [if_neg he] at ht
      simp [toksOf] at ht; subst ht
      exact ⟨by simpa [List.isEmpty_iff] using he, hcur⟩
  | cons c cs ih =>
    intro cur hcur t ht
    by_cases hw : isWs c = true
    · rw [splitAux_ws c hw] at ht
      by_cases he : cur.isEmpty = true
      · rw [if_pos he] at ht
        exact ih [] (by simp) t ht
      · rw [if_neg he] at ht
        simp [toksOf] at ht
        rcases ht with rfl | ht
        · exact ⟨by simpa [List.isEmpty_iff] using he, hcur⟩
        · exact ih [] (by simp) t ht
    · have hw' : isWs c = false := by simpa using hw
      simp only [splitAux, hw', Bool.false_eq_true, ↓reduceIte] at ht
      apply ih (cur ++ [c]) _ t (by simpa using ht)
      intro x hx
      simp at hx
      rcases hx with hx | rfl
      · exact hcur x hx
      · exact hw'

theorem splitAux_append_tok (c : Str) (hc : okTok c) (s : Str) :
    ∀ cur, toksOf (splitAux (s ++ [32] ++ c) cur) = toksOf (splitAux s cur) ++ [c] := by
  induction s with
  | nil =>
    intro cur
    simp only [List.nil_append, List.singleton_append]
    rw [splitAux_ws 32 isWs_space, splitAux_tok c hc, splitAux_nil]
    by_cases he : cur.isEmpty = true <;> simp [he, toksOf]
  | cons x s ih =>
    intro cur
    simp only [List.cons_append]
    by_cases hw : isWs x = true
    · rw [splitAux_ws x hw, splitAux_ws x hw]
      have := ih []
      simp only [List.append_assoc, List.singleton_append] at this
      by_cases he : cur.isEmpty = true <;> simp [he, toksOf, this]
    · have hw' : isWs x = false := by simpa using hw
      have := ih (cur ++ [x])
      simp only [List.append_assoc, List.singleton_append] at this
      simp [splitAux, hw', this]

/-! ### whitespace tokens -/
theorem splitWs_toks_ok (s : Str) : ∀ t ∈ toksOf (splitWs s), okTok t :=
  splitAux_toks_ok s [] (by simp)

/-- split() of tokens joined by single spaces gives the tokens back -/
theorem splitWs_joinSp (l : StrList) (h : ∀ t ∈ toksOf l, okTok t) : splitWs (joinSp l) = l := by
  induction l with
  | SNil => simp [joinSp, splitWs, splitAux]
  | SCons x r ih =>
    have hx : okTok x := h x (by simp [toksOf])
    have hr : ∀ t ∈ toksOf r, okTok t := fun t ht => h t (by simp [toksOf, ht])
    cases r with
    | SNil => simp only [joinSp, splitWs]; exact splitAux_tok x hx
    | SCons y r' =>
      have ih' := ih hr
      simp only [splitWs] at ih' ⊢
      simp only [joinSp] at ih' ⊢
      rw [List.append_assoc, splitAux_nows x hx.2]
      simp only [List.nil_append, List.singleton_append]
      rw [splitAux_ws 32 isWs_space]
      have : x.isEmpty = false := by simpa [List.isEmpty_iff] using hx.1
      simp only [this]
      simp [ih']

/-- appending " c" to a string appends the token c -/
theorem splitWs_append_tok (s c : Str) (hc : okTok c) : toksOf (splitWs (s ++ [32] ++ c)) = toksOf (splitWs s) ++ [c] :=
  splitAux_append_tok c hc s []

theorem splitWs_prepend_tok (s c : Str) (hc : okTok c) : toksOf (splitWs (c ++ [32] ++ s)) = c :: toksOf (splitWs s) := by
  simp only [splitWs]
  rw [List.append_assoc, splitAux_nows c hc.2]
  simp only [List.nil_append, List.singleton_append]
  rw [splitAux_ws 32 isWs_space]
  have : c.isEmpty = false := by simpa [List.isEmpty_iff] using hc.1
  simp [this, toksOf]

theorem splitWs_single (c : Str) (hc : okTok c) : toksOf (splitWs c) = [c] := by
  simp [splitWs, splitAux_tok c hc, toksOf]

theorem smem_iff (l : StrList) (x : Str) : smem l x = true ↔ x ∈ toksOf l := by
  induction l with
  | SNil => simp [smem, toksOf]
  | SCons h t ih =>
    simp only [smem, toksOf, Bool.or_eq_true, beq_iff_eq, List.mem_cons, ih]
    constructor
    · rintro (h | h); exact Or.inl h.symm; exact Or.inr h
    · rintro (h | h); exact Or.inl h.symm; exact Or.inr h

theorem sremove_toks (l : StrList) (x : Str) : toksOf (sremove l x) = (toksOf l).filter (· != x) := by
  induction l with
  | SNil => simp [sremove, toksOf]
  | SCons h t ih =>
    simp only [sremove, toksOf]
    by_cases e : h = x
    · simp [e, ih]
    · simp [e, ih, toksOf]

theorem dropWsLeft_ok (c : Str) (hc : ∀ x ∈ c, isWs x = false) : dropWsLeft c = c := by
  cases c with
  | nil => rfl
  | cons x xs => simp [dropWsLeft, hc x (by simp)]

theorem stripWs_okTok (c : Str) (hc : okTok c) : stripWs c = c := by
  unfold stripWs
  rw [dropWsLeft_ok c hc.2, dropWsLeft_ok c.reverse (by intro x hx; exact hc.2 x (by simpa using hx))]
  simp

/-- the class attribute holds a plain string (or is absent): the case the statement speaks about.
(With an HTML()-marked class value the added token is stored attribute-escaped, see C03.) -/
def plainClass (a : AttrList) : Prop := ahas a ([99,108,97,115,115] : Str) = false ∨ ∃ s, aget a ([99,108,97,115,115] : Str) = .Plain s

/-! ### helper lemmas: attribute maps -/
theorem ahas_aset_same (a : AttrList) (k : Str) (v : AttrVal) : ahas (aset a k v) k = true := by
  induction a with
  | ANil => simp [aset, ahas]
  | ACons k2 v2 tl ih =>
    simp only [aset]
    by_cases e : k2 = k
    · simp [e, ahas]
    · simp [e, ahas, ih]

theorem aget_aset_same (a : AttrList) (k : Str) (v : AttrVal) : aget (aset a k v) k = v := by
  induction a with
  | ANil => simp [aset, aget]
  | ACons k2 v2 tl ih =>
    simp only [aset]
    by_cases e : k2 = k
    · simp [e, aget]
    · simp [e, aget, ih]

theorem ahas_aset_ne (a : AttrList) (k k' : Str) (v : AttrVal) (h : k' ≠ k) : ahas (aset a k v) k' = ahas a k' := by
  induction a with
  | ANil => simp [aset, ahas, Ne.symm h]
  | ACons k2 v2 tl ih =>
    simp only [aset]
    by_cases e : k2 = k
    · simp [e, ahas]
    · simp [e, ahas, ih]

theorem aget_aset_ne (a : AttrList) (k k' : Str) (v : AttrVal) (h : k' ≠ k) : aget (aset a k v) k' = aget a k' := by
  induction a with
  | ANil => simp [aset, aget, Ne.symm h]
  | ACons k2 v2 tl ih =>
    simp only [aset]
    by_cases e : k2 = k
    · subst e; simp [aget, Ne.symm h]
    · simp [e, aget, ih]

theorem mergeCall_two (cfg : Cfg) (k : Str) (x y : AttrArg) :
    mergeCall cfg (two k x y) .DNil = updStep cfg (updStep cfg .ANil k x) k y := by
  simp [mergeCall, two, callDicts, dictNonEmpty, mergeDicts, mergeDict]

theorem mergeCall_one (cfg : Cfg) (k : Str) (x : AttrArg) :
    mergeCall cfg (.DDCons (.DCons k x .DNil) .DDNil) .DNil = updStep cfg .ANil k x := by
  simp [mergeCall, callDicts, dictNonEmpty, mergeDicts, mergeDict]

theorem normName_class : normName ([99,108,97,115,115] : Str) = [99,108,97,115,115] := by decide


theorem aupdate_one (a : AttrList) (k : Str) (v : AttrVal) : aupdate a (.ACons k v .ANil) = aset a k v := by
  simp [aupdate]

/-- what add_class stores, for a plain (or absent) class value -/
theorem addClass_plain (cfg : Cfg) (a : AttrList) (c : Str) (p : Bool) (hp : plainClass a) :
    addClassAttrs cfg a c p = aset a ([99,108,97,115,115] : Str) (.Plain
      (if ahas a ([99,108,97,115,115] : Str) then
        (if p then c ++ [32] ++ classText a else classText a ++ [32] ++ c) else c)) := by
  cases hh : ahas a ([99,108,97,115,115] : Str)
  · cases p <;>
      simp [addClassAttrs, mergeCall_two, optArg, hh, updStep, normVal, normName_class, ahas, aset, aupdate]
  · obtain ⟨s, hs⟩ : ∃ s, aget a ([99,108,97,115,115] : Str) = .Plain s := by
      rcases hp with h | h
      · simp [hh] at h
      · exact h
    cases p <;>
      simp [addClassAttrs, mergeCall_two, optArg, hh, hs, updStep, normVal, normName_class, ahas, aset, aget,
        aupdate, joinAV, classText, strOf]

theorem classText_aset_plain (a : AttrList) (s : Str) :
    classText (aset a ([99,108,97,115,115] : Str) (.Plain s)) = s := by
  simp [classText, ahas_aset_same, aget_aset_same, strOf]

theorem classText_nohas (a : AttrList) (h : ahas a ([99,108,97,115,115] : Str) = false) : classText a = [] := by
  simp [classText, h]

theorem splitWs_nil : splitWs [] = .SNil := by simp [splitWs, splitAux]

/-! ### add_class -/
/-- tokens after add_class: the token is appended (or placed first with prepend), others undisturbed -/
theorem C16_add_class_tokens (cfg : Cfg) (a : AttrList) (c : Str) (p : Bool) (hc : okTok c) (hp : plainClass a) :
    toksOf (classToks (addClassAttrs cfg a c p)) = (if p then c :: toksOf (classToks a) else toksOf (classToks a) ++ [c]) := by
  rw [addClass_plain cfg a c p hp]
  simp only [classToks, classText_aset_plain]
  cases hh : ahas a ([99,108,97,115,115] : Str)
  · simp only [Bool.false_eq_true, ↓reduceIte, classText_nohas a hh, splitWs_nil, toksOf, splitWs_single c hc]
    cases p <;> simp
  · cases p
    · simp only [Bool.false_eq_true, ↓reduceIte]
      exact splitWs_append_tok _ c hc
    · simp only [↓reduceIte]
      exact splitWs_prepend_tok _ c hc

/-- has_class is whitespace-token membership -/
theorem C16_has_class_membership (a : AttrList) (c : Str) : hasClassAttrs a c = true ↔ c ∈ toksOf (classToks a) := by
  unfold hasClassAttrs classToks
  by_cases h : classText a = []
  · simp [h, splitWs_nil, toksOf]
  · simp [h, smem_iff]

theorem C16_has_after_add (cfg : Cfg) (a : AttrList) (c : Str) (p : Bool) (hc : okTok c) (hp : plainClass a) :
    hasClassAttrs (addClassAttrs cfg a c p) c = true := by
  rw [C16_has_class_membership, C16_add_class_tokens cfg a c p hc hp]
  cases p <;> simp

theorem C16_add_keeps_others (cfg : Cfg) (a : AttrList) (c t : Str) (p : Bool) (hc : okTok c) (hp : plainClass a) (ht : t ≠ c) :
    hasClassAttrs (addClassAttrs cfg a c p) t = hasClassAttrs a t := by
  rw [Bool.eq_iff_iff, C16_has_class_membership, C16_has_class_membership, C16_add_class_tokens cfg a c p hc hp]
  cases p <;> simp [ht]

/-- whatever the two class arguments are, one call contributes at most the `class` key -/
theorem addClass_shape (cfg : Cfg) (a : AttrList) (c : Str) (p : Bool) :
    ∃ v, addClassAttrs cfg a c p = aset a ([99,108,97,115,115] : Str) v := by
  cases hh : ahas a ([99,108,97,115,115] : Str)
  · cases p <;>
      simp [addClassAttrs, mergeCall_two, optArg, hh, updStep, normVal, normName_class, ahas, aset, aupdate] <;>
      exact ⟨_, rfl⟩
  · cases hs : aget a ([99,108,97,115,115] : Str) <;> cases p <;>
      simp [addClassAttrs, mergeCall_two, optArg, hh, hs, updStep, normVal, normName_class, ahas, aset, aget,
        aupdate] <;>
      exact ⟨_, rfl⟩

/-- add_class touches no other attribute -/
theorem C16_add_class_frame (cfg : Cfg) (a : AttrList) (c : Str) (p : Bool) (k : Str) (hk : k ≠ ([99,108,97,115,115] : Str)) :
    ahas (addClassAttrs cfg a c p) k = ahas a k ∧ aget (addClassAttrs cfg a c p) k = aget a k := by
  obtain ⟨v, hv⟩ := addClass_shape cfg a c p
  rw [hv]
  exact ⟨ahas_aset_ne a _ k v hk, aget_aset_ne a _ k v hk⟩


/-! ### remove_class -/

/-- the keys of an attribute map, in order -/
def akeys : AttrList → List Str
  | .ANil => []
  | .ACons k _ tl => k :: akeys tl

/-- `class` occurs at most once as a key.  Every Python dict satisfies this (keys are unique); the generated sort
`AttrList` is a free association list, and `adel` (dict.pop) removes only the first binding, so the remove_class
statements need it. -/
def classOnce (a : AttrList) : Prop := ahas (adel a ([99,108,97,115,115] : Str)) ([99,108,97,115,115] : Str) = false

theorem ahas_iff_mem (a : AttrList) (k : Str) : ahas a k = true ↔ k ∈ akeys a := by
  induction a with
  | ANil => simp [ahas, akeys]
  | ACons k2 v tl ih =>
    simp only [ahas, akeys, Bool.or_eq_true, beq_iff_eq, List.mem_cons, ih]
    constructor
    · rintro (h | h); exact Or.inl h.symm; exact Or.inr h
    · rintro (h | h); exact Or.inl h.symm; exact Or.inr h

theorem ahas_adel_of_nodup (a : AttrList) (k : Str) (h : (akeys a).Nodup) : ahas (adel a k) k = false := by
  induction a with
  | ANil => simp [adel, ahas]
  | ACons k2 v tl ih =>
    simp only [akeys, List.nodup_cons] at h
    simp only [adel]
    by_cases e : k2 = k
    · subst e
      simp only [beq_self_eq_true, ↓reduceIte]
      cases hh : ahas tl k2
      · rfl
      · exact absurd ((ahas_iff_mem tl k2).1 hh) h.1
    · simp [e, ahas, ih h.2]

/-- distinct keys (the dict invariant) give `classOnce` -/
theorem classOnce_of_nodup (a : AttrList) (h : (akeys a).Nodup) : classOnce a := ahas_adel_of_nodup a _ h

theorem toksOf_eq_nil (l : StrList) (h : toksOf l = []) : l = .SNil := by
  cases l with
  | SNil => rfl
  | SCons x r => simp [toksOf] at h

theorem snonempty_false (l : StrList) (h : snonempty l = false) : l = .SNil := by
  cases l with
  | SNil => rfl
  | SCons x r => simp [snonempty] at h

theorem sremove_splitWs_ok (s c : Str) : ∀ t ∈ toksOf (sremove (splitWs s) c), okTok t := by
  intro t ht
  rw [sremove_toks] at ht
  exact splitWs_toks_ok s t (List.mem_filter.1 ht).1

/-- what remove_class computes, branch by branch -/
theorem removeClass_eq (cfg : Cfg) (a : AttrList) (c : Str) (hc : okTok c) (hne : classText a ≠ []) :
    removeClassAttrs cfg a c =
      (if snonempty (sremove (splitWs (classText a)) c) then
        aset a ([99,108,97,115,115] : Str) (.Plain (joinSp (sremove (splitWs (classText a)) c)))
      else adel a ([99,108,97,115,115] : Str)) := by
  have hc1 : (c == ([] : Str)) = false := by simpa using hc.1
  have hne1 : (classText a == ([] : Str)) = false := by simpa using hne
  unfold removeClassAttrs
  simp only [hc1, hne1, Bool.false_eq_true, ↓reduceIte, stripWs_okTok c hc, mergeCall_one]
  simp [updStep, normVal, normName_class, ahas, aset, aupdate]

-- STATEMENT CHANGED: hypothesis `hu : classOnce a` added.  As originally stated (no hypothesis on the key list) the
-- theorem is false: `AttrList` admits duplicate keys and `adel` drops only the first binding.  Counterexample
-- (`C16_remove_class_cex` below): a = [class ↦ "x", class ↦ "y"], c = "x" gives tokens ["y"] after removal but
-- `filter (· != "x") ["x"] = []`.  `classOnce` holds for every real dict (`classOnce_of_nodup`).
/-- removes every occurrence of exactly that token and keeps the others in order -/
theorem C16_remove_class_tokens (cfg : Cfg) (a : AttrList) (c : Str) (hc : okTok c) (hu : classOnce a) :
    toksOf (classToks (removeClassAttrs cfg a c)) = (toksOf (classToks a)).filter (· != c) := by
  by_cases hne : classText a = []
  · have hc1 : (c == ([] : Str)) = false := by simpa using hc.1
    have : removeClassAttrs cfg a c = a := by simp [removeClassAttrs, hne]
    rw [this]; simp [classToks, hne, splitWs_nil, toksOf]
  · rw [removeClass_eq cfg a c hc hne]
    cases hs : snonempty (sremove (splitWs (classText a)) c)
    · simp only [Bool.false_eq_true, ↓reduceIte]
      have h0 := snonempty_false _ hs
      have h1 : classText (adel a ([99,108,97,115,115] : Str)) = [] := classText_nohas _ hu
      have h2 := sremove_toks (splitWs (classText a)) c
      rw [h0] at h2
      simp only [classToks, h1, splitWs_nil]
      exact h2
    · simp only [↓reduceIte, classToks, classText_aset_plain]
      rw [splitWs_joinSp _ (sremove_splitWs_ok _ c), sremove_toks]

-- STATEMENT CHANGED: hypothesis `hu : classOnce a` added; false without it for the same reason
-- (a = [class ↦ "x", class ↦ "y"], c = "x": the second binding survives `adel`).
/-- drops the attribute when no token remains -/
theorem C16_remove_drops_attr (cfg : Cfg) (a : AttrList) (c : Str) (hc : okTok c) (hu : classOnce a)
    (hall : ∀ t ∈ toksOf (classToks a), t = c) (hne : classText a ≠ []) :
    ahas (removeClassAttrs cfg a c) ([99,108,97,115,115] : Str) = false := by
  rw [removeClass_eq cfg a c hc hne]
  have h2 : toksOf (sremove (splitWs (classText a)) c) = [] := by
    rw [sremove_toks, List.filter_eq_nil_iff]
    intro t ht
    simp [hall t ht]
  rw [toksOf_eq_nil _ h2]
  simp only [snonempty, Bool.false_eq_true, ↓reduceIte]
  exact hu

-- STATEMENT CHANGED: hypothesis `hu : classOnce a` added; false without it
-- (a = [class ↦ "x", class ↦ "x"], c = "x": the result is [class ↦ "x"], which still has the class).
theorem C16_not_has_after_remove (cfg : Cfg) (a : AttrList) (c : Str) (hc : okTok c) (hu : classOnce a) :
    hasClassAttrs (removeClassAttrs cfg a c) c = false := by
  rw [Bool.eq_false_iff]
  intro h
  rw [C16_has_class_membership, C16_remove_class_tokens cfg a c hc hu] at h
  simp at h

/-- the original (hypothesis-free) remove_class statements fail on an association list with a repeated `class` key -/
theorem C16_remove_class_cex (cfg : Cfg) :
    let x : Str := [120]
    let y : Str := [121]
    let cls : Str := [99,108,97,115,115]
    let a : AttrList := .ACons cls (.Plain x) (.ACons cls (.Plain y) .ANil)
    let b : AttrList := .ACons cls (.Plain x) (.ACons cls (.Plain x) .ANil)
    okTok x ∧
    toksOf (classToks (removeClassAttrs cfg a x)) ≠ (toksOf (classToks a)).filter (· != x) ∧
    ((∀ t ∈ toksOf (classToks a), t = x) ∧ classText a ≠ [] ∧ ahas (removeClassAttrs cfg a x) cls = true) ∧
    hasClassAttrs (removeClassAttrs cfg b x) x = true := by
  intro x y cls a b
  have ea : removeClassAttrs cfg a x = .ACons cls (.Plain y) .ANil := by rfl
  have eb : removeClassAttrs cfg b x = .ACons cls (.Plain x) .ANil := by rfl
  rw [ea, eb]
  refine ⟨⟨by decide, by decide⟩, ?_, ⟨?_, ?_, ?_⟩, ?_⟩ <;> decide

/-! ### css() -/
def cssItems : CssArgs → List (Str × CssVal)
  | .KNil => []
  | .KCons k v tl => (k, v) :: cssItems tl
def isCssNone : CssVal → Bool | .CssNone => true | _ => false

/-- one `name:value;` (followed by the separator) per non-None argument, in order -/
theorem C16_css_shape (kw : CssArgs) (res collapse : Str) :
    cssFold kw res collapse = res ++ ((cssItems kw).filter (fun p => !isCssNone p.2)).flatMap
      (fun p => cssKey p.1 ++ [58] ++ cssValText p.2 ++ [59] ++ collapse) := by
  induction kw generalizing res with
  | KNil => simp [cssFold, cssItems]
  | KCons k v tl ih =>
    rw [cssFold, ih]
    cases v <;> simp [cssStep, cssItems, isCssNone, List.append_assoc]

/-- returns None exactly when nothing remains (for the default separator) -/
theorem C16_css_none_iff (kw : CssArgs) :
    cssSpec [] kw = .NoStr ↔ ((cssItems kw).filter (fun p => !isCssNone p.2)) = [] := by
  simp only [cssSpec, C16_css_shape]
  cases hf : (cssItems kw).filter (fun p => !isCssNone p.2) with
  | nil => simp
  | cons p r => simp

/-- `res` is empty or ends in a semicolon -/
def semiEnd (r : Str) : Prop := r = [] ∨ ∃ x, r = x ++ [59]

theorem cssFold_semiEnd (kw : CssArgs) : ∀ res, semiEnd res → semiEnd (cssFold kw res []) := by
  induction kw with
  | KNil => intro res h; simpa [cssFold] using h
  | KCons k v tl ih =>
    intro res h
    rw [cssFold]
    apply ih
    cases v <;> first | exact h | exact Or.inr ⟨_, by simp only [cssStep, List.append_nil]; rfl⟩

/-- with the default separator the output always ends in a semicolon, so add_style accepts it -/
theorem C16_css_accepted_by_add_style (kw : CssArgs) (r : Str) (h : cssSpec [] kw = .SomeStr r) : endsWith r [59] = true := by
  have hs := cssFold_semiEnd kw [] (Or.inl rfl)
  simp only [cssSpec] at h
  by_cases he : cssFold kw [] [] = []
  · simp [he] at h
  · have he1 : (cssFold kw [] [] == ([] : Str)) = false := by simpa using he
    simp only [he1, Bool.false_eq_true, ↓reduceIte, OptStr.SomeStr.injEq] at h
    subst h
    rcases hs with h0 | ⟨x, hx⟩
    · exact absurd h0 he
    · rw [hx, endsWith, List.isSuffixOf_iff_suffix]
      exact ⟨x, rfl⟩

theorem repl1_mem (c : Nat) (v s : Str) : ∀ x ∈ repl1 c v s, x ∈ v ∨ (x ∈ s ∧ x ≠ c) := by
  induction s with
  | nil => simp [repl1]
  | cons y ys ih =>
    intro x hx
    simp only [repl1] at hx
    split at hx
    · simp only [List.mem_append] at hx
      rcases hx with hx | hx
      · exact Or.inl hx
      · rcases ih x hx with h | h
        · exact Or.inl h
        · exact Or.inr ⟨by simp [h.1], h.2⟩
    · rename_i hne
      simp only [List.mem_cons] at hx
      rcases hx with rfl | hx
      · exact Or.inr ⟨by simp, hne⟩
      · rcases ih x hx with h | h
        · exact Or.inl h
        · exact Or.inr ⟨by simp [h.1], h.2⟩

/-- underscores and camelCase become hyphenated lower case: no underscore and no ASCII capital remains -/
theorem C16_cssKey_shape (k : Str) : 95 ∉ cssKey k ∧ ∀ x ∈ cssKey k, ¬ (65 ≤ x ∧ x ≤ 90) := by
  unfold cssKey
  rw [replaceAll_single]
  constructor
  · intro h
    rcases repl1_mem _ _ _ _ h with h | h
    · simp at h
    · exact h.2 rfl
  · intro x hx
    rcases repl1_mem _ _ _ _ hx with h | h
    · simp at h; omega
    · have := h.1
      simp only [lowerStr, List.mem_map] at this
      obtain ⟨y, _, hy⟩ := this
      split at hy <;> omega

end HV
