/-
C14 — child lists hold only normalised nodes after any sequence of operations.
Statements fixed; proofs to be supplied.  `flatInto`, `flatStep`, `flatC`, `conv`, `convStep`, `mapConvStep`,
`anyBadAtom`, `toNodes`, `allNodesC`, `ofNodes`, `nodes`, `bad`, `iterArg`, `isNodeC`, `isNumC`, `cappend`, `csnoc`,
`nappend`, `nlen`, `ninsertAt`, `ninsert` are generated L1 specs (HV.Spec).
-/
import HV.Spec
namespace HV

/-! ### equation lemmas -/
theorem csnoc_nil (c : Child) : csnoc .CNil c = .CCons c .CNil := by rw [csnoc]
theorem csnoc_cons (h : Child) (t : ChildList) (c : Child) : csnoc (.CCons h t) c = .CCons h (csnoc t c) := by rw [csnoc]
theorem cappend_nil_left (b : ChildList) : cappend .CNil b = b := by rw [cappend]
theorem cappend_cons (h : Child) (t b : ChildList) : cappend (.CCons h t) b = .CCons h (cappend t b) := by rw [cappend]
theorem flatInto_nil (acc : ChildList) : flatInto .CNil acc = acc := by rw [flatInto]
theorem flatInto_cons (c : Child) (r acc : ChildList) : flatInto (.CCons c r) acc = flatInto r (flatStep acc c) := by
  rw [flatInto]
theorem flatStep_seq (acc : ChildList) (k : Int) (items : ChildList) :
    flatStep acc (.CSeq k items) = flatInto items acc := by rw [flatStep]
theorem flatStep_none (acc : ChildList) : flatStep acc .CNone = acc := by rw [flatStep]
theorem flatStep_atom (acc : ChildList) (c : Child) (h1 : c ≠ .CNone) (h2 : ∀ k items, c ≠ .CSeq k items) :
    flatStep acc c = csnoc acc c := by
  rw [flatStep]
  · intro k items h; exact h2 k items h
  · exact h1
theorem mapConvStep_nil : mapConvStep .CNil = .CNil := by rw [mapConvStep]
theorem mapConvStep_cons (c : Child) (r : ChildList) :
    mapConvStep (.CCons c r) = .CCons (convStep c) (mapConvStep r) := by rw [mapConvStep]
theorem anyBadAtom_nil : anyBadAtom .CNil = false := by rw [anyBadAtom]
theorem anyBadAtom_cons (c : Child) (r : ChildList) :
    anyBadAtom (.CCons c r) = (((!(isNumC c)) && (!(isNodeC c))) || (anyBadAtom r)) := by rw [anyBadAtom]
theorem toNodes_nil : toNodes .CNil = .NNil := by rw [toNodes]
theorem toNodes_cons (c : Child) (r : ChildList) : toNodes (.CCons c r) = .NCons (conv c) (toNodes r) := by rw [toNodes]
theorem allNodesC_nil : allNodesC .CNil = true := by rw [allNodesC]
theorem allNodesC_cons (c : Child) (r : ChildList) : allNodesC (.CCons c r) = ((isNodeC c) && (allNodesC r)) := by
  rw [allNodesC]
theorem ofNodes_nil : ofNodes .NNil = .CNil := by rw [ofNodes]
theorem ofNodes_cons (n : Node) (r : NodeList) : ofNodes (.NCons n r) = .CCons (.CNode n) (ofNodes r) := by rw [ofNodes]
theorem nappend_nil_left (b : NodeList) : nappend .NNil b = b := by rw [nappend]
theorem nappend_cons (c : Node) (r b : NodeList) : nappend (.NCons c r) b = .NCons c (nappend r b) := by rw [nappend]
theorem nlen_nil : nlen .NNil = 0 := by rw [nlen]
theorem nlen_cons (c : Node) (r : NodeList) : nlen (.NCons c r) = 1 + nlen r := by rw [nlen]
theorem ninsertAt_le (l : NodeList) (i : Int) (xs : NodeList) (h : i ≤ 0) : ninsertAt l i xs = nappend xs l := by
  rw [ninsertAt.eq_def]; simp [h]
theorem ninsertAt_nil (i : Int) (xs : NodeList) (h : 0 < i) : ninsertAt .NNil i xs = xs := by
  rw [ninsertAt]; simp [Int.not_le.mpr h]
theorem ninsertAt_cons (c : Node) (r : NodeList) (i : Int) (xs : NodeList) (h : 0 < i) :
    ninsertAt (.NCons c r) i xs = .NCons c (ninsertAt r (i - 1) xs) := by
  rw [ninsertAt]; simp [Int.not_le.mpr h]

/-! ### flattening: depth-first, left to right; lists/tuples/TagLists spliced; None dropped; everything else whole -/
theorem csnoc_eq (l : ChildList) (c : Child) : csnoc l c = cappend l (.CCons c .CNil) :=
  match l with
  | .CNil => by rw [csnoc_nil, cappend_nil_left]
  | .CCons h t => by rw [csnoc_cons, cappend_cons, csnoc_eq t c]
theorem cappend_nil (l : ChildList) : cappend l .CNil = l :=
  match l with
  | .CNil => by rw [cappend_nil_left]
  | .CCons h t => by rw [cappend_cons, cappend_nil t]
theorem cappend_assoc (a b c : ChildList) : cappend (cappend a b) c = cappend a (cappend b c) :=
  match a with
  | .CNil => by rw [cappend_nil_left, cappend_nil_left]
  | .CCons h t => by rw [cappend_cons, cappend_cons, cappend_cons, cappend_assoc t b c]

/-- flattening a one-item list is the step from the empty accumulator -/
theorem flatC_single (c : Child) : flatC (.CCons c .CNil) = flatStep .CNil c := by
  rw [flatC, flatInto_cons, flatInto_nil]

mutual
/-- _flatten_recurse appends to its accumulator exactly the flattening of its argument -/
theorem flatInto_acc : (xs : ChildList) → (acc : ChildList) → flatInto xs acc = cappend acc (flatC xs)
  | .CNil, acc => by rw [flatC, flatInto_nil, flatInto_nil, cappend_nil]
  | .CCons c r, acc => by
    have h1 := flatInto_acc r (flatStep acc c)
    have h2 := flatInto_acc r (flatStep .CNil c)
    have h3 := flatStep_acc c acc
    rw [flatInto_cons, h1, h3, flatC_single]
    rw [show flatC (.CCons c r) = flatInto r (flatStep .CNil c) from by rw [flatC, flatInto_cons], h2, cappend_assoc]
theorem flatStep_acc : (c : Child) → (acc : ChildList) → flatStep acc c = cappend acc (flatC (.CCons c .CNil))
  | .CSeq k items, acc => by
    rw [flatC_single, flatStep_seq, flatStep_seq, flatInto_acc items acc, flatC]
  | .CNone, acc => by rw [flatC_single, flatStep_none, flatStep_none, cappend_nil]
  | .CInt n, acc => by
    rw [flatC_single, flatStep_atom _ _ (by simp) (by simp), flatStep_atom _ _ (by simp) (by simp), csnoc_eq, csnoc_nil]
  | .CFloat n, acc => by
    rw [flatC_single, flatStep_atom _ _ (by simp) (by simp), flatStep_atom _ _ (by simp) (by simp), csnoc_eq, csnoc_nil]
  | .CBoolC n, acc => by
    rw [flatC_single, flatStep_atom _ _ (by simp) (by simp), flatStep_atom _ _ (by simp) (by simp), csnoc_eq, csnoc_nil]
  | .CNode n, acc => by
    rw [flatC_single, flatStep_atom _ _ (by simp) (by simp), flatStep_atom _ _ (by simp) (by simp), csnoc_eq, csnoc_nil]
  | .CBad n, acc => by
    rw [flatC_single, flatStep_atom _ _ (by simp) (by simp), flatStep_atom _ _ (by simp) (by simp), csnoc_eq, csnoc_nil]
end

/-- the flattening of a list is the first item's step followed by the flattening of the rest -/
theorem flatC_cons (c : Child) (r : ChildList) : flatC (.CCons c r) = cappend (flatStep .CNil c) (flatC r) := by
  rw [flatC, flatInto_cons, flatInto_acc]

theorem C14_flat_nil : flatC .CNil = .CNil := by rw [flatC, flatInto_nil]
/-- a nested list, tuple or TagList is spliced in place -/
theorem C14_flat_seq (k : Int) (items r : ChildList) : flatC (.CCons (.CSeq k items) r) = cappend (flatC items) (flatC r) := by
  rw [flatC_cons, flatStep_seq]; rfl
/-- None is dropped -/
theorem C14_flat_none (r : ChildList) : flatC (.CCons .CNone r) = flatC r := by
  rw [flatC_cons, flatStep_none, cappend_nil_left]
/-- anything else (strings, tags, numbers, HTML(), dependencies, even invalid objects) is kept whole, in order -/
theorem C14_flat_atom (c : Child) (r : ChildList) (h1 : c ≠ .CNone) (h2 : ∀ k items, c ≠ .CSeq k items) :
    flatC (.CCons c r) = .CCons c (flatC r) := by
  rw [flatC_cons, flatStep_atom _ _ h1 h2, csnoc_nil, cappend_cons, cappend_nil_left]
theorem C14_flat_append (a b : ChildList) : flatC (cappend a b) = cappend (flatC a) (flatC b) :=
  match a with
  | .CNil => by rw [cappend_nil_left, C14_flat_nil, cappend_nil_left]
  | .CCons c t => by
    rw [cappend_cons, flatC_cons, flatC_cons, C14_flat_append t b, cappend_assoc]

/-- an item that flattening keeps whole -/
def isAtomC (c : Child) : Bool :=
  match c with
  | .CNone => false
  | .CSeq _ _ => false
  | _ => true
def allAtoms : ChildList → Bool
  | .CNil => true
  | .CCons c r => isAtomC c && allAtoms r

theorem allAtoms_append (a b : ChildList) : allAtoms (cappend a b) = (allAtoms a && allAtoms b) :=
  match a with
  | .CNil => by rw [cappend_nil_left]; simp [allAtoms]
  | .CCons c t => by rw [cappend_cons]; simp [allAtoms, allAtoms_append t b, Bool.and_assoc]

theorem flatC_of_atoms : (l : ChildList) → allAtoms l = true → flatC l = l
  | .CNil, _ => C14_flat_nil
  | .CCons c t, h => by
    simp only [allAtoms, Bool.and_eq_true] at h
    have ht := flatC_of_atoms t h.2
    have hc := h.1
    rw [C14_flat_atom c t (by intro e; subst e; simp [isAtomC] at hc)
      (by intro k items e; subst e; simp [isAtomC] at hc), ht]

mutual
theorem allAtoms_flatC : (xs : ChildList) → allAtoms (flatC xs) = true
  | .CNil => by rw [C14_flat_nil]; simp [allAtoms]
  | .CCons c r => by
    rw [flatC_cons, ← flatC_single, allAtoms_append, allAtoms_flatC1 c, allAtoms_flatC r]; rfl
theorem allAtoms_flatC1 : (c : Child) → allAtoms (flatC (.CCons c .CNil)) = true
  | .CSeq k items => by rw [C14_flat_seq, C14_flat_nil, cappend_nil, allAtoms_flatC items]
  | .CNone => by rw [C14_flat_none, C14_flat_nil]; simp [allAtoms]
  | .CInt n => by rw [C14_flat_atom _ _ (by simp) (by simp), C14_flat_nil]; simp [allAtoms, isAtomC]
  | .CFloat n => by rw [C14_flat_atom _ _ (by simp) (by simp), C14_flat_nil]; simp [allAtoms, isAtomC]
  | .CBoolC n => by rw [C14_flat_atom _ _ (by simp) (by simp), C14_flat_nil]; simp [allAtoms, isAtomC]
  | .CNode n => by rw [C14_flat_atom _ _ (by simp) (by simp), C14_flat_nil]; simp [allAtoms, isAtomC]
  | .CBad n => by rw [C14_flat_atom _ _ (by simp) (by simp), C14_flat_nil]; simp [allAtoms, isAtomC]
end

/-- the flattening contains no None and no list: flattening twice changes nothing -/
theorem C14_flat_idem (xs : ChildList) : flatC (flatC xs) = flatC xs :=
  flatC_of_atoms (flatC xs) (allAtoms_flatC xs)

/-! ### conversion to stored nodes -/
theorem isNodeC_convStep (c : Child) (h : (isNumC c || isNodeC c) = true) : isNodeC (convStep c) = true := by
  cases c <;> simp [isNumC, isNodeC] at h <;> simp [convStep, isNumC, isNodeC]

/-- when nothing is invalid, the in-place conversion leaves only tag nodes -/
theorem C14_all_nodes (l : ChildList) (h : anyBadAtom l = false) : allNodesC (mapConvStep l) = true :=
  match l, h with
  | .CNil, _ => by rw [mapConvStep_nil, allNodesC_nil]
  | .CCons c r, h => by
    rw [anyBadAtom_cons] at h
    have hr : anyBadAtom r = false := by
      cases hb : anyBadAtom r with
      | false => rfl
      | true => rw [hb] at h; simp at h
    have hc : (isNumC c || isNodeC c) = true := by
      rw [hr] at h
      cases h1 : isNumC c <;> cases h2 : isNodeC c <;> simp [h1, h2] at h ⊢
    rw [mapConvStep_cons, allNodesC_cons, isNodeC_convStep c hc, C14_all_nodes r hr]; rfl
/-- numbers become their str() text, tag nodes are kept as they are -/
theorem C14_conv_number (c : Child) (h : isNumC c = true) : conv (convStep c) = .Txt (numText c) := by
  simp [convStep, h, conv]
theorem C14_conv_node (n : Node) : conv (convStep (.CNode n)) = n := by
  simp [convStep, isNumC, conv]

theorem mapConvStep_append (a b : ChildList) :
    mapConvStep (cappend a b) = cappend (mapConvStep a) (mapConvStep b) :=
  match a with
  | .CNil => by rw [cappend_nil_left, mapConvStep_nil, cappend_nil_left]
  | .CCons c t => by rw [cappend_cons, mapConvStep_cons, mapConvStep_cons, cappend_cons, mapConvStep_append t b]
theorem toNodes_append (a b : ChildList) : toNodes (cappend a b) = nappend (toNodes a) (toNodes b) :=
  match a with
  | .CNil => by rw [cappend_nil_left, toNodes_nil, nappend_nil_left]
  | .CCons c t => by rw [cappend_cons, toNodes_cons, toNodes_cons, nappend_cons, toNodes_append t b]
theorem anyBadAtom_append (a b : ChildList) : anyBadAtom (cappend a b) = (anyBadAtom a || anyBadAtom b) :=
  match a with
  | .CNil => by rw [cappend_nil_left, anyBadAtom_nil]; simp
  | .CCons c t => by
    rw [cappend_cons, anyBadAtom_cons, anyBadAtom_cons, anyBadAtom_append t b, Bool.or_assoc]

theorem C14_nodes_append (a b : ChildList) : nodes (cappend a b) = nappend (nodes a) (nodes b) := by
  rw [nodes, nodes, nodes, C14_flat_append, mapConvStep_append, toNodes_append]
theorem C14_bad_append (a b : ChildList) : bad (cappend a b) = (bad a || bad b) := by
  rw [bad, bad, bad, C14_flat_append, anyBadAtom_append]
theorem C14_nodes_cons_none (r : ChildList) : nodes (.CCons .CNone r) = nodes r := by
  rw [nodes, nodes, C14_flat_none]
theorem C14_nodes_cons_node (n : Node) (r : ChildList) : nodes (.CCons (.CNode n) r) = .NCons n (nodes r) := by
  rw [nodes, nodes, C14_flat_atom _ _ (by simp) (by simp), mapConvStep_cons, toNodes_cons, C14_conv_node]
theorem C14_nodes_cons_seq (k : Int) (items r : ChildList) : nodes (.CCons (.CSeq k items) r) = nappend (nodes items) (nodes r) := by
  rw [nodes, nodes, nodes, C14_flat_seq, mapConvStep_append, toNodes_append]

theorem bad_cons_node (n : Node) (r : ChildList) : bad (.CCons (.CNode n) r) = bad r := by
  rw [bad, bad, C14_flat_atom _ _ (by simp) (by simp), anyBadAtom_cons]; simp [isNodeC]
theorem bad_cons_seq (k : Int) (items r : ChildList) : bad (.CCons (.CSeq k items) r) = (bad items || bad r) := by
  rw [bad, bad, bad, C14_flat_seq, anyBadAtom_append]
theorem bad_cons_none (r : ChildList) : bad (.CCons .CNone r) = bad r := by
  rw [bad, bad, C14_flat_none]
theorem bad_cons_atom (c : Child) (r : ChildList) (h1 : c ≠ .CNone) (h2 : ∀ k items, c ≠ .CSeq k items) :
    bad (.CCons c r) = (((!(isNumC c)) && (!(isNodeC c))) || bad r) := by
  rw [bad, bad, C14_flat_atom _ _ h1 h2, anyBadAtom_cons]

/-- stored children passed back as arguments (a TagList as a child, a slice, a copy, repetition) are
stored unchanged: normalisation is idempotent on its own results -/
theorem C14_nodes_ofNodes (l : NodeList) : nodes (ofNodes l) = l ∧ bad (ofNodes l) = false :=
  match l with
  | .NNil => by
    rw [ofNodes_nil, nodes, bad, C14_flat_nil, mapConvStep_nil, toNodes_nil, anyBadAtom_nil]; exact ⟨rfl, rfl⟩
  | .NCons n r => by
    have ih := C14_nodes_ofNodes r
    rw [ofNodes_cons, C14_nodes_cons_node, bad_cons_node, ih.1, ih.2]; exact ⟨rfl, rfl⟩
theorem C14_nodes_taglist_child (k : Int) (l : NodeList) (r : ChildList) :
    nodes (.CCons (.CSeq k (ofNodes l)) r) = nappend l (nodes r) := by
  rw [C14_nodes_cons_seq, (C14_nodes_ofNodes l).1]

/-! ### every accepted value is a TagChild -/
/-- if the arguments are accepted (no TypeError), every item at every depth is something is_tag_child must accept -/
def allTagChild : ChildList → Bool
  | .CNil => true
  | .CCons c r => isTagChild c && (match c with | .CSeq _ items => allTagChild items | _ => true) && allTagChild r

theorem bool_or_false {a b : Bool} (h : (a || b) = false) : a = false ∧ b = false := by
  cases a <;> cases b <;> simp at h ⊢

theorem C14_accepted_are_children (xs : ChildList) (h : bad xs = false) : allTagChild xs = true :=
  match xs, h with
  | .CNil, _ => by simp [allTagChild]
  | .CCons (.CSeq k items) r, h => by
    rw [bad_cons_seq] at h
    have h' := bool_or_false h
    have h1 := C14_accepted_are_children items h'.1
    have h2 := C14_accepted_are_children r h'.2
    simp [allTagChild, isTagChild, h1, h2]
  | .CCons .CNone r, h => by
    rw [bad_cons_none] at h
    have h2 := C14_accepted_are_children r h
    simp [allTagChild, isTagChild, h2]
  | .CCons (.CInt n) r, h => by
    rw [bad_cons_atom _ _ (by simp) (by simp)] at h
    have h2 := C14_accepted_are_children r (bool_or_false h).2
    simp [allTagChild, isTagChild, h2]
  | .CCons (.CFloat n) r, h => by
    rw [bad_cons_atom _ _ (by simp) (by simp)] at h
    have h2 := C14_accepted_are_children r (bool_or_false h).2
    simp [allTagChild, isTagChild, h2]
  | .CCons (.CBoolC n) r, h => by
    rw [bad_cons_atom _ _ (by simp) (by simp)] at h
    have h2 := C14_accepted_are_children r (bool_or_false h).2
    simp [allTagChild, isTagChild, h2]
  | .CCons (.CNode n) r, h => by
    rw [bad_cons_atom _ _ (by simp) (by simp)] at h
    have h2 := C14_accepted_are_children r (bool_or_false h).2
    simp [allTagChild, isTagChild, h2]
  | .CCons (.CBad n) r, h => by
    rw [bad_cons_atom _ _ (by simp) (by simp)] at h
    have h1 := (bool_or_false h).1
    simp [isNumC, isNodeC] at h1

/-! ### insertion -/
theorem nappend_nil (l : NodeList) : nappend l .NNil = l :=
  match l with
  | .NNil => by rw [nappend_nil_left]
  | .NCons c r => by rw [nappend_cons, nappend_nil r]
theorem nappend_assoc (a b c : NodeList) : nappend (nappend a b) c = nappend a (nappend b c) :=
  match a with
  | .NNil => by rw [nappend_nil_left, nappend_nil_left]
  | .NCons h t => by rw [nappend_cons, nappend_cons, nappend_cons, nappend_assoc t b c]
theorem nlen_nonneg (l : NodeList) : 0 ≤ nlen l :=
  match l with
  | .NNil => by rw [nlen_nil]; omega
  | .NCons c r => by have := nlen_nonneg r; rw [nlen_cons]; omega
theorem nlen_nappend (a b : NodeList) : nlen (nappend a b) = nlen a + nlen b :=
  match a with
  | .NNil => by rw [nappend_nil_left, nlen_nil]; omega
  | .NCons h t => by rw [nappend_cons, nlen_cons, nlen_cons, nlen_nappend t b]; omega

theorem ninsert_nonneg (l xs : NodeList) (i : Int) (h : 0 ≤ i) : ninsert l i xs = ninsertAt l i xs := by
  rw [ninsert]; simp [h]
theorem ninsert_neg (l xs : NodeList) (i : Int) (h : i < 0) : ninsert l i xs = ninsertAt l (nlen l + i) xs := by
  rw [ninsert]; simp [Int.not_le.mpr h]

theorem ninsertAt_end : (l xs : NodeList) → (i : Int) → nlen l ≤ i → ninsertAt l i xs = nappend l xs
  | .NNil, xs, i, h => by
    rw [nappend_nil_left]
    by_cases hi : i ≤ 0
    · rw [ninsertAt_le _ _ _ hi, nappend_nil]
    · rw [ninsertAt_nil _ _ (by omega)]
  | .NCons c r, xs, i, h => by
    have := nlen_nonneg r
    rw [nlen_cons] at h
    rw [ninsertAt_cons _ _ _ _ (by omega), ninsertAt_end r xs (i - 1) (by omega), nappend_cons]
theorem ninsertAt_split : (a b xs : NodeList) → ninsertAt (nappend a b) (nlen a) xs = nappend a (nappend xs b)
  | .NNil, b, xs => by
    rw [nlen_nil, nappend_nil_left, nappend_nil_left, ninsertAt_le _ _ _ (by omega)]
  | .NCons c r, b, xs => by
    have := nlen_nonneg r
    rw [nlen_cons, nappend_cons, nappend_cons, ninsertAt_cons _ _ _ _ (by omega),
      show (1 + nlen r - 1 : Int) = nlen r by omega, ninsertAt_split r b xs]
theorem ninsertAt_len : (l xs : NodeList) → (i : Int) → nlen (ninsertAt l i xs) = nlen l + nlen xs
  | .NNil, xs, i => by
    by_cases hi : i ≤ 0
    · rw [ninsertAt_le _ _ _ hi, nappend_nil, nlen_nil]; omega
    · rw [ninsertAt_nil _ _ (by omega), nlen_nil]; omega
  | .NCons c r, xs, i => by
    by_cases hi : i ≤ 0
    · rw [ninsertAt_le _ _ _ hi, nlen_nappend]; omega
    · rw [ninsertAt_cons _ _ _ _ (by omega), nlen_cons, nlen_cons, ninsertAt_len r xs (i - 1)]; omega

/-- inserting at the front / at or beyond the end -/
theorem C14_insert_front (l xs : NodeList) : ninsert l 0 xs = nappend xs l := by
  rw [ninsert_nonneg _ _ _ (by omega), ninsertAt_le _ _ _ (by omega)]
theorem C14_insert_end (l xs : NodeList) (i : Int) (h : nlen l ≤ i) : ninsert l i xs = nappend l xs := by
  have := nlen_nonneg l
  rw [ninsert_nonneg _ _ _ (by omega), ninsertAt_end l xs i h]
/-- inserting after a prefix of length i -/
theorem C14_insert_split (a b xs : NodeList) : ninsert (nappend a b) (nlen a) xs = nappend a (nappend xs b) := by
  rw [ninsert_nonneg _ _ _ (nlen_nonneg a), ninsertAt_split]
theorem C14_insert_len (l xs : NodeList) (i : Int) : nlen (ninsert l i xs) = nlen l + nlen xs := by
  by_cases hi : 0 ≤ i
  · rw [ninsert_nonneg _ _ _ hi, ninsertAt_len]
  · rw [ninsert_neg _ _ _ (by omega), ninsertAt_len]

end HV
