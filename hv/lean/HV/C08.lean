/-
C08 — `==` between tags and lists (nodeEq / nodesEq, the functions the real `__eq__` methods were proved equal to) is true for
structurally identical objects and false for objects that differ in tag name, whitespace flag, the set of attributes or their values,
or the structure or text of any child.
-/
import HV.Spec
namespace HV

def akeysL : AttrList → List Str
  | .ANil => []
  | .ACons k _ tl => k :: akeysL tl

/- attribute maps are dicts: every key once, at every depth -/
mutual
def wfN : Node → Prop
  | .El _ _ a kids => (akeysL a).Nodup ∧ wfNL kids
  | _ => True
def wfNL : NodeList → Prop
  | .NNil => True
  | .NCons c r => wfN c ∧ wfNL r
end

/-! ### helper lemmas (additions) -/
theorem ahas_iff_memL (a : AttrList) (k : Str) : ahas a k = true ↔ k ∈ akeysL a := by
  induction a with
  | ANil => simp [ahas, akeysL]
  | ACons k2 v tl ih =>
    simp only [ahas, akeysL, Bool.or_eq_true, beq_iff_eq, List.mem_cons, ih]
    constructor
    · rintro (h | h)
      · exact Or.inl h.symm
      · exact Or.inr h
    · rintro (h | h)
      · exact Or.inl h.symm
      · exact Or.inr h

/-- the generalisation behind reflexivity: every item of `a` is found in `b` with the same text -/
theorem attrsSub_of_items (a b : AttrList)
    (h : ∀ k, k ∈ akeysL a → ahas b k = true ∧ avText (aget b k) = avText (aget a k))
    (ha : (akeysL a).Nodup) : attrsSub a b = true := by
  induction a with
  | ANil => simp [attrsSub]
  | ACons k v tl ih =>
    simp only [akeysL, List.nodup_cons] at ha
    have h0 := h k (by simp [akeysL])
    simp only [aget, beq_self_eq_true, if_true] at h0
    have htl : attrsSub tl b = true := by
      apply ih _ ha.2
      intro k' hk'
      have h1 := h k' (by simp [akeysL, hk'])
      have hne : ¬ k = k' := fun e => ha.1 (e ▸ hk')
      simpa only [aget, beq_iff_eq, hne, if_false] using h1
    simp [attrsSub, h0.1, h0.2, htl]

/-- what `attrsSub a b` says, item by item (no uniqueness needed: `aget a k` is the first item with key `k`) -/
theorem attrsSub_items (a b : AttrList) (h : attrsSub a b = true) :
    ∀ k, k ∈ akeysL a → k ∈ akeysL b ∧ avText (aget a k) = avText (aget b k) := by
  induction a with
  | ANil => intro k hk; simp [akeysL] at hk
  | ACons k0 v tl ih =>
    simp only [attrsSub, Bool.and_eq_true, beq_iff_eq] at h
    obtain ⟨⟨h1, h2⟩, h3⟩ := h
    intro k hk
    by_cases e : k0 = k
    · subst e
      exact ⟨(ahas_iff_memL b k0).mp h1, by simp [aget, h2]⟩
    · simp only [akeysL, List.mem_cons] at hk
      rcases hk with hk | hk
      · exact absurd hk.symm e
      · have := ih h3 k hk
        simpa only [aget, beq_iff_eq, e, if_false] using this

theorem alen_eq_length (a : AttrList) : alen a = (akeysL a).length := by
  induction a with
  | ANil => simp [alen, akeysL]
  | ACons k v tl ih => simp [alen, akeysL, ih]; omega

/-- pigeonhole: a duplicate-free list included in a list that is not longer has the same elements -/
theorem subset_of_nodup_length {α : Type} [DecidableEq α] :
    ∀ (l m : List α), l.Nodup → (∀ x, x ∈ l → x ∈ m) → m.length ≤ l.length → ∀ x, x ∈ m → x ∈ l
  | [], m, _, _, hlen, x, hx => by
    have : m = [] := List.eq_nil_of_length_eq_zero (by simpa using hlen)
    simp [this] at hx
  | y :: l', m, hnd, hsub, hlen, x, hx => by
    simp only [List.nodup_cons] at hnd
    have hy : y ∈ m := hsub y (by simp)
    have hsub' : ∀ z, z ∈ l' → z ∈ m.erase y := by
      intro z hz
      have hne : z ≠ y := fun e => hnd.1 (e ▸ hz)
      exact (List.mem_erase_of_ne hne).mpr (hsub z (by simp [hz]))
    have hlen' : (m.erase y).length ≤ l'.length := by
      rw [List.length_erase_of_mem hy]
      simp only [List.length_cons] at hlen
      omega
    by_cases e : x = y
    · simp [e]
    · have : x ∈ m.erase y := (List.mem_erase_of_ne e).mpr hx
      exact List.mem_cons_of_mem _ (subset_of_nodup_length l' (m.erase y) hnd.2 hsub' hlen' x this)

/-! ### the C08 statements -/
theorem C08_attrsEq_refl (a : AttrList) (h : (akeysL a).Nodup) : attrsEq a a = true := by
  have hs : attrsSub a a = true :=
    attrsSub_of_items a a (fun k hk => ⟨(ahas_iff_memL a k).mpr hk, rfl⟩) h
  simp [attrsEq, hs]

mutual
/-- structurally identical objects are equal -/
theorem C08_eq_refl_N : (x : Node) → wfN x → nodeEq x x = true
  | .Txt s, _ => by simp [nodeEq]
  | .Raw s, _ => by simp [nodeEq]
  | .Md d, _ => by simp [nodeEq]
  | .Rp s o, _ => by simp [nodeEq]
  | .Ob o, _ => by simp [nodeEq]
  | .El n ws a k, h => by
    simp only [wfN] at h
    simp [nodeEq, C08_attrsEq_refl a h.1, C08_eq_refl_L k h.2]
theorem C08_eq_refl_L : (l : NodeList) → wfNL l → nodesEq l l = true
  | .NNil, _ => by simp [nodesEq]
  | .NCons c r, h => by
    simp only [wfNL] at h
    simp [nodesEq, C08_eq_refl_N c h.1, C08_eq_refl_L r h.2]
end

/-- two tags are equal only if name, whitespace flag, attribute maps and children agree -/
theorem C08_eq_tag (n n2 : Str) (ws ws2 : Bool) (a a2 : AttrList) (k k2 : NodeList) :
    nodeEq (.El n ws a k) (.El n2 ws2 a2 k2) = (n == n2 && ws == ws2 && attrsEq a a2 && nodesEq k k2) := by
  simp only [nodeEq]

/-- a tag never equals a child of another kind -/
theorem C08_eq_kinds (n : Str) (ws : Bool) (a : AttrList) (k : NodeList) (y : Node) (h : ∀ n2 ws2 a2 k2, y ≠ .El n2 ws2 a2 k2) :
    nodeEq (.El n ws a k) y = false := by
  cases y with
  | El n2 ws2 a2 k2 => exact absurd rfl (h n2 ws2 a2 k2)
  | _ => simp [nodeEq]

/-- equal attribute maps have the same keys with equal values -/
theorem C08_attrsEq_sound (a b : AttrList) (ha : (akeysL a).Nodup) (hb : (akeysL b).Nodup) (h : attrsEq a b = true) :
    (∀ k, k ∈ akeysL a ↔ k ∈ akeysL b) ∧ (∀ k, k ∈ akeysL a → avText (aget a k) = avText (aget b k)) := by
  simp only [attrsEq, Bool.and_eq_true, beq_iff_eq] at h
  obtain ⟨hlen, hsub⟩ := h
  have hit := attrsSub_items a b hsub
  rw [alen_eq_length, alen_eq_length] at hlen
  refine ⟨fun k => ⟨fun hk => (hit k hk).1, ?_⟩, fun k hk => (hit k hk).2⟩
  exact subset_of_nodup_length (akeysL a) (akeysL b) ha (fun x hx => (hit x hx).1) (by omega) k

/-- equal lists have the same length and pairwise equal items -/
theorem C08_nodesEq_cons (c c2 : Node) (r r2 : NodeList) : nodesEq (.NCons c r) (.NCons c2 r2) = (nodeEq c c2 && nodesEq r r2) := by
  simp only [nodesEq]
theorem C08_nodesEq_len : (l m : NodeList) → (h : nodesEq l m = true) → nlen l = nlen m
  | .NNil, .NNil, _ => rfl
  | .NNil, .NCons _ _, h => by simp [nodesEq] at h
  | .NCons _ _, .NNil, h => by simp [nodesEq] at h
  | .NCons c r, .NCons c2 r2, h => by
    simp only [nodesEq, Bool.and_eq_true] at h
    simp only [nlen, C08_nodesEq_len r r2 h.2]

/-- text children compare by their text -/
theorem C08_eq_text (s s2 : Str) : nodeEq (.Txt s) (.Txt s2) = (s == s2) := by
  simp only [nodeEq]

#print axioms C08_eq_refl_N
#print axioms C08_attrsEq_sound
end HV
