/-
C06 — block layout follows the documented line and indentation rules.  Statements fixed.
`lines`, `sibLines`, `joinL`, `valid` are the declarative layout of the generated HV.Spec.
-/
import HV.C05
namespace HV

/-- invariant of the sibling loop: html = H ++ join(done lines ++ the open run) -/
structure LInv (eol H : Str) (st : St) (done : StrList) (run : OptStr) : Prop where
  html_eq : st.html = H ++ joinL eol (sappend done (optL run))
  first_eq : st.first = (decide (done = .SNil) && decide (run = .NoStr))
  prev_eq : st.prev = decide (run = .NoStr)

/-! ### equation lemmas for the mutual blocks -/
theorem lines_el (cfg n ws a kids k) : lines cfg (.El n ws a kids) k =
   linesFrame cfg n ws a (nonMeta kids) (flatFrame cfg n a (nonMeta kids) (flatL cfg (!cfg.noEsc n) kids))
        (sibLines cfg (!cfg.noEsc n) kids (k+1) .NoStr) k := by rw [lines]
theorem sibLines_nil (cfg e k run) : sibLines cfg e .NNil k run = optL run := by rw [sibLines]
theorem sibLines_cons (cfg e c rest k run) : sibLines cfg e (.NCons c rest) k run =
    (if isMeta c then sibLines cfg e rest k run
    else if isBlock c then sappend (optL run) (sappend (lines cfg c k) (sibLines cfg e rest k .NoStr))
    else sibLines cfg e rest k (.SomeStr (runStart run k ++ flat cfg e c))) := by rw [sibLines]

theorem valid_el (n ws a kids) : valid (.El n ws a kids) = ((ws || allInlineL kids) && validL kids) := by rw [valid]
theorem valid_ob (o) : valid (.Ob o) = false := by rw [valid]
theorem validL_cons (c r) : validL (.NCons c r) = (valid c && validL r) := by rw [validL]

/-! ### StrList / joinL lemmas -/
theorem sappend_nil (a : StrList) : sappend a .SNil = a := by
  induction a with
  | SNil => simp [sappend]
  | SCons x r ih => simp [sappend, ih]

theorem sappend_assoc (a b c : StrList) : sappend (sappend a b) c = sappend a (sappend b c) := by
  induction a with
  | SNil => simp [sappend]
  | SCons x r ih => simp [sappend, ih]

theorem sappend_eq_nil (a b : StrList) (h : sappend a b = .SNil) : a = .SNil ∧ b = .SNil := by
  cases a with
  | SNil => simpa [sappend] using h
  | SCons x r => simp [sappend] at h

theorem joinL_cons_cons (eol x y r) : joinL eol (.SCons x (.SCons y r)) = x ++ eol ++ joinL eol (.SCons y r) := by
  simp [joinL]

theorem joinL_cons_ne (eol x) (b : StrList) (hb : b ≠ .SNil) : joinL eol (.SCons x b) = x ++ eol ++ joinL eol b := by
  cases b with
  | SNil => exact absurd rfl hb
  | SCons y r => exact joinL_cons_cons eol x y r

theorem joinL_append_cons (eol : Str) : (x : Str) → (a b : StrList) → b ≠ .SNil →
    joinL eol (sappend (.SCons x a) b) = joinL eol (.SCons x a) ++ eol ++ joinL eol b
  | x, .SNil, b, hb => by
    simp only [sappend]
    rw [joinL_cons_ne eol x b hb]; simp [joinL]
  | x, .SCons y r, b, hb => by
    have ih := joinL_append_cons eol y r b hb
    simp only [sappend] at ih ⊢
    rw [joinL_cons_cons, joinL_cons_cons, ih]; simp [List.append_assoc]

theorem joinL_snoc_append (eol : Str) : (ls : StrList) → (r x : Str) →
    joinL eol (sappend ls (.SCons (r ++ x) .SNil)) = joinL eol (sappend ls (.SCons r .SNil)) ++ x
  | .SNil, r, x => by simp [sappend, joinL]
  | .SCons y .SNil, r, x => by simp [sappend, joinL, List.append_assoc]
  | .SCons y (.SCons z t), r, x => by
    have ih := joinL_snoc_append eol (.SCons z t) r x
    simp only [sappend] at ih ⊢
    rw [joinL_cons_cons, joinL_cons_cons, ih]; simp [List.append_assoc]

/-! ### frames -/
theorem tagFrame_simple (cfg : Cfg) (n : Str) (ws : Bool) (a : AttrList) (ks : NodeList) (inner : Str) (i : Nat) (eol : Str)
    (h : isSimple ks = true) :
    tagFrame cfg n ws (attrFold cfg a (ind i ++ [60] ++ n)) ks inner i eol
      = ind i ++ flatFrame cfg n a ks (flatL cfg (!cfg.noEsc n) ks) := by
  rw [attrFold_eq]
  cases ks with
  | NNil => simp only [tagFrame, flatFrame, opn]; split <;> simp [List.append_assoc]
  | NCons c r =>
    cases r with
    | NNil =>
      cases c <;> simp_all [isSimple, tagFrame, flatFrame, opn, flatL_cons, flatL_nil, flat_txt, flat_raw, List.append_assoc]
      cases cfg.noEsc n <;> simp
    | NCons c2 r2 => cases c <;> simp [isSimple] at h

theorem lines_ne (cfg : Cfg) (n ws a kids k) : lines cfg (.El n ws a kids) k ≠ .SNil := by
  rw [lines_el]; unfold linesFrame
  split <;> simp [sappend]

theorem isBlock_el (c : Node) (h : isBlock c = true) : ∃ n a kids, c = .El n true a kids := by
  cases c <;> simp_all [isBlock]

theorem sibLines_ne (cfg : Cfg) (e : Bool) : (l : NodeList) → (k : Nat) → (run : OptStr) →
    ((∃ r, run = .SomeStr r) ∨ nonMeta l ≠ .NNil) → sibLines cfg e l k run ≠ .SNil
  | .NNil, k, run, h => by
    rw [sibLines_nil]
    cases run with
    | NoStr => simp [nonMeta] at h
    | SomeStr r => simp [optL]
  | .NCons c rest, k, run, h => by
    rw [sibLines_cons]
    split
    · rename_i hm
      apply sibLines_ne cfg e rest k run
      cases h with
      | inl h => exact Or.inl h
      | inr h => right; simpa [nonMeta, hm] using h
    · split
      · rename_i _ hb
        obtain ⟨n, a, kids, hc⟩ := isBlock_el c hb
        subst hc
        have := lines_ne cfg n true a kids k
        intro h1
        exact this (sappend_eq_nil _ _ (sappend_eq_nil _ _ h1).2).1
      · exact sibLines_ne cfg e rest k _ (Or.inl ⟨_, rfl⟩)

/-- one inline (non-block, non-metadata) item with flat rendering `piece`:
    the new state after appending `sep ++ lead ++ piece` satisfies LInv with the extended run -/
theorem inv_inline (eol H : Str) (st : St) (done : StrList) (run : OptStr) (k : Nat) (piece : Str)
    (h : LInv eol H st done run) :
    LInv eol H
      ⟨st.html ++ sep st.first st.prev eol ++ lead st.prev k ++ piece, false, false⟩
      done (.SomeStr (runStart run k ++ piece)) := by
  obtain ⟨h1, h2, h3⟩ := h
  refine ⟨?_, by simp, by simp⟩
  cases run with
  | NoStr =>
    simp only [decide_true, Bool.and_true] at h2 h3
    simp only [h1, h2, h3, optL, sappend_nil, runStart, sep, lead, if_true]
    cases done with
    | SNil => simp [joinL, sappend]
    | SCons x r =>
      rw [joinL_append_cons eol x r _ (by simp)]
      simp [joinL, List.append_assoc]
  | SomeStr r =>
    simp at h2 h3
    simp only [h1, h2, h3, optL, runStart, sep, lead]
    rw [joinL_snoc_append]; simp [List.append_assoc]

mutual
/-- a validly nested tag renders as its declarative lines joined by eol, for every indent level and eol -/
theorem C06_layout_tag (cfg : Cfg) : (t : Node) → (k : Nat) → (eol : Str) →
    isEl t = true → valid t = true → rtag cfg t k eol = joinL eol (lines cfg t k)
  | .El n ws a kids, k, eol, _, hv => by
    simp only [valid_el, Bool.and_eq_true, Bool.or_eq_true] at hv
    obtain ⟨hws, hk⟩ := hv
    cases ws with
    | false =>
      have hin : allInline (.El n false a kids) = true := by
        simp only [allInline_el, Bool.not_false, Bool.true_and]; simpa using hws
      rw [C05_flat_inline_tag cfg _ k eol rfl hin, lines_el, flat_el]
      simp [linesFrame, joinL]
    | true =>
      rw [rtag_el, lines_el]
      cases hs : isSimple (nonMeta kids) with
      | true =>
        rw [tagFrame_simple cfg n true a _ _ k eol hs, flatL_nonMeta]
        simp [linesFrame, hs, joinL]
      | false =>
        have hl := C06_layout_list_inv cfg kids ⟨[], true, true⟩ (k+1) eol (!cfg.noEsc n) [] .SNil .NoStr hk
          ⟨by simp [optL, joinL, sappend], by simp, by simp⟩
        have hne : sibLines cfg (!cfg.noEsc n) kids (k+1) .NoStr ≠ .SNil := by
          apply sibLines_ne; right; intro h0; rw [h0] at hs; simp [isSimple] at hs
        have hne2 : sappend (sibLines cfg (!cfg.noEsc n) kids (k+1) .NoStr) (.SCons (ind k ++ closeT n) .SNil) ≠ .SNil := by
          intro h0; exact hne (sappend_eq_nil _ _ h0).1
        rw [tagFrame_general cfg n true _ _ _ k eol hs, hl, attrFold_eq]
        simp only [linesFrame, hs, Bool.not_false, Bool.and_self, if_true, sappend, List.nil_append]
        rw [joinL_cons_ne eol _ _ hne2]
        cases hsl : sibLines cfg (!cfg.noEsc n) kids (k+1) .NoStr with
        | SNil => exact absurd hsl hne
        | SCons x r =>
          rw [joinL_append_cons eol x r _ (by simp)]
          simp [joinL, opn, List.append_assoc]
  | .Txt _, _, _, h, _ => by simp [isEl] at h
  | .Raw _, _, _, h, _ => by simp [isEl] at h
  | .Rp _ _, _, _, h, _ => by simp [isEl] at h
  | .Md _, _, _, h, _ => by simp [isEl] at h
  | .Ob _, _, _, h, _ => by simp [isEl] at h
theorem C06_layout_list_inv (cfg : Cfg) : (l : NodeList) → (st : St) → (k : Nat) → (eol : Str) → (e : Bool) →
    (H : Str) → (done : StrList) → (run : OptStr) → validL l = true → LInv eol H st done run →
    (rlist cfg l st k eol e).html = H ++ joinL eol (sappend done (sibLines cfg e l k run))
  | .NNil, st, k, eol, e, H, done, run, _, hi => by
    rw [rlist_nil, sibLines_nil]; exact hi.html_eq
  | .NCons c rest, st, k, eol, e, H, done, run, hv, hi => by
    simp only [validL_cons, Bool.and_eq_true] at hv
    rw [rlist_cons, sibLines_cons]
    match c, hv with
    | .Md d, hv =>
      simp only [rl_step, isMeta, if_true]
      exact C06_layout_list_inv cfg rest st k eol e H done run hv.2 hi
    | .Ob o, hv =>
      have := hv.1; simp [valid_ob] at this
    | .Txt s, hv =>
      simp only [rl_step, isMeta, isBlock, flat_txt]
      exact C06_layout_list_inv cfg rest _ k eol e H done _ hv.2 (inv_inline eol H st done run k _ hi)
    | .Raw s, hv =>
      simp only [rl_step, isMeta, isBlock, flat_raw]
      exact C06_layout_list_inv cfg rest _ k eol e H done _ hv.2 (inv_inline eol H st done run k _ hi)
    | .Rp s o, hv =>
      simp only [rl_step, isMeta, isBlock, flat_rp]
      exact C06_layout_list_inv cfg rest _ k eol e H done _ hv.2 (inv_inline eol H st done run k _ hi)
    | .El n ws a kids, hv =>
      have ht := C06_layout_tag cfg (.El n ws a kids) k eol rfl hv.1
      have hvc := hv.1
      simp only [valid_el, Bool.and_eq_true, Bool.or_eq_true] at hvc
      cases ws with
      | true =>
        simp only [rl_step, isMeta, isBlock, Bool.or_true, if_true, Bool.false_eq_true, if_false]
        have hne := lines_ne cfg n true a kids k
        have hinv : LInv eol H ⟨st.html ++ sep st.first true eol ++ rtag cfg (.El n true a kids) k eol, false, true⟩
            (sappend (sappend done (optL run)) (lines cfg (.El n true a kids) k)) .NoStr := by
          refine ⟨?_, ?_, by simp⟩
          · rw [ht, hi.html_eq, hi.first_eq]
            simp only [show optL OptStr.NoStr = StrList.SNil from rfl, sappend_nil]
            cases hd : sappend done (optL run) with
            | SNil =>
              obtain ⟨hd1, hd2⟩ := sappend_eq_nil _ _ hd
              have hr : run = .NoStr := by cases run <;> simp [optL] at hd2 ⊢
              subst hd1; subst hr
              simp [sep, sappend, joinL]
            | SCons x r =>
              rw [joinL_append_cons eol x r _ hne]
              have : (decide (done = .SNil) && decide (run = .NoStr)) = false := by
                cases done <;> cases run <;> simp [optL, sappend] at hd ⊢
              rw [this]
              simp [sep, List.append_assoc]
          · cases hl : lines cfg (.El n true a kids) k with
            | SNil => exact absurd hl hne
            | SCons x xs =>
              cases sappend done (optL run) <;> simp [sappend]
        have := C06_layout_list_inv cfg rest _ k eol e H _ .NoStr hv.2 hinv
        rw [this]; simp [sappend_assoc]
      | false =>
        have hin : allInline (.El n false a kids) = true := by
          simp only [allInline_el, Bool.not_false, Bool.true_and]; simpa using hvc.1
        have hinv := inv_inline eol H st done run k (flat cfg e (.El n false a kids)) hi
        rw [rl_step_inline cfg st _ k eol e hin (by simp [isMeta])]
        simp only [isMeta, isBlock, Bool.false_eq_true, if_false]
        exact C06_layout_list_inv cfg rest _ k eol e H done _ hv.2 hinv
end

/-- a top-level list lays out its items by the same sibling rule -/
theorem C06_layout_list (cfg : Cfg) (l : NodeList) (k : Nat) (eol : Str) (e : Bool) (h : validL l = true) :
    rlistTop cfg l k eol true e = joinL eol (sibLines cfg e l k .NoStr) := by
  have := C06_layout_list_inv cfg l ⟨[], true, true⟩ k eol e [] .SNil .NoStr h
    ⟨by simp [optL, joinL, sappend], by simp, by simp⟩
  simpa [rlistTop, sappend] using this

#print axioms C06_layout_tag
#print axioms C06_layout_list
end HV
