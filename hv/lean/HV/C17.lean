/-
C17 — the Tag context manager restores the display hook and collects children in order.
Statements fixed; proofs to be supplied.  `execP` is the semantics of programs of nested `with tag:` blocks built from the
contracts of Tag.__enter__ / Tag.__exit__ / the wrapped hook (`enterW`, `exitW`, `deliver`), all generated L1 specs (HV.Spec).
-/
import HV.Spec
namespace HV

def ilToList : ItemList → List Item
  | .INil => []
  | .ICons h t => h :: ilToList t

def kidsOfTag (w : World) (t : Int) : List Item := ilToList (tget w.tags t).kids
def outerOf (w : World) : List Item := ilToList w.outer


/-! ### helper lemmas -/

theorem ilToList_isnoc (l : ItemList) (x : Item) : ilToList (isnoc l x) = ilToList l ++ [x] := by
  induction l with
  | INil => simp [isnoc, ilToList]
  | ICons h t ih => simp [isnoc, ilToList, ih]

theorem tget_tset (m : TagMap) (t u : Int) (st : TagSt) :
    tget (tset m t st) u = if u = t then st else tget m u := by
  induction m with
  | TMNil =>
    by_cases h : u = t
    · subst h; simp [tset, tget]
    · have h' : ¬ t = u := fun e => h e.symm
      simp [tset, tget, h, h']
  | TMCons t2 st2 tl ih =>
    by_cases h2 : t2 = t
    · subst h2
      by_cases h : u = t2
      · subst h; simp [tset, tget]
      · have h' : ¬ t2 = u := fun e => h e.symm
        simp [tset, tget, h, h']
    · by_cases h3 : t2 = u
      · subst h3; simp [tset, tget, h2]
      · simp [tset, tget, h2, h3, ih]

theorem tget_tset_same (m : TagMap) (t : Int) (st : TagSt) : tget (tset m t st) t = st := by
  simp [tget_tset]

theorem tget_tset_other (m : TagMap) (t u : Int) (st : TagSt) (h : u ≠ t) : tget (tset m t st) u = tget m u := by
  simp [tget_tset, h]

@[simp] theorem appendKid_hook (w : World) (t : Int) (x : Item) : (appendKid w t x).hook = w.hook := rfl
@[simp] theorem appendKid_outer (w : World) (t : Int) (x : Item) : (appendKid w t x).outer = w.outer := rfl

theorem appendKid_pdh (w : World) (t u : Int) (x : Item) :
    (tget (appendKid w t x).tags u).pdh = (tget w.tags u).pdh := by
  by_cases h : u = t
  · subst h; simp [appendKid, tget_tset]
  · simp [appendKid, tget_tset, h]

theorem appendKid_kids (w : World) (t u : Int) (x : Item) :
    kidsOfTag (appendKid w t x) u = if u = t then kidsOfTag w t ++ [x] else kidsOfTag w u := by
  by_cases h : u = t
  · subst h; simp [appendKid, kidsOfTag, tget_tset, ilToList_isnoc]
  · simp [appendKid, kidsOfTag, tget_tset, h]

theorem deliver_hook (w : World) (v : DVal) : (deliver w v).w.hook = w.hook := by
  unfold deliver
  split
  · rfl
  · split
    · rfl
    · split <;> simp

theorem deliver_pdh (w : World) (v : DVal) (u : Int) :
    (tget (deliver w v).w.tags u).pdh = (tget w.tags u).pdh := by
  unfold deliver
  split
  · rfl
  · split
    · rfl
    · split
      · rfl
      · simp [appendKid_pdh]

theorem deliver_kids (w : World) (v : DVal) (u : Int) :
    ∃ more, kidsOfTag (deliver w v).w u = kidsOfTag w u ++ more := by
  unfold deliver
  split
  · exact ⟨[], by simp [kidsOfTag]⟩
  · split
    · exact ⟨[], by simp⟩
    · split
      · exact ⟨[], by simp⟩
      · rename_i t _ _ _
        by_cases h : u = t
        · exact ⟨[itemOf v], by simp [appendKid_kids, h]⟩
        · exact ⟨[], by simp [appendKid_kids, h]⟩

theorem deliver_outer (w : World) (v : DVal) :
    ∃ more, outerOf (deliver w v).w = outerOf w ++ more := by
  unfold deliver
  split
  · exact ⟨[itemOf v], by simp [outerOf, ilToList_isnoc]⟩
  · split
    · exact ⟨[], by simp⟩
    · split
      · exact ⟨[], by simp⟩
      · exact ⟨[], by simp [outerOf]⟩

theorem isActive_of_pdh (w w' : World) (t : Int) (h : (tget w'.tags t).pdh = (tget w.tags t).pdh) :
    isActive w' t = isActive w t := by
  simp [isActive, h]

theorem enterW_pdh_other (w : World) (t u : Int) (h : u ≠ t) :
    (tget (enterW w t).tags u).pdh = (tget w.tags u).pdh := by
  simp [enterW, tget_tset, h]

theorem enterW_pdh_same (w : World) (t : Int) :
    (tget (enterW w t).tags t).pdh = .SomeHook w.hook := by
  simp [enterW, tget_tset]

theorem enterW_active (w : World) (t : Int) : isActive (enterW w t) t = true := by
  simp [isActive, enterW_pdh_same]

theorem enterW_kids (w : World) (t u : Int) : kidsOfTag (enterW w t) u = kidsOfTag w u := by
  by_cases h : u = t
  · subst h; simp [enterW, kidsOfTag, tget_tset]
  · simp [enterW, kidsOfTag, tget_tset, h]

theorem exitW_hook (w : World) (t : Int) : (exitW w t).w.hook = savedHook w t := by
  simp [exitW, deliver_hook]

theorem exitW_pdh (w : World) (t u : Int) : (tget (exitW w t).w.tags u).pdh = (tget w.tags u).pdh := by
  simp [exitW, deliver_pdh]

theorem execP_with_inactive (w : World) (t : Int) (body : Prog) (ht : isActive w t = false) :
    execP (.PWith t body) w =
      Res.mk (exitW (execP body (enterW w t)).w t).w
        ((execP body (enterW w t)).raised || (exitW (execP body (enterW w t)).w t).raised) := by
  rw [execP]; simp [ht]

/-- the saved hook of a tag whose block is active is never touched by anything executed inside it -/
theorem C17_saved_hook_stable : (p : Prog) → (w : World) → (t : Int) → isActive w t = true →
    (tget (execP p w).w.tags t).pdh = (tget w.tags t).pdh := by
  intro p
  induction p with
  | PSkip => intro w t _; simp [execP]
  | PDisplay v => intro w t _; simp [execP, deliver_pdh]
  | PRaise => intro w t _; simp [execP]
  | PWith u body ih =>
    intro w t ht
    by_cases hu : isActive w u = true
    · rw [execP]; simp [hu]
    · have hu' : isActive w u = false := by simpa using hu
      have hne : t ≠ u := by
        intro e; subst e; rw [ht] at hu'; exact Bool.noConfusion hu'
      rw [execP_with_inactive w u body hu']
      simp only [exitW_pdh]
      have hact : isActive (enterW w u) t = true := by
        rw [isActive_of_pdh w (enterW w u) t (enterW_pdh_other w u t hne)]; exact ht
      rw [ih (enterW w u) t hact, enterW_pdh_other w u t hne]
  | PSeq a b iha ihb =>
    intro w t ht
    rw [execP]
    by_cases hr : (execP a w).raised = true
    · simp [hr, iha w t ht]
    · simp [hr]
      have hact : isActive (execP a w).w t = true := by
        rw [isActive_of_pdh w (execP a w).w t (iha w t ht)]; exact ht
      rw [ihb _ t hact, iha w t ht]

theorem savedHook_after_body (w : World) (t : Int) (body : Prog) :
    savedHook (execP body (enterW w t)).w t = w.hook := by
  simp [savedHook, C17_saved_hook_stable body (enterW w t) t (enterW_active w t), enterW_pdh_same]

/-- C17 (main): for any nesting of with-blocks, with or without exceptions raised anywhere inside (by `raise`, by an
invalid displayed value, or by re-entering an active tag), the hook after the program is the hook before it -/
theorem C17_hook_restored : (p : Prog) → (w : World) → (execP p w).w.hook = w.hook := by
  intro p
  induction p with
  | PSkip => intro w; simp [execP]
  | PDisplay v => intro w; simp [execP, deliver_hook]
  | PRaise => intro w; simp [execP]
  | PWith u body _ =>
    intro w
    by_cases hu : isActive w u = true
    · rw [execP]; simp [hu]
    · have hu' : isActive w u = false := by simpa using hu
      rw [execP_with_inactive w u body hu']
      simp [exitW_hook, savedHook_after_body]
  | PSeq a b iha ihb =>
    intro w
    rw [execP]
    by_cases hr : (execP a w).raised = true
    · simp [hr, iha w]
    · simp [hr, ihb, iha w]

/-- entering a tag whose block is still active raises and leaves the whole state (hook chain included) intact -/
theorem C17_reenter_raises (w : World) (t : Int) (body : Prog) (h : isActive w t = true) :
    execP (.PWith t body) w = .mk w true := by
  rw [execP]; simp [h]

/-- after a block exits, the hook is the one that was installed when it was entered (special case of the main theorem) -/
theorem C17_block_restores (w : World) (t : Int) (body : Prog) : (execP (.PWith t body) w).w.hook = w.hook :=
  C17_hook_restored _ w

theorem exitW_kids (w : World) (t u : Int) : ∃ more, kidsOfTag (exitW w t).w u = kidsOfTag w u ++ more := by
  obtain ⟨more, h⟩ := deliver_kids (World.mk (savedHook w t) w.tags w.outer) (DVal.DTagRef t) u
  exact ⟨more, by simpa [exitW, kidsOfTag] using h⟩

theorem exitW_outer (w : World) (t : Int) : ∃ more, outerOf (exitW w t).w = outerOf w ++ more := by
  obtain ⟨more, h⟩ := deliver_outer (World.mk (savedHook w t) w.tags w.outer) (DVal.DTagRef t)
  exact ⟨more, by simpa [exitW, outerOf] using h⟩

theorem enterW_outer (w : World) (t : Int) : outerOf (enterW w t) = outerOf w := rfl

/-- nothing already collected is lost or reordered: child lists and the outer log only grow at the end -/
theorem C17_kids_grow : (p : Prog) → (w : World) → (t : Int) → ∃ more, kidsOfTag (execP p w).w t = kidsOfTag w t ++ more := by
  intro p
  induction p with
  | PSkip => intro w t; exact ⟨[], by simp [execP]⟩
  | PDisplay v => intro w t; simpa [execP] using deliver_kids w v t
  | PRaise => intro w t; exact ⟨[], by simp [execP]⟩
  | PWith u body ih =>
    intro w t
    by_cases hu : isActive w u = true
    · exact ⟨[], by rw [execP]; simp [hu]⟩
    · have hu' : isActive w u = false := by simpa using hu
      rw [execP_with_inactive w u body hu']
      obtain ⟨m1, h1⟩ := ih (enterW w u) t
      obtain ⟨m2, h2⟩ := exitW_kids (execP body (enterW w u)).w u t
      exact ⟨m1 ++ m2, by simp [h2, h1, enterW_kids]⟩
  | PSeq a b iha ihb =>
    intro w t
    rw [execP]
    by_cases hr : (execP a w).raised = true
    · simpa [hr] using iha w t
    · obtain ⟨m1, h1⟩ := iha w t
      obtain ⟨m2, h2⟩ := ihb (execP a w).w t
      exact ⟨m1 ++ m2, by simp [hr, h2, h1]⟩

theorem C17_outer_grows : (p : Prog) → (w : World) → ∃ more, outerOf (execP p w).w = outerOf w ++ more := by
  intro p
  induction p with
  | PSkip => intro w; exact ⟨[], by simp [execP]⟩
  | PDisplay v => intro w; simpa [execP] using deliver_outer w v
  | PRaise => intro w; exact ⟨[], by simp [execP]⟩
  | PWith u body ih =>
    intro w
    by_cases hu : isActive w u = true
    · exact ⟨[], by rw [execP]; simp [hu]⟩
    · have hu' : isActive w u = false := by simpa using hu
      rw [execP_with_inactive w u body hu']
      obtain ⟨m1, h1⟩ := ih (enterW w u)
      obtain ⟨m2, h2⟩ := exitW_outer (execP body (enterW w u)).w u
      exact ⟨m1 ++ m2, by simp [h2, h1, enterW_outer]⟩
  | PSeq a b iha ihb =>
    intro w
    rw [execP]
    by_cases hr : (execP a w).raised = true
    · simpa [hr] using iha w
    · obtain ⟨m1, h1⟩ := iha w
      obtain ⟨m2, h2⟩ := ihb (execP a w).w
      exact ⟨m1 ++ m2, by simp [hr, h2, h1]⟩

/-- values displayed inside a block are appended to that block's tag, in order, under the child rules:
None and Ellipsis ignored, _repr_html_ objects kept as HTML, invalid values rejected (TypeError) without effect -/
theorem C17_display_in_block (w : World) (t : Int) (v : DVal) (h : w.hook = .HWrap t) :
    execP (.PDisplay v) w =
      (if dropped v then Res.mk w false
       else if wrapAccepts v then Res.mk (appendKid w t (itemOf v)) false
       else Res.mk w true) := by
  rw [execP]; unfold deliver; rw [h]
  by_cases hd : dropped v = true
  · simp [hd]
  · by_cases ha : wrapAccepts v = true
    · simp [hd, ha]
    · simp [hd, ha]
theorem C17_repr_kept_as_html (x : Int) : itemOf (.DRepr x) = .IHtmlOf x := rfl

theorem exitW_after_body (w : World) (t : Int) (body : Prog) :
    exitW (execP body (enterW w t)).w t =
      deliver (World.mk w.hook (execP body (enterW w t)).w.tags (execP body (enterW w t)).w.outer) (DVal.DTagRef t) := by
  simp [exitW, savedHook_after_body]

/-- each tag is handed exactly once, on exit, to the enclosing hook: when the block of a (not yet active) tag t runs
inside the block of tag u, the last child u receives is t itself, whether or not the body raised -/
theorem C17_delivered_to_enclosing (w : World) (t u : Int) (body : Prog) (hu : w.hook = .HWrap u) (ht : isActive w t = false) :
    ∃ pre, kidsOfTag (execP (.PWith t body) w).w u = pre ++ [.ITag t] := by
  rw [execP_with_inactive w t body ht]
  simp only [exitW_after_body, hu]
  refine ⟨kidsOfTag (execP body (enterW w t)).w u, ?_⟩
  simp [deliver, dropped, wrapAccepts, itemOf, appendKid_kids]
  simp [kidsOfTag]
theorem C17_delivered_to_base (w : World) (t : Int) (body : Prog) (hb : w.hook = .HBase) (ht : isActive w t = false) :
    ∃ pre, outerOf (execP (.PWith t body) w).w = pre ++ [.ITag t] := by
  rw [execP_with_inactive w t body ht]
  simp only [exitW_after_body, hb]
  refine ⟨outerOf (execP body (enterW w t)).w, ?_⟩
  simp [deliver, itemOf, outerOf, ilToList_isnoc]

/-- exactly once: the number of times tag t itself occurs among everything collected grows by exactly one more than
what the body contributes -/
def countIn (t : Int) (l : List Item) : Nat := (l.filter (fun x => x == .ITag t)).length
def countAll (t : Int) : TagMap → Nat
  | .TMNil => 0
  | .TMCons _ st tl => countIn t (ilToList st.kids) + countAll t tl
def delivered (t : Int) (w : World) : Nat := countAll t w.tags + countIn t (outerOf w)

theorem countIn_append (t : Int) (a b : List Item) : countIn t (a ++ b) = countIn t a + countIn t b := by
  simp [countIn]

theorem countIn_self (t : Int) : countIn t [.ITag t] = 1 := by
  simp [countIn]

theorem countAll_tset_isnoc (t u : Int) (p : OptHook) (x : Item) (m : TagMap) :
    countAll t (tset m u (TagSt.mk p (isnoc (tget m u).kids x))) = countAll t m + countIn t [x] := by
  induction m with
  | TMNil => simp [tset, tget, countAll, isnoc, ilToList]
  | TMCons t2 st2 tl ih =>
    by_cases h : t2 = u
    · subst h
      simp [tset, tget, countAll, ilToList_isnoc, countIn_append]
      omega
    · simp [tset, tget, countAll, h, ih]
      omega

theorem C17_delivered_once (w : World) (t : Int) (body : Prog) (ht : isActive w t = false) :
    delivered t (execP (.PWith t body) w).w = delivered t (execP body (enterW w t)).w + 1 := by
  rw [execP_with_inactive w t body ht]
  simp only [exitW_after_body]
  cases hh : w.hook with
  | HBase =>
    simp [deliver, itemOf, delivered, outerOf, ilToList_isnoc, countIn_append, countIn_self]
    omega
  | HWrap u =>
    simp [deliver, dropped, wrapAccepts, itemOf, delivered, appendKid, countAll_tset_isnoc, countIn_self, outerOf]
    omega

end HV
