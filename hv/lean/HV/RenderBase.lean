/-
Equation lemmas and basic facts about the generated renderer spec, shared by C01/C05/C06/C07.
(The mutual definitions must be unfolded through these lemmas: `simp [rlist]` on the mutual block
is slow / times out.)
-/
import HV.Spec
namespace HV

theorem rlist_nil (cfg) (st : St) (i : Nat) (eol : Str) (e : Bool) : rlist cfg .NNil st i eol e = st := by rw [rlist]
theorem rlist_cons (cfg) (c r) (st : St) (i : Nat) (eol : Str) (e : Bool) :
  rlist cfg (.NCons c r) st i eol e = rlist cfg r (rl_step cfg st c (rtag cfg c i eol) (rtag cfg c 0 []) i eol e) i eol e := by rw [rlist]
theorem rtag_el (cfg) (n ws a kids) (i : Nat) (eol : Str) :
  rtag cfg (.El n ws a kids) i eol =
    tagFrame cfg n ws (attrFold cfg a (ind i ++ [60] ++ n)) (nonMeta kids)
      (rlist cfg kids ⟨[], true, ws⟩ (i+1) eol (!cfg.noEsc n)).html i eol := by rw [rtag]

/-- the attribute loop appends exactly the declarative attribute string -/
theorem attrFold_eq (cfg : Cfg) : (a : AttrList) → (acc : Str) → attrFold cfg a acc = acc ++ attrStr cfg a
  | .ANil, acc => by simp [attrFold, attrStr]
  | .ACons k v tl, acc => by
    rw [attrFold, attrFold_eq cfg tl, attrStr]
    simp [List.append_assoc]

theorem ind_zero : ind 0 = [] := by simp [ind, rep]
theorem ind_succ (n : Nat) : ind (n+1) = [32,32] ++ ind n := by simp [ind, rep]

end HV
