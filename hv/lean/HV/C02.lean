/-
C02 — plain-text children are inert data;  C04 (first half) — trusted markup is emitted verbatim.
Statements fixed.  TEXT / realCfg come from the generated HV.Consts (this run's constants of /repo).
-/
import HV.RenderBase
import HV.EscFacts
import HV.Consts
namespace HV

/-! ### the text table of this run -/
/-- G: the keys are exactly & < > (as a set) -/
theorem TEXT_keys : (∀ c, (lookup TEXT c).isSome = true ↔ (c = 38 ∨ c = 60 ∨ c = 62)) := by
  intro c
  rw [keys_iff_of_B TEXT [38, 60, 62] (by decide) (by decide) c]
  simp
/-- G: each replacement is a character reference that decodes to its key -/
theorem TEXT_refs : TEXT.all (fun p => refDecodes p.2 p.1) = true := by decide

/-- each '&', '<', '>' is replaced by its reference and every other character is unchanged -/
theorem C02_esc_spec (s : Str) :
    realCfg.escT s = s.flatMap (fun c => match lookup TEXT c with | some v => v | none => [c]) :=
  esc_char_spec TEXT s
/-- the emitted text decodes to exactly the original characters -/
theorem C02_decodes (s : Str) : decode TEXT (realCfg.escT s) = s :=
  decode_esc TEXT (by decide) (by decide) (by decide) s
/-- it can never open or close a tag, start a comment or a declaration: no '<' and no '>' at all -/
theorem C02_no_lt_gt (s : Str) : 60 ∉ realCfg.escT s ∧ 62 ∉ realCfg.escT s :=
  ⟨esc_avoids_B TEXT 60 (by decide) s, esc_avoids_B TEXT 62 (by decide) s⟩
/-- it can never forge a character reference: every '&' in the output begins a reference of the table -/
theorem C02_amp_only_refs (s : Str) :
    ∀ pre post, realCfg.escT s = pre ++ 38 :: post → ∃ p ∈ TEXT, ∃ rest, 38 :: post = p.2 ++ rest :=
  esc_amp_only_refs TEXT (by decide) (by decide) (by decide) s
/-- per-character: later occurrences, repeats and positions are all covered -/
theorem C02_esc_append (a b : Str) : realCfg.escT (a ++ b) = realCfg.escT a ++ realCfg.escT b :=
  esc_append TEXT a b

/-! ### a leaf at any position of any tree contributes exactly one segment and nothing else -/

/-- child lists with exactly one hole (filled by `leaf s`); every element on the path from the list to
the hole satisfies `okName` (for plain text: the element is not script/style) -/
inductive CtxL (okName : Str → Bool) (leaf : Str → Node) : (Str → NodeList) → Prop
  | here (l1 l2 : NodeList) : CtxL okName leaf (fun s => nappend l1 (.NCons (leaf s) l2))
  | inside (l1 l2 : NodeList) (n : Str) (ws : Bool) (a : AttrList) (f : Str → NodeList) :
      CtxL okName leaf f → okName n = true → CtxL okName leaf (fun s => nappend l1 (.NCons (.El n ws a (f s)) l2))


/-! ### generic machinery: one hole filled by `leaf s`, which the sibling loop emits as `g s` -/

/-- prepend already-emitted output to a loop state -/
def ctxPfx (h : Str) (st : St) : St := ⟨h ++ st.html, st.first, st.prev⟩

theorem rl_step_ctxPfx (cfg : Cfg) (h : Str) (st : St) (c : Node) (x y : Str) (i : Nat) (eol : Str) (e : Bool) :
    rl_step cfg (ctxPfx h st) c x y i eol e = ctxPfx h (rl_step cfg st c x y i eol e) := by
  cases c <;> simp [rl_step, ctxPfx, List.append_assoc]

/-- the sibling loop never looks at what has already been emitted -/
theorem rlist_ctxPfx (cfg : Cfg) : (l : NodeList) → (h : Str) → (st : St) → (i : Nat) → (eol : Str) → (e : Bool) →
    rlist cfg l (ctxPfx h st) i eol e = ctxPfx h (rlist cfg l st i eol e)
  | .NNil, h, st, i, eol, e => by simp [rlist_nil]
  | .NCons c r, h, st, i, eol, e => by
    rw [rlist_cons, rlist_cons, rl_step_ctxPfx]
    exact rlist_ctxPfx cfg r h _ i eol e

theorem rlist_from (cfg : Cfg) (l : NodeList) (h : Str) (f p : Bool) (i : Nat) (eol : Str) (e : Bool) :
    (rlist cfg l ⟨h, f, p⟩ i eol e).html = h ++ (rlist cfg l ⟨[], f, p⟩ i eol e).html := by
  have := rlist_ctxPfx cfg l h ⟨[], f, p⟩ i eol e
  simp only [ctxPfx, List.append_nil] at this
  rw [this]

theorem ctx_rlist_nappend (cfg : Cfg) : (l1 l2 : NodeList) → (st : St) → (i : Nat) → (eol : Str) → (e : Bool) →
    rlist cfg (nappend l1 l2) st i eol e = rlist cfg l2 (rlist cfg l1 st i eol e) i eol e
  | .NNil, l2, st, i, eol, e => by simp [nappend, rlist_nil]
  | .NCons c r, l2, st, i, eol, e => by
    simp only [nappend, rlist_cons]
    exact ctx_rlist_nappend cfg r l2 _ i eol e

theorem ctx_tagFrame_general (cfg : Cfg) (n : Str) (ws : Bool) (op : Str) (ks : NodeList) (inner : Str) (i : Nat) (eol : Str)
    (h : isSimple ks = false) :
    tagFrame cfg n ws op ks inner i eol =
      op ++ [62] ++ (if ws then eol else []) ++ inner ++ (if ws then eol ++ ind i else []) ++ closeT n := by
  cases ks with
  | NNil => simp [isSimple] at h
  | NCons c r =>
    cases r with
    | NNil => cases c <;> simp_all [isSimple, tagFrame]
    | NCons c2 r2 => cases c <;> simp [tagFrame]

theorem isSimple_two (c c2 : Node) (r : NodeList) : isSimple (.NCons c (.NCons c2 r)) = false := by
  cases c <;> simp [isSimple]

theorem nonMeta_nappend_hole (l2 : NodeList) (c : Node) (hc : isMeta c = false) : (l1 : NodeList) →
    nonMeta (nappend l1 (.NCons c l2)) = nappend (nonMeta l1) (.NCons c (nonMeta l2))
  | .NNil => by simp [nappend, nonMeta, hc]
  | .NCons d r => by
    have ih := nonMeta_nappend_hole l2 c hc r
    simp only [nappend, nonMeta]
    split
    · exact ih
    · simp only [nappend, ih]

/-- the non-metadata children of a one-hole list: either the hole alone, or not a fast-path shape -/
theorem hole_shape (k1 k2 : NodeList) :
    (k1 = .NNil ∧ k2 = .NNil) ∨ (∀ c, isSimple (nappend k1 (.NCons c k2)) = false) := by
  cases k1 with
  | NNil =>
    cases k2 with
    | NNil => exact Or.inl ⟨rfl, rfl⟩
    | NCons d r => exact Or.inr (fun c => by simp only [nappend]; exact isSimple_two _ _ _)
  | NCons d r =>
    right; intro c
    cases r with
    | NNil => simp only [nappend]; exact isSimple_two _ _ _
    | NCons d2 r2 => simp only [nappend]; exact isSimple_two _ _ _

theorem ctx_shape (ok : Str → Bool) (leaf : Str → Node) (hm : ∀ s, isMeta (leaf s) = false)
    (f : Str → NodeList) (h : CtxL ok leaf f) :
    (∀ s, nonMeta (f s) = .NCons (leaf s) .NNil) ∨ (∀ s, isSimple (nonMeta (f s)) = false) := by
  cases h with
  | here l1 l2 =>
    rcases hole_shape (nonMeta l1) (nonMeta l2) with ⟨h1, h2⟩ | hns
    · left; intro s
      rw [nonMeta_nappend_hole l2 (leaf s) (hm s) l1, h1, h2]; simp [nappend]
    · right; intro s
      rw [nonMeta_nappend_hole l2 (leaf s) (hm s) l1]
      exact hns _
  | inside l1 l2 n ws a f' _ _ =>
    right; intro s
    rw [nonMeta_nappend_hole l2 _ rfl l1]
    rcases hole_shape (nonMeta l1) (nonMeta l2) with ⟨h1, h2⟩ | hns
    · rw [h1, h2]; simp [nappend, isSimple]
    · exact hns _

section generic
variable (cfg : Cfg) (ok : Str → Bool) (leaf : Str → Node) (g : Str → Str) (E : Bool → Prop)
  (hm : ∀ s, isMeta (leaf s) = false)
  (hE : ∀ n, ok n = true → E (!cfg.noEsc n))
  (hstep : ∀ e, E e → ∀ (st : St) (s x y : Str) (i : Nat) (eol : Str),
    rl_step cfg st (leaf s) x y i eol e = ⟨st.html ++ sep st.first st.prev eol ++ lead st.prev i ++ g s, false, false⟩)
  (hsimple : (∀ s, isSimple (.NCons (leaf s) .NNil) = false) ∨
    (∀ n, ok n = true → ∀ (ws : Bool) (op : Str) (i : Nat) (eol s inner : Str),
      tagFrame cfg n ws op (.NCons (leaf s) .NNil) inner i eol = op ++ [62] ++ g s ++ closeT n))
include hE hsimple

theorem ctx_tag_of_list (f : Str → NodeList)
    (hshape : (∀ s, nonMeta (f s) = .NCons (leaf s) .NNil) ∨ (∀ s, isSimple (nonMeta (f s)) = false))
    (ih : ∀ e, E e → ∀ (st : St) (i : Nat) (eol : Str),
      ∃ pre post, ∀ s, (rlist cfg (f s) st i eol e).html = pre ++ g s ++ post)
    (n : Str) (ws : Bool) (a : AttrList) (hn : ok n = true) (i : Nat) (eol : Str) :
    ∃ pre post, ∀ s, rtag cfg (.El n ws a (f s)) i eol = pre ++ g s ++ post := by
  have general : (∀ s, isSimple (nonMeta (f s)) = false) →
      ∃ pre post, ∀ s, rtag cfg (.El n ws a (f s)) i eol = pre ++ g s ++ post := by
    intro hns
    obtain ⟨pre, post, hp⟩ := ih (!cfg.noEsc n) (hE n hn) ⟨[], true, ws⟩ (i+1) eol
    refine ⟨attrFold cfg a (ind i ++ [60] ++ n) ++ [62] ++ (if ws then eol else []) ++ pre,
      post ++ (if ws then eol ++ ind i else []) ++ closeT n, ?_⟩
    intro s
    rw [rtag_el, ctx_tagFrame_general _ _ _ _ _ _ _ _ (hns s), hp s]
    simp only [List.append_assoc]
  rcases hshape with hone | hns
  · rcases hsimple with hl | hfr
    · exact general (fun s => by rw [hone s]; exact hl s)
    · refine ⟨attrFold cfg a (ind i ++ [60] ++ n) ++ [62], closeT n, ?_⟩
      intro s
      rw [rtag_el, hone s, hfr n hn]
  · exact general hns

include hm hstep
theorem ctx_list (f : Str → NodeList) (h : CtxL ok leaf f) :
    ∀ e, E e → ∀ (st : St) (i : Nat) (eol : Str),
      ∃ pre post, ∀ s, (rlist cfg (f s) st i eol e).html = pre ++ g s ++ post := by
  induction h with
  | here l1 l2 =>
    intro e he st i eol
    refine ⟨(rlist cfg l1 st i eol e).html ++ sep (rlist cfg l1 st i eol e).first (rlist cfg l1 st i eol e).prev eol
        ++ lead (rlist cfg l1 st i eol e).prev i,
      (rlist cfg l2 ⟨[], false, false⟩ i eol e).html, ?_⟩
    intro s
    rw [ctx_rlist_nappend, rlist_cons, hstep e he, rlist_from]
  | inside l1 l2 n ws a f' hk hn ih =>
    intro e he st i eol
    have hsh := ctx_shape ok leaf hm f' hk
    obtain ⟨preI, postI, hI⟩ := ctx_tag_of_list cfg ok leaf g E hE hsimple f' hsh ih n ws a hn i eol
    obtain ⟨pre0, post0, h0⟩ := ctx_tag_of_list cfg ok leaf g E hE hsimple f' hsh ih n ws a hn 0 []
    cases hp : ((rlist cfg l1 st i eol e).prev || ws)
    · refine ⟨(rlist cfg l1 st i eol e).html ++ sep (rlist cfg l1 st i eol e).first false eol ++ pre0,
        post0 ++ (rlist cfg l2 ⟨[], false, ws⟩ i eol e).html, ?_⟩
      intro s
      rw [ctx_rlist_nappend, rlist_cons]
      simp only [rl_step, hp]
      rw [rlist_from, h0 s]
      simp [List.append_assoc]
    · refine ⟨(rlist cfg l1 st i eol e).html ++ sep (rlist cfg l1 st i eol e).first true eol ++ preI,
        postI ++ (rlist cfg l2 ⟨[], false, ws⟩ i eol e).html, ?_⟩
      intro s
      rw [ctx_rlist_nappend, rlist_cons]
      simp only [rl_step, hp]
      rw [rlist_from, hI s]
      simp [List.append_assoc]

theorem ctx_tag (f : Str → NodeList) (h : CtxL ok leaf f)
    (n : Str) (ws : Bool) (a : AttrList) (hn : ok n = true) (i : Nat) (eol : Str) :
    ∃ pre post, ∀ s, rtag cfg (.El n ws a (f s)) i eol = pre ++ g s ++ post :=
  ctx_tag_of_list cfg ok leaf g E hE hsimple f (ctx_shape ok leaf hm f h)
    (ctx_list cfg ok leaf g E hm hE hstep hsimple f h) n ws a hn i eol
end generic

/-! instances of the generic hypotheses -/
theorem txt_step (cfg : Cfg) : ∀ e, e = true → ∀ (st : St) (s x y : Str) (i : Nat) (eol : Str),
    rl_step cfg st (.Txt s) x y i eol e = ⟨st.html ++ sep st.first st.prev eol ++ lead st.prev i ++ cfg.escT s, false, false⟩ := by
  intro e he st s x y i eol; subst he; simp [rl_step]
theorem txt_step_noesc (cfg : Cfg) : ∀ e, e = false → ∀ (st : St) (s x y : Str) (i : Nat) (eol : Str),
    rl_step cfg st (.Txt s) x y i eol e = ⟨st.html ++ sep st.first st.prev eol ++ lead st.prev i ++ s, false, false⟩ := by
  intro e he st s x y i eol; subst he; simp [rl_step]
theorem raw_step (cfg : Cfg) : ∀ e, True → ∀ (st : St) (s x y : Str) (i : Nat) (eol : Str),
    rl_step cfg st (.Raw s) x y i eol e = ⟨st.html ++ sep st.first st.prev eol ++ lead st.prev i ++ s, false, false⟩ := by
  intro e _ st s x y i eol; simp [rl_step]
theorem rp_step (cfg : Cfg) (o : Int) : ∀ e, True → ∀ (st : St) (s x y : Str) (i : Nat) (eol : Str),
    rl_step cfg st (.Rp s o) x y i eol e = ⟨st.html ++ sep st.first st.prev eol ++ lead st.prev i ++ s, false, false⟩ := by
  intro e _ st s x y i eol; simp [rl_step]

theorem txt_frame (cfg : Cfg) : ∀ n, (!cfg.noEsc n) = true → ∀ (ws : Bool) (op : Str) (i : Nat) (eol s inner : Str),
    tagFrame cfg n ws op (.NCons (.Txt s) .NNil) inner i eol = op ++ [62] ++ cfg.escT s ++ closeT n := by
  intro n hn ws op i eol s inner
  simp only [Bool.not_eq_true'] at hn
  simp [tagFrame, hn]
theorem txt_frame_noesc (cfg : Cfg) : ∀ n, cfg.noEsc n = true → ∀ (ws : Bool) (op : Str) (i : Nat) (eol s inner : Str),
    tagFrame cfg n ws op (.NCons (.Txt s) .NNil) inner i eol = op ++ [62] ++ s ++ closeT n := by
  intro n hn ws op i eol s inner
  simp [tagFrame, hn]
theorem raw_frame (cfg : Cfg) : ∀ n, true = true → ∀ (ws : Bool) (op : Str) (i : Nat) (eol s inner : Str),
    tagFrame cfg n ws op (.NCons (.Raw s) .NNil) inner i eol = op ++ [62] ++ s ++ closeT n := by
  intro n _ ws op i eol s inner
  simp [tagFrame]

/-- C02: a plain string child at any depth of ordinary elements is emitted as exactly `escT s`, and the
rest of the output does not depend on it -/
theorem C02_text_inert_list (cfg : Cfg) (f : Str → NodeList) (h : CtxL (fun n => !cfg.noEsc n) (fun s => .Txt s) f)
    (st : St) (i : Nat) (eol : Str) :
    ∃ pre post, ∀ s, (rlist cfg (f s) st i eol true).html = pre ++ cfg.escT s ++ post :=
  ctx_list cfg (fun n => !cfg.noEsc n) (fun s => .Txt s) cfg.escT (fun e => e = true) (fun _ => rfl) (fun _ hn => hn)
    (txt_step cfg) (Or.inr (txt_frame cfg)) f h true rfl st i eol
theorem C02_text_inert_tag (cfg : Cfg) (f : Str → NodeList) (h : CtxL (fun n => !cfg.noEsc n) (fun s => .Txt s) f)
    (n : Str) (ws : Bool) (a : AttrList) (hn : cfg.noEsc n = false) (i : Nat) (eol : Str) :
    ∃ pre post, ∀ s, rtag cfg (.El n ws a (f s)) i eol = pre ++ cfg.escT s ++ post :=
  ctx_tag cfg (fun n => !cfg.noEsc n) (fun s => .Txt s) cfg.escT (fun e => e = true) (fun _ => rfl) (fun _ hn => hn)
    (txt_step cfg) (Or.inr (txt_frame cfg)) f h n ws a (by simp [hn]) i eol

/-- C04: HTML() content at any depth (any parents, script/style included) is emitted byte-for-byte -/
theorem C04_raw_verbatim_list (cfg : Cfg) (f : Str → NodeList) (h : CtxL (fun _ => true) (fun s => .Raw s) f)
    (st : St) (i : Nat) (eol : Str) (e : Bool) :
    ∃ pre post, ∀ s, (rlist cfg (f s) st i eol e).html = pre ++ s ++ post :=
  ctx_list cfg (fun _ => true) (fun s => .Raw s) (fun s => s) (fun _ => True) (fun _ => rfl) (fun _ _ => trivial)
    (raw_step cfg) (Or.inr (raw_frame cfg)) f h e trivial st i eol
theorem C04_raw_verbatim_tag (cfg : Cfg) (f : Str → NodeList) (h : CtxL (fun _ => true) (fun s => .Raw s) f)
    (n : Str) (ws : Bool) (a : AttrList) (i : Nat) (eol : Str) :
    ∃ pre post, ∀ s, rtag cfg (.El n ws a (f s)) i eol = pre ++ s ++ post :=
  ctx_tag cfg (fun _ => true) (fun s => .Raw s) (fun s => s) (fun _ => True) (fun _ => rfl) (fun _ _ => trivial)
    (raw_step cfg) (Or.inr (raw_frame cfg)) f h n ws a rfl i eol
/-- C04: what an object's _repr_html_() returns is emitted byte-for-byte -/
theorem C04_repr_verbatim_tag (cfg : Cfg) (o : Int) (f : Str → NodeList) (h : CtxL (fun _ => true) (fun s => .Rp s o) f)
    (n : Str) (ws : Bool) (a : AttrList) (i : Nat) (eol : Str) :
    ∃ pre post, ∀ s, rtag cfg (.El n ws a (f s)) i eol = pre ++ s ++ post :=
  ctx_tag cfg (fun _ => true) (fun s => .Rp s o) (fun s => s) (fun _ => True) (fun _ => rfl) (fun _ _ => trivial)
    (rp_step cfg o) (Or.inl (fun _ => rfl)) f h n ws a rfl i eol
/-- C04: text placed directly inside <script>/<style> is emitted byte-for-byte (single child or among siblings) -/
theorem C04_noesc_text_verbatim (cfg : Cfg) (n : Str) (ws : Bool) (a : AttrList) (l1 l2 : NodeList) (hn : cfg.noEsc n = true)
    (i : Nat) (eol : Str) :
    ∃ pre post, ∀ s, rtag cfg (.El n ws a (nappend l1 (.NCons (.Txt s) l2))) i eol = pre ++ s ++ post :=
  ctx_tag cfg (fun n => cfg.noEsc n) (fun s => .Txt s) (fun s => s) (fun e => e = false) (fun _ => rfl)
    (fun _ hn => by simp [hn]) (txt_step_noesc cfg) (Or.inr (txt_frame_noesc cfg))
    (fun s => nappend l1 (.NCons (.Txt s) l2)) (CtxL.here l1 l2) n ws a hn i eol

#print axioms C02_decodes
#print axioms C02_text_inert_tag
#print axioms C04_raw_verbatim_tag
end HV
