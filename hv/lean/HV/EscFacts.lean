/-
Table-independent escape facts (C01, C02, C03): what can and cannot occur in `esc T s`, decoding.
Statements fixed; proofs to be supplied.  `Table`, `esc`, `escChar`, `lookup`, `keysFresh`, `stripPre`
come from HV.Esc / HV.Prim.
-/
import HV.Esc
namespace HV

/-- a character that is a key of the table and occurs in no replacement text never occurs in the output -/
theorem lookup_mem (T : Table) (x : Nat) (v : Str) (h : lookup T x = some v) : (x, v) ∈ T := by
  induction T with
  | nil => simp [lookup] at h
  | cons p t ih =>
    obtain ⟨c, w⟩ := p
    simp only [lookup] at h
    split at h
    · rename_i hc; simp at h; simp [hc, h]
    · simp [ih h]

theorem lookup_isSome_iff (T : Table) (c : Nat) : (lookup T c).isSome = true ↔ c ∈ T.map Prod.fst := by
  induction T with
  | nil => simp [lookup]
  | cons p t ih =>
    obtain ⟨k, w⟩ := p
    simp only [lookup, List.map_cons, List.mem_cons]
    split
    · rename_i hc; simp [hc]
    · rename_i hc; simp [hc, ih]

/-- the key set of a table is a given finite list (as a set); both inclusions are decidable -/
theorem keys_iff_of_B (T : Table) (ks : List Nat)
    (h1 : T.all (fun p => ks.contains p.1) = true) (h2 : ks.all (fun k => (lookup T k).isSome) = true) (c : Nat) :
    (lookup T c).isSome = true ↔ c ∈ ks := by
  constructor
  · intro h
    rw [lookup_isSome_iff] at h
    simp only [List.mem_map] at h
    obtain ⟨p, hp, rfl⟩ := h
    simp only [List.all_eq_true] at h1
    simpa using h1 p hp
  · intro h
    simp only [List.all_eq_true] at h2
    exact h2 c h

theorem escChar_avoids (T : Table) (c : Nat) (hk : (lookup T c).isSome = true) (hv : ∀ p ∈ T, c ∉ p.2) (x : Nat) :
    c ∉ escChar T x := by
  unfold escChar
  cases hl : lookup T x with
  | none =>
    simp only [Option.getD_none, List.mem_singleton]
    intro h; subst h; simp [hl] at hk
  | some v =>
    simp only [Option.getD_some]
    exact hv (x, v) (lookup_mem T x v hl)

theorem esc_avoids (T : Table) (c : Nat) (hk : (lookup T c).isSome = true) (hv : ∀ p ∈ T, c ∉ p.2) (s : Str) :
    c ∉ esc T s := by
  induction s with
  | nil => simp [esc]
  | cons x xs ih =>
    rw [esc_cons, List.mem_append, not_or]
    exact ⟨escChar_avoids T c hk hv x, ih⟩

def avoidsB (T : Table) (c : Nat) : Bool := (lookup T c).isSome && T.all (fun p => !p.2.contains c)

theorem esc_avoids_B (T : Table) (c : Nat) (h : avoidsB T c = true) (s : Str) : c ∉ esc T s := by
  simp only [avoidsB, Bool.and_eq_true, List.all_eq_true] at h
  apply esc_avoids T c h.1
  intro p hp
  have := h.2 p hp
  simpa using this

/-- characters that are not keys are unchanged, keys are replaced by their value: esc is the
per-character map (this is its definition, restated for reference) -/
theorem esc_char_spec (T : Table) (s : Str) :
    esc T s = s.flatMap (fun c => match lookup T c with | some v => v | none => [c]) := by
  unfold esc
  congr 1
  funext c
  unfold escChar
  cases lookup T c <;> rfl

/-- a character that is not a key is emitted unchanged -/
theorem esc_single_nonkey (T : Table) (c : Nat) (h : (lookup T c).isNone = true) : esc T [c] = [c] := by
  cases hl : lookup T c with
  | none => simp [esc, escChar, hl]
  | some v => simp [hl] at h

/-! ## decoding (ported from probes/C02_C03_decode_escape.lean) -/

/-- first table entry whose replacement text is a prefix of the input -/
def matchRef : Table → Str → Option (Nat × Str)
  | [], _ => none
  | (c, v) :: t, s => match stripPre v s with
    | some r => some (c, r)
    | none => matchRef t s

/-- reference decoder: at each position, a table reference decodes to its key, anything else is literal -/
def decodeF (T : Table) : Nat → Str → Str
  | 0, _ => []
  | _, [] => []
  | f+1, x :: xs => match matchRef T (x :: xs) with
    | some (c, r) => c :: decodeF T f r
    | none => x :: decodeF T f xs

def decode (T : Table) (s : Str) : Str := decodeF T s.length s

def startsAmp (T : Table) : Prop := ∀ p ∈ T, ∃ w, p.2 = 38 :: w
def ampIsKey (T : Table) : Prop := (lookup T 38).isSome
def prefixFree (T : Table) : Prop :=
  ∀ p ∈ T, ∀ q ∈ T, ∀ r, stripPre p.2 (q.2 ++ r) ≠ none → p = q

def comparableB : Str → Str → Bool
  | [], _ => true
  | _, [] => true
  | a :: v, b :: w => a == b && comparableB v w
def prefixFreeB (T : Table) : Bool := T.all fun p => T.all fun q => !(comparableB p.2 q.2) || (p == q)
def startsAmpB (T : Table) : Bool := T.all fun p => p.2.head? == some 38
def ampIsKeyB (T : Table) : Bool := (lookup T 38).isSome

theorem stripPre_comparable (v w r : Str) (h : stripPre v (w ++ r) ≠ none) : comparableB v w = true := by
  induction v generalizing w with
  | nil => simp [comparableB]
  | cons a v ih =>
    cases w with
    | nil => simp [comparableB]
    | cons b w =>
      simp only [List.cons_append, stripPre] at h
      split at h
      · rename_i hab; simp [comparableB, hab, ih w h]
      · simp at h

theorem prefixFree_of_B (T : Table) (h : prefixFreeB T = true) : prefixFree T := by
  intro p hp q hq r hne
  have hc := stripPre_comparable p.2 q.2 r hne
  simp only [prefixFreeB, List.all_eq_true] at h
  have := h p hp q hq
  simp [hc] at this; exact this

theorem startsAmp_of_B (T : Table) (h : startsAmpB T = true) : startsAmp T := by
  intro p hp
  simp only [startsAmpB, List.all_eq_true] at h
  have := h p hp
  cases hv : p.2 with
  | nil => simp [hv] at this
  | cons a w => simp [hv] at this; exact ⟨w, by simp [this]⟩

theorem ampIsKey_of_B (T : Table) (h : ampIsKeyB T = true) : ampIsKey T := h

theorem matchRef_none_of_ne_amp (T : Table) (hs : startsAmp T) (x : Nat) (xs : Str) (hx : x ≠ 38) :
    matchRef T (x :: xs) = none := by
  induction T with
  | nil => simp [matchRef]
  | cons p t ih =>
    obtain ⟨c, v⟩ := p
    obtain ⟨w, hw⟩ := hs (c, v) (by simp)
    simp only at hw; subst hw
    have : stripPre (38 :: w) (x :: xs) = none := by simp [stripPre, Ne.symm hx]
    simp only [matchRef, this]
    exact ih (fun p hp => hs p (by simp [hp]))

theorem matchRef_hit (T : Table) (hp : prefixFree T) (x : Nat) (v r : Str)
    (hl : lookup T x = some v) : matchRef T (v ++ r) = some (x, r) := by
  have hmem := lookup_mem T x v hl
  suffices ∀ T', (∀ p ∈ T', p ∈ T) → lookup T' x = some v → matchRef T' (v ++ r) = some (x, r) from
    this T (fun _ h => h) hl
  intro T' hsub hl'
  induction T' with
  | nil => simp [lookup] at hl'
  | cons p t ih =>
    obtain ⟨c, w⟩ := p
    simp only [lookup] at hl'
    simp only [matchRef]
    split at hl'
    · rename_i hc; simp at hl'; subst hc; subst hl'; simp [stripPre_append]
    · rename_i hc
      cases hw : stripPre w (v ++ r) with
      | none => simp only []; exact ih (fun p hp => hsub p (by simp [hp])) hl'
      | some r' =>
        have := hp (c, w) (hsub _ (by simp)) (x, v) hmem r (by simp [hw])
        simp at this; exact absurd this.1.symm hc

theorem decodeF_esc (T : Table) (hs : startsAmp T) (ha : ampIsKey T) (hp : prefixFree T) (s : Str) :
    ∀ f, (esc T s).length ≤ f → decodeF T f (esc T s) = s := by
  induction s with
  | nil => intro f _; cases f <;> simp [esc, decodeF]
  | cons x xs ih =>
    intro f hf
    have hcons : esc T (x :: xs) = escChar T x ++ esc T xs := by simp [esc]
    rw [hcons] at hf ⊢
    cases hl : lookup T x with
    | none =>
      have hx : x ≠ 38 := by
        intro h; subst h; simp [ampIsKey, hl] at ha
      simp only [escChar, hl, Option.getD_none, List.singleton_append, List.length_cons] at hf ⊢
      cases f with
      | zero => omega
      | succ f =>
        simp only [decodeF, matchRef_none_of_ne_amp T hs x _ hx]
        rw [ih f (by omega)]
    | some v =>
      obtain ⟨w, hw⟩ := hs (x, v) (lookup_mem T x v hl)
      simp only at hw; subst hw
      simp only [escChar, hl, Option.getD_some, List.cons_append, List.length_cons, List.length_append] at hf ⊢
      cases f with
      | zero => omega
      | succ f =>
        have := matchRef_hit T hp x (38 :: w) (esc T xs) hl
        simp only [List.cons_append] at this
        simp only [decodeF, this]
        rw [ih f (by omega)]

/-- the escaped text decodes to exactly the original characters -/
theorem decode_esc (T : Table) (hs : startsAmpB T = true) (ha : ampIsKeyB T = true) (hp : prefixFreeB T = true) (s : Str) :
    decode T (esc T s) = s :=
  decodeF_esc T (startsAmp_of_B T hs) (ampIsKey_of_B T ha) (prefixFree_of_B T hp) s _ (Nat.le_refl _)

/-- every '&' in the output begins one of the table's references (so no reference can be forged
by the input): whenever the output splits as pre ++ '&' :: post at an output position that starts a
character's image, ... — stated on the decomposition into per-character images: -/
theorem esc_amp_only_refs (T : Table) (hs : startsAmpB T = true) (ha : ampIsKeyB T = true)
    (hnoamp : T.all (fun p => !(p.2.drop 1).contains 38) = true) (s : Str) :
    ∀ pre post, esc T s = pre ++ 38 :: post → ∃ p ∈ T, ∃ rest, 38 :: post = p.2 ++ rest := by
  have hs' := startsAmp_of_B T hs
  induction s with
  | nil => intro pre post h; simp [esc] at h
  | cons x xs ih =>
    intro pre post h
    rw [esc_cons] at h
    cases hl : lookup T x with
    | none =>
      have hx : x ≠ 38 := by
        intro e; subst e; simp [ampIsKeyB, hl] at ha
      simp only [escChar, hl, Option.getD_none, List.singleton_append] at h
      cases pre with
      | nil => simp at h; exact absurd h.1 hx
      | cons y pre' =>
        simp only [List.cons_append, List.cons.injEq] at h
        exact ih pre' post h.2
    | some v =>
      have hmem := lookup_mem T x v hl
      obtain ⟨w, hw⟩ := hs' (x, v) hmem
      simp only at hw
      have hnw : 38 ∉ w := by
        simp only [List.all_eq_true] at hnoamp
        have := hnoamp (x, v) hmem
        simpa [hw] using this
      simp only [escChar, hl, Option.getD_some] at h
      rw [List.append_eq_append_iff] at h
      rcases h with ⟨a', hpre, hrest⟩ | ⟨c', hv, hrest⟩
      · exact ih a' post hrest
      · cases c' with
        | nil => exact ih [] post (by simpa using hrest.symm)
        | cons z c'' =>
          simp only [List.cons_append, List.cons.injEq] at hrest
          obtain ⟨hz, hpost⟩ := hrest
          subst hz
          cases pre with
          | nil =>
            simp only [List.nil_append] at hv
            exact ⟨(x, v), hmem, esc T xs, by simp [hv, hpost]⟩
          | cons y pre' =>
            rw [hw] at hv
            simp only [List.cons_append, List.cons.injEq] at hv
            exact absurd (by simp [hv.2]) hnw

/-! ## character references: what "a character reference that decodes to it" means -/
def decDigits (n : Nat) : Str := (toString n).toList.map Char.toNat

/-- `v` is an HTML character reference for code point `k`: one of the five predefined named
references, or the decimal numeric reference `&#k;` -/
def refDecodes (v : Str) (k : Nat) : Bool :=
  (v == [38,97,109,112,59] && k == 38) || (v == [38,108,116,59] && k == 60) || (v == [38,103,116,59] && k == 62) ||
  (v == [38,113,117,111,116,59] && k == 34) || (v == [38,97,112,111,115,59] && k == 39) ||
  (v == [38,35] ++ decDigits k ++ [59])

end HV
