/-
Primitive functions whose types mention generated sorts (StrList): whitespace tokens, css key helpers.
Hand-written third form of the prims in hv/spec/helpers.py (cross-checked per run against CPython).
-/
import HV.Sorts
namespace HV

/-- Python's `str.isspace` characters (what `str.split()` / `str.strip()` treat as whitespace) -/
def isWs (c : Nat) : Bool :=
  (9 ≤ c && c ≤ 13) || (28 ≤ c && c ≤ 32) || c == 133 || c == 160 || c == 5760 || (8192 ≤ c && c ≤ 8202) ||
  c == 8232 || c == 8233 || c == 8239 || c == 8287 || c == 12288

/-- tokens of `s.split()`; `cur` is the token being read (in order) -/
def splitAux : Str → Str → StrList
  | [], cur => if cur.isEmpty then .SNil else .SCons cur .SNil
  | c :: cs, cur =>
    if isWs c then (if cur.isEmpty then splitAux cs [] else .SCons cur (splitAux cs []))
    else splitAux cs (cur ++ [c])

/-- `s.split()` -/
def splitWs (s : Str) : StrList := splitAux s []

/-- `" ".join(l)` -/
def joinSp : StrList → Str
  | .SNil => []
  | .SCons x .SNil => x
  | .SCons x r => x ++ [32] ++ joinSp r

/-- `";".join(l)` -/
def joinSemi : StrList → Str
  | .SNil => []
  | .SCons x .SNil => x
  | .SCons x r => x ++ [59] ++ joinSemi r

/-- `"\n".join(l)` -/
def joinNl : StrList → Str
  | .SNil => []
  | .SCons x .SNil => x
  | .SCons x r => x ++ [10] ++ joinNl r

/-- split at the first occurrence of `sub`: (text before it, text after it) -/
def splitFirst : Str → Str → Option (Str × Str)
  | [], sub => if sub = [] then some ([], []) else none
  | x :: xs, sub =>
    match stripPre sub (x :: xs) with
    | some rest => some ([], rest)
    | none => (splitFirst xs sub).map (fun p => (x :: p.1, p.2))

/-- `re.findall(o (.*?) c, s)` with DOTALL-like `(?:.|\r|\n)`: leftmost `o`, then the first `c` after it, then continue after
that `c` (explicit fuel; `s.length + 1` suffices for non-empty `o`, `c`) -/
def reFindallLazyAux (o c : Str) : Nat → Str → StrList
  | 0, _ => .SNil
  | f+1, s =>
    match splitFirst s o with
    | none => .SNil
    | some (_, rest) =>
      match splitFirst rest c with
      | none => .SNil
      | some (text, post) => .SCons text (reFindallLazyAux o c f post)

def reFindallLazy (o c s : Str) : StrList := reFindallLazyAux o c (s.length + 1) s

/-- `re.sub(<that pattern>, "", s)` -/
def reSubLazyAux (o c : Str) : Nat → Str → Str
  | 0, s => s
  | f+1, s =>
    match splitFirst s o with
    | none => s
    | some (pre, rest) =>
      match splitFirst rest c with
      | none => s
      | some (_, post) => pre ++ reSubLazyAux o c f post

def reSubLazy (o c s : Str) : Str := reSubLazyAux o c (s.length + 1) s

def dropWsLeft : Str → Str
  | [] => []
  | c :: cs => if isWs c then dropWsLeft cs else c :: cs

/-- `s.strip()` -/
def stripWs (s : Str) : Str := (dropWsLeft (dropWsLeft s).reverse).reverse

/-- `s.rstrip()` -/
def rstripWs (s : Str) : Str := (dropWsLeft s.reverse).reverse

/-- `s.lstrip()` -/
def lstripWs (s : Str) : Str := dropWsLeft s

/-- `re.sub("([A-Z])", "-\\1", s)`: a hyphen before every ASCII capital letter -/
def camelHyphen (s : Str) : Str := s.flatMap (fun c => if 65 ≤ c ∧ c ≤ 90 then [45, c] else [c])

/-- `s.lower()` on ASCII letters (non-ASCII case mapping is not modelled: residue of C16) -/
def lowerStr (s : Str) : Str := s.map (fun c => if 65 ≤ c ∧ c ≤ 90 then c + 32 else c)

end HV
