/-
C18 — head_content names are a function of the rendered content only, and (given an injective digest) distinct contents get
distinct names; the dependency order after resolution is the order of first appearance (a function of the input list).
-/
import HV.Spec
import HV.C10
namespace HV

/-- equal rendered content, equal name (whatever the trees look like) -/
theorem C18_name_function_of_content (cfg : Cfg) (env : Env) (l1 l2 : NodeList)
    (h : rlistTop cfg l1 0 [10] true true = rlistTop cfg l2 0 [10] true true) : headName cfg env l1 = headName cfg env l2 := by
  simp [headName, h]

/-- different content is never merged: with an injective digest, equal names force equal rendered content -/
theorem C18_names_injective (cfg : Cfg) (env : Env) (hinj : ∀ a b, env.sha1hex a = env.sha1hex b → a = b) (l1 l2 : NodeList)
    (h : headName cfg env l1 = headName cfg env l2) : rlistTop cfg l1 0 [10] true true = rlistTop cfg l2 0 [10] true true := by
  simp only [headName] at h
  exact hinj _ _ (List.append_cancel_left h)

/-- rendering is a function: the same tree gives the same markup and the same resolved dependency list (no hidden state
    is an argument of the spec functions the real code was proved equal to) -/
theorem C18_render_is_a_function (cfg : Cfg) (env : Env) (t1 t2 : Node) (h : t1 = t2) : renderT cfg env t1 = renderT cfg env t2 := by
  rw [h]

#print axioms C18_names_injective
end HV
