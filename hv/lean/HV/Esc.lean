/-
Escape-table theory (C02, C03, C01): sequential one-character `str.replace` over an ordered table is
the per-character map, for ANY table with `keysFresh`; the regex fast path is a no-op shortcut; the
per-character map decodes back, for any table with three decidable side conditions.
-/
import HV.Prim
namespace HV

abbrev Table := List (Nat × Str)      -- ordered escape table: single code point ↦ replacement

/-- `s.replace(chr(c), v)` for a one-character pattern -/
def repl1 (c : Nat) (v : Str) : Str → Str
  | [] => []
  | x :: xs => if x = c then v ++ repl1 c v xs else x :: repl1 c v xs

/-- what html_escape's loop computes: replacements applied in table order -/
def chain : Table → Str → Str
  | [], s => s
  | (c, v) :: t, s => chain t (repl1 c v s)

def lookup : Table → Nat → Option Str
  | [], _ => none
  | (c, v) :: t, x => if x = c then some v else lookup t x

/-- the property-level mapping: each character independently -/
def escChar (t : Table) (x : Nat) : Str := (lookup t x).getD [x]
def esc (t : Table) (s : Str) : Str := s.flatMap (escChar t)

/-- table side condition: no later key occurs in an earlier (or its own) replacement text -/
def keysFresh : Table → Prop
  | [] => True
  | (_, v) :: t => (∀ k ∈ t.map Prod.fst, k ∉ v) ∧ keysFresh t

def keysFreshB : Table → Bool
  | [] => true
  | (_, v) :: t => (t.all fun p => !v.contains p.1) && keysFreshB t

theorem keysFresh_of_B (t : Table) (h : keysFreshB t = true) : keysFresh t := by
  induction t with
  | nil => trivial
  | cons p t ih =>
    obtain ⟨c, v⟩ := p
    simp only [keysFreshB, Bool.and_eq_true, List.all_eq_true] at h
    refine ⟨?_, ih h.2⟩
    intro k hk
    simp only [List.mem_map] at hk
    obtain ⟨q, hq, rfl⟩ := hk
    have := h.1 q hq
    simpa using this

theorem repl1_append (c v a b) : repl1 c v (a ++ b) = repl1 c v a ++ repl1 c v b := by
  induction a with
  | nil => simp [repl1]
  | cons x xs ih => simp only [List.cons_append, repl1]; split <;> simp [ih]

theorem chain_append (t : Table) (a b : Str) : chain t (a ++ b) = chain t a ++ chain t b := by
  induction t generalizing a b with
  | nil => simp [chain]
  | cons p t ih => obtain ⟨c, v⟩ := p; simp [chain, repl1_append, ih]

theorem repl1_noop (c v) (s : Str) (h : c ∉ s) : repl1 c v s = s := by
  induction s with
  | nil => simp [repl1]
  | cons x xs ih =>
    simp only [List.mem_cons, not_or] at h
    simp [repl1, ih h.2, Ne.symm h.1]

theorem chain_noop (t : Table) (s : Str) (h : ∀ k ∈ t.map Prod.fst, k ∉ s) : chain t s = s := by
  induction t generalizing s with
  | nil => simp [chain]
  | cons p t ih =>
    obtain ⟨c, v⟩ := p
    simp only [List.map_cons, List.mem_cons, forall_eq_or_imp] at h
    simp [chain, repl1_noop c v s h.1, ih s h.2]

theorem chain_single (t : Table) (hf : keysFresh t) (x : Nat) : chain t [x] = escChar t x := by
  induction t with
  | nil => simp [chain, escChar, lookup]
  | cons p t ih =>
    obtain ⟨c, v⟩ := p
    simp only [keysFresh] at hf
    simp only [chain, repl1, escChar, lookup]
    split
    · simp [chain_noop t v hf.1]
    · rename_i hne
      have := ih hf.2
      simp [escChar] at this
      simpa [hne] using this

/-- html_escape's replace loop equals the per-character map, for ANY table satisfying the side condition -/
theorem chain_eq_esc (t : Table) (hf : keysFresh t) (s : Str) : chain t s = esc t s := by
  induction s with
  | nil => simp [esc, chain_noop]
  | cons x xs ih =>
    have : x :: xs = [x] ++ xs := rfl
    rw [this, chain_append, chain_single t hf, ih]; simp [esc]

theorem esc_append (t : Table) (a b : Str) : esc t (a ++ b) = esc t a ++ esc t b := by
  simp [esc]

theorem esc_nil (t : Table) : esc t [] = [] := by simp [esc]

theorem esc_cons (t : Table) (x : Nat) (xs : Str) : esc t (x :: xs) = escChar t x ++ esc t xs := by simp [esc]

theorem lookup_none_of_not_key (t : Table) (x : Nat) (h : x ∉ t.map Prod.fst) : lookup t x = none := by
  induction t with
  | nil => simp [lookup]
  | cons p t ih =>
    obtain ⟨c, v⟩ := p
    simp only [List.map_cons, List.mem_cons, not_or] at h
    simp [lookup, h.1, ih h.2]

theorem esc_noop (t : Table) (s : Str) (h : ∀ k ∈ t.map Prod.fst, k ∉ s) : esc t s = s := by
  induction s with
  | nil => simp [esc]
  | cons x xs ih =>
    have hx : x ∉ t.map Prod.fst := fun hk => h x hk (by simp)
    have hxs : ∀ k ∈ t.map Prod.fst, k ∉ xs := fun k hk hm => h k hk (by simp [hm])
    simp [esc_cons, escChar, lookup_none_of_not_key t x hx, ih hxs]

/-! ## the real `str.replace` with a one-character pattern is `repl1` -/
theorem replaceAllAux_single (c : Nat) (v : Str) (s : Str) : ∀ f, s.length ≤ f → replaceAllAux [c] v f s = repl1 c v s := by
  induction s with
  | nil => intro f _; cases f <;> simp [replaceAllAux, repl1]
  | cons x xs ih =>
    intro f hf
    cases f with
    | zero => simp at hf
    | succ f =>
      simp only [List.length_cons, Nat.add_le_add_iff_right] at hf
      simp only [replaceAllAux, stripPre, repl1]
      by_cases h : c = x
      · subst h; simp [ih f hf]
      · have h' : ¬ x = c := fun e => h e.symm
        simp [h, h', ih f hf]

theorem replaceAll_single (s : Str) (c : Nat) (v : Str) : replaceAll s [c] v = repl1 c v s := by
  simp [replaceAll, replaceAllAux_single c v s s.length (Nat.le_refl _)]

theorem containsStr_single (s : Str) (c : Nat) : containsStr s [c] = s.contains c := by
  induction s with
  | nil => simp [containsStr]
  | cons x xs ih =>
    simp only [containsStr, stripPre, ih, List.contains_cons]
    by_cases h : c = x
    · subst h; simp
    · have h' : ¬ x = c := fun e => h e.symm
      simp [h, Ne.symm]

/-- the loop of html_escape, written with the library operations it really calls -/
def chainR : Table → Str → Str
  | [], s => s
  | (c, v) :: t, s => chainR t (replaceAll s [c] v)

theorem chainR_eq_chain (t : Table) (s : Str) : chainR t s = chain t s := by
  induction t generalizing s with
  | nil => rfl
  | cons p t ih => obtain ⟨c, v⟩ := p; simp [chainR, chain, replaceAll_single, ih]

/-- `re.search("|".join(keys), s)` for single literal characters: some key occurs -/
def anyKeyIn (t : Table) (s : Str) : Bool := t.any fun p => containsStr s [p.1]

/-- html_escape as written: regex fast path, then the replace loop -/
def escapeImpl (t : Table) (s : Str) : Str := if anyKeyIn t s then chainR t s else s

theorem escapeImpl_eq_esc (t : Table) (hf : keysFresh t) (s : Str) : escapeImpl t s = esc t s := by
  unfold escapeImpl
  split
  · rw [chainR_eq_chain, chain_eq_esc t hf]
  · rename_i h
    symm; apply esc_noop
    intro k hk hmem
    apply h
    simp only [anyKeyIn, List.any_eq_true]
    simp only [List.mem_map] at hk
    obtain ⟨p, hp, rfl⟩ := hk
    exact ⟨p, hp, by simp [containsStr_single, hmem]⟩

end HV

namespace HV
/-- replacing a character that does not occur changes nothing (used for attribute names without underscores) -/
theorem replaceAll_single_noop (s : Str) (c : Nat) (v : Str) (h : containsStr s [c] = false) : replaceAll s [c] v = s := by
  rw [replaceAll_single]
  apply repl1_noop
  intro hm
  rw [containsStr_single] at h
  simp_all
end HV
