/-
C15 — attribute names and values are normalised and merged in argument order.
Statements fixed; proofs to be supplied.  All functions (`normName`, `normVal`, `aset`, `aget`, `ahas`,
`aupdate`, `updStep`, `mergeDict`, `mergeDicts`, `mergeCall`, `callDicts`, `setItemSpec`, `toArgDict`,
`joinAV`, …) are the generated L1 specs in HV.Spec.

Layout note: the theorems of the "names" section and the definitions `pairsOfD … firstOcc` precede
`mergeCall_nodup` / `aupdate_nil_*` because the proofs depend on them (reordering only; every statement
is unchanged).  Helper lemmas (unnumbered names) are additions.
-/
import HV.Spec
import HV.Esc
namespace HV

/-! ### ordered-dict facts -/
def keysOf : AttrList → List Str
  | .ANil => []
  | .ACons k _ tl => k :: keysOf tl

theorem ahas_iff_mem (a : AttrList) (k : Str) : ahas a k = true ↔ k ∈ keysOf a := by
  induction a with
  | ANil => simp [ahas, keysOf]
  | ACons k2 v tl ih =>
    simp only [ahas, keysOf, Bool.or_eq_true, beq_iff_eq, List.mem_cons, ih]
    constructor
    · rintro (h | h)
      · exact Or.inl h.symm
      · exact Or.inr h
    · rintro (h | h)
      · exact Or.inl h.symm
      · exact Or.inr h

theorem ahas_false_iff (a : AttrList) (k : Str) : ahas a k = false ↔ k ∉ keysOf a := by
  rw [← ahas_iff_mem]; simp

theorem aset_keys_of_mem (a : AttrList) (k : Str) (v : AttrVal) (h : k ∈ keysOf a) : keysOf (aset a k v) = keysOf a := by
  induction a with
  | ANil => simp [keysOf] at h
  | ACons k2 v2 tl ih =>
    simp only [aset]
    by_cases hk : k2 = k
    · simp [hk, keysOf]
    · simp only [beq_iff_eq, hk, if_false, keysOf]
      simp only [keysOf, List.mem_cons] at h
      rcases h with h | h
      · exact absurd h.symm hk
      · rw [ih h]

theorem aset_keys_of_not_mem (a : AttrList) (k : Str) (v : AttrVal) (h : k ∉ keysOf a) : keysOf (aset a k v) = keysOf a ++ [k] := by
  induction a with
  | ANil => simp [aset, keysOf]
  | ACons k2 v2 tl ih =>
    simp only [keysOf, List.mem_cons, not_or] at h
    have hk : ¬ k2 = k := fun e => h.1 e.symm
    simp only [aset, beq_iff_eq, hk, if_false, keysOf, ih h.2, List.cons_append]

theorem aget_aset_same (a : AttrList) (k : Str) (v : AttrVal) : aget (aset a k v) k = v := by
  induction a with
  | ANil => simp [aset, aget]
  | ACons k2 v2 tl ih =>
    simp only [aset]
    by_cases hk : k2 = k
    · simp [hk, aget]
    · simp [hk, aget, ih]

theorem aget_aset_other (a : AttrList) (k k' : Str) (v : AttrVal) (h : k' ≠ k) : aget (aset a k v) k' = aget a k' := by
  induction a with
  | ANil => simp [aset, aget, Ne.symm h]
  | ACons k2 v2 tl ih =>
    simp only [aset]
    by_cases hk : k2 = k
    · subst hk
      simp [aget, Ne.symm h]
    · simp only [beq_iff_eq, hk, if_false, aget, ih]

theorem aset_nodup (a : AttrList) (k : Str) (v : AttrVal) (h : (keysOf a).Nodup) : (keysOf (aset a k v)).Nodup := by
  by_cases hk : k ∈ keysOf a
  · rw [aset_keys_of_mem a k v hk]; exact h
  · rw [aset_keys_of_not_mem a k v hk]
    rw [List.nodup_append]
    refine ⟨h, by simp, ?_⟩
    intro x hx y hy
    simp at hy
    subst hy
    intro e; subst e; exact hk hx

theorem ahas_aset (a : AttrList) (k k' : Str) (v : AttrVal) : ahas (aset a k v) k' = (ahas a k' || k == k') := by
  induction a with
  | ANil => simp [aset, ahas]
  | ACons k2 v2 tl ih =>
    simp only [aset]
    by_cases hk : k2 = k
    · subst hk
      simp only [beq_self_eq_true, if_true, ahas]
      cases (k2 == k') <;> simp
    · simp only [beq_iff_eq, hk, if_false, ahas, ih, Bool.or_assoc]

/-! ### names -/
theorem endsWith_us (x : Str) : endsWith x [95] = true ↔ x.getLast? = some 95 := by
  unfold endsWith
  rw [List.isSuffixOf_iff_suffix]
  constructor
  · rintro ⟨t, rfl⟩; simp
  · intro h
    rw [List.getLast?_eq_some_iff] at h
    obtain ⟨ys, rfl⟩ := h
    exact ⟨ys, rfl⟩

theorem repl1_eq_map (s : Str) : repl1 95 [45] s = s.map (fun c => if c = 95 then 45 else c) := by
  induction s with
  | nil => rfl
  | cons x xs ih =>
    simp only [repl1, List.map_cons, ih]
    split <;> simp

/-- one trailing underscore removed, every remaining underscore turned into a hyphen -/
theorem C15_normName_spec (x : Str) :
    normName x = (if x.getLast? = some 95 then x.dropLast else x).map (fun c => if c = 95 then 45 else c) := by
  unfold normName
  by_cases h : x.getLast? = some 95
  · have := (endsWith_us x).2 h
    simp only [this, h, if_true, dropLast1, replaceAll_single, repl1_eq_map]
  · have : endsWith x [95] = false := by
      cases hh : endsWith x [95]
      · rfl
      · exact absurd ((endsWith_us x).1 hh) h
    simp only [this, h, if_false, replaceAll_single, repl1_eq_map]
    simp

theorem C15_normName_no_underscore (x : Str) : 95 ∉ normName x := by
  rw [C15_normName_spec]
  intro h
  rw [List.mem_map] at h
  obtain ⟨c, _, hc⟩ := h
  split at hc
  · simp at hc
  · rename_i hne; exact hne hc

theorem normName_of_no_us (x : Str) (h : 95 ∉ x) : normName x = x := by
  rw [C15_normName_spec]
  have h1 : ¬ x.getLast? = some 95 := by
    intro e
    exact h (List.mem_of_getLast? e)
  simp only [h1, if_false]
  conv => rhs; rw [← List.map_id x]
  apply List.map_congr_left
  intro c hc
  have : c ≠ 95 := fun e => h (e ▸ hc)
  simp [this]

theorem C15_normName_idem (x : Str) : normName (normName x) = normName x :=
  normName_of_no_us _ (C15_normName_no_underscore x)

/-! ### values within one call: joined by single spaces in argument order, first appearance fixes the position -/
def pairsOfD : ArgDict → List (Str × AttrArg)
  | .DNil => []
  | .DCons k v tl => (k, v) :: pairsOfD tl
def pairsOf : ArgDicts → List (Str × AttrArg)
  | .DDNil => []
  | .DDCons d tl => pairsOfD d ++ pairsOf tl
/-- the normalised (name, value) pairs that are kept (None / False dropped), in argument order -/
def kept (ps : List (Str × AttrArg)) : List (Str × AttrVal) :=
  ps.filterMap (fun p => match normVal p.2 with | .SomeAV v => some (normName p.1, v) | .NoAV => none)
/-- the values given for one normalised name, in argument order -/
def valuesFor (nm : Str) (ks : List (Str × AttrVal)) : List AttrVal := (ks.filter (fun p => p.1 == nm)).map (·.2)
def joinAll (cfg : Cfg) : List AttrVal → Option AttrVal
  | [] => none
  | v :: vs => some (vs.foldl (joinAV cfg) v)
/-- names in order of first appearance -/
def firstOcc : List Str → List Str
  | [] => []
  | x :: xs => x :: (firstOcc xs).filter (· != x)

/-- one kept (normalised name, value) pair merged into the accumulator -/
def stepK (cfg : Cfg) (acc : AttrList) (p : Str × AttrVal) : AttrList :=
  if ahas acc p.1 then aset acc p.1 (joinAV cfg (aget acc p.1) p.2) else aset acc p.1 p.2

def mergeK (cfg : Cfg) (ks : List (Str × AttrVal)) (acc : AttrList) : AttrList := ks.foldl (stepK cfg) acc

theorem mergeK_cons (cfg : Cfg) (p) (ks) (acc) : mergeK cfg (p :: ks) acc = mergeK cfg ks (stepK cfg acc p) := rfl
theorem mergeK_append (cfg : Cfg) (k1 k2) (acc) : mergeK cfg (k1 ++ k2) acc = mergeK cfg k2 (mergeK cfg k1 acc) := by
  simp [mergeK, List.foldl_append]

theorem kept_append (a b) : kept (a ++ b) = kept a ++ kept b := by simp [kept, List.filterMap_append]

theorem mergeDict_eq (cfg : Cfg) (d : ArgDict) (acc : AttrList) : mergeDict cfg d acc = mergeK cfg (kept (pairsOfD d)) acc := by
  induction d generalizing acc with
  | DNil => simp [mergeDict, pairsOfD, kept, mergeK]
  | DCons k v tl ih =>
    simp only [mergeDict, pairsOfD, ih]
    unfold updStep
    cases hv : normVal v with
    | NoAV => simp [kept, hv]
    | SomeAV val =>
      simp only [kept, List.filterMap_cons, hv]
      rfl

theorem mergeDicts_eq (cfg : Cfg) (ds : ArgDicts) (acc : AttrList) : mergeDicts cfg ds acc = mergeK cfg (kept (pairsOf ds)) acc := by
  induction ds generalizing acc with
  | DDNil => simp [mergeDicts, pairsOf, kept, mergeK]
  | DDCons d tl ih => simp only [mergeDicts, pairsOf, ih, mergeDict_eq, kept_append, mergeK_append]

theorem mergeCall_eq (cfg : Cfg) (args : ArgDicts) (kw : ArgDict) :
    mergeCall cfg args kw = mergeK cfg (kept (pairsOf (callDicts args kw))) .ANil := mergeDicts_eq _ _ _

/-- keys after one step -/
theorem stepK_keys (cfg : Cfg) (acc : AttrList) (p : Str × AttrVal) :
    keysOf (stepK cfg acc p) = if p.1 ∈ keysOf acc then keysOf acc else keysOf acc ++ [p.1] := by
  unfold stepK
  by_cases h : p.1 ∈ keysOf acc
  · simp only [(ahas_iff_mem acc p.1).2 h, h, if_true, aset_keys_of_mem _ _ _ h]
  · have : ahas acc p.1 = false := (ahas_false_iff _ _).2 h
    simp only [this, h, if_false]
    exact aset_keys_of_not_mem _ _ _ h

theorem stepK_nodup (cfg : Cfg) (acc : AttrList) (p : Str × AttrVal) (h : (keysOf acc).Nodup) : (keysOf (stepK cfg acc p)).Nodup := by
  unfold stepK; split <;> exact aset_nodup _ _ _ h

theorem mergeK_nodup (cfg : Cfg) (ks) (acc : AttrList) (h : (keysOf acc).Nodup) : (keysOf (mergeK cfg ks acc)).Nodup := by
  induction ks generalizing acc with
  | nil => exact h
  | cons p ks ih => rw [mergeK_cons]; exact ih _ (stepK_nodup cfg acc p h)

/-- one name per attribute: the per-call accumulator never holds a name twice -/
theorem mergeCall_nodup (cfg : Cfg) (args : ArgDicts) (kw : ArgDict) : (keysOf (mergeCall cfg args kw)).Nodup := by
  rw [mergeCall_eq]; exact mergeK_nodup _ _ _ (by simp [keysOf])

theorem aappend_keys (a b : AttrList) : keysOf (aappend a b) = keysOf a ++ keysOf b := by
  induction a with
  | ANil => simp [aappend, keysOf]
  | ACons k v tl ih => simp [aappend, keysOf, ih]

theorem aset_new_eq (a : AttrList) (k : Str) (v : AttrVal) (h : k ∉ keysOf a) : aset a k v = aappend a (.ACons k v .ANil) := by
  induction a with
  | ANil => simp [aset, aappend]
  | ACons k2 v2 tl ih =>
    simp only [keysOf, List.mem_cons, not_or] at h
    have hk : ¬ k2 = k := fun e => h.1 e.symm
    simp only [aset, beq_iff_eq, hk, if_false, aappend, ih h.2]

theorem aappend_assoc (a b c : AttrList) : aappend (aappend a b) c = aappend a (aappend b c) := by
  induction a with
  | ANil => simp [aappend]
  | ACons k v tl ih => simp [aappend, ih]

theorem aappend_nil (a : AttrList) : aappend a .ANil = a := by
  induction a with
  | ANil => simp [aappend]
  | ACons k v tl ih => simp [aappend, ih]

theorem aupdate_eq_append (a m : AttrList) (h : (keysOf a ++ keysOf m).Nodup) : aupdate a m = aappend a m := by
  induction m generalizing a with
  | ANil => simp [aupdate, aappend_nil]
  | ACons k v tl ih =>
    simp only [aupdate]
    have hk : k ∉ keysOf a := by
      intro hm
      rw [List.nodup_append] at h
      exact h.2.2 k hm k (by simp [keysOf]) rfl
    rw [aset_new_eq a k v hk, ih, aappend_assoc]
    · simp [aappend]
    · rw [aappend_keys]; simpa [keysOf] using h

/-- dict.update of an empty dict with a dict whose keys are unique is that dict -/
theorem aupdate_nil_of_nodup (m : AttrList) (h : (keysOf m).Nodup) : aupdate .ANil m = m := by
  rw [aupdate_eq_append _ _ (by simpa [keysOf] using h)]; rfl
theorem aupdate_nil_mergeCall (cfg : Cfg) (args : ArgDicts) (kw : ArgDict) :
    aupdate .ANil (mergeCall cfg args kw) = mergeCall cfg args kw :=
  aupdate_nil_of_nodup _ (mergeCall_nodup cfg args kw)

theorem mergeK_keys (cfg : Cfg) (ks : List (Str × AttrVal)) (acc : AttrList) :
    keysOf (mergeK cfg ks acc) = keysOf acc ++ (firstOcc (ks.map (·.1))).filter (fun k => decide (k ∉ keysOf acc)) := by
  induction ks generalizing acc with
  | nil => simp [mergeK, firstOcc]
  | cons p ks ih =>
    rw [mergeK_cons, ih, stepK_keys]
    simp only [List.map_cons, firstOcc]
    by_cases h : p.1 ∈ keysOf acc
    · simp only [h, if_true, List.filter_cons, not_true_eq_false, decide_false, Bool.false_eq_true, if_false,
        List.filter_filter]
      congr 1
      apply List.filter_congr
      intro x _
      by_cases hx : x ∈ keysOf acc
      · simp [hx]
      · have : x ≠ p.1 := fun e => hx (e ▸ h)
        simp [hx, this]
    · simp only [h, if_false, List.filter_cons, not_false_eq_true, decide_true, if_true, List.filter_filter,
        List.append_assoc, List.singleton_append]
      congr 2
      apply List.filter_congr
      intro x _
      by_cases hx : x ∈ keysOf acc
      · simp [hx]
      · by_cases hxp : x = p.1
        · simp [hxp]
        · simp [hx, hxp]

/-- C15: positional dicts left to right, then keywords -/
theorem C15_callDicts_pairs (args : ArgDicts) (kw : ArgDict) :
    pairsOf (callDicts args kw) = pairsOf args ++ pairsOfD kw := by
  unfold callDicts
  cases kw with
  | DNil => simp [dictNonEmpty, pairsOfD]
  | DCons k v tl =>
    simp only [dictNonEmpty, if_true]
    induction args with
    | DDNil => simp [ddsnoc, pairsOf]
    | DDCons d ds ih => simp [ddsnoc, pairsOf, ih]

/-- C15: the attribute names of one call, ordered by first appearance -/
theorem C15_order_first_appearance (cfg : Cfg) (args : ArgDicts) (kw : ArgDict) :
    keysOf (mergeCall cfg args kw) = firstOcc ((kept (pairsOf (callDicts args kw))).map (·.1)) := by
  rw [mergeCall_eq, mergeK_keys]
  simp [keysOf]

theorem ahas_stepK (cfg : Cfg) (acc : AttrList) (p : Str × AttrVal) (nm : Str) :
    ahas (stepK cfg acc p) nm = (ahas acc nm || p.1 == nm) := by
  unfold stepK; split <;> exact ahas_aset _ _ _ _

theorem aget_stepK (cfg : Cfg) (acc : AttrList) (p : Str × AttrVal) (nm : Str) :
    aget (stepK cfg acc p) nm =
      if p.1 = nm then (if ahas acc nm then joinAV cfg (aget acc nm) p.2 else p.2) else aget acc nm := by
  unfold stepK
  by_cases h : p.1 = nm
  · subst h
    simp only [if_true]
    split <;> exact aget_aset_same _ _ _
  · simp only [h, if_false]
    split <;> exact aget_aset_other _ _ _ _ (Ne.symm h)

theorem valuesFor_cons (nm : Str) (p : Str × AttrVal) (ks) :
    valuesFor nm (p :: ks) = if p.1 = nm then p.2 :: valuesFor nm ks else valuesFor nm ks := by
  unfold valuesFor
  by_cases h : p.1 = nm
  · simp [h]
  · simp [h]

theorem mergeK_has (cfg : Cfg) (ks : List (Str × AttrVal)) (acc : AttrList) (nm : Str) :
    ahas (mergeK cfg ks acc) nm = (ahas acc nm || !(valuesFor nm ks).isEmpty) := by
  induction ks generalizing acc with
  | nil => simp [mergeK, valuesFor]
  | cons p ks ih =>
    rw [mergeK_cons, ih, ahas_stepK, valuesFor_cons]
    by_cases h : p.1 = nm
    · simp [h]
    · have hb : (p.1 == nm) = false := beq_false_of_ne h
      simp [h, hb]

theorem mergeK_get (cfg : Cfg) (ks : List (Str × AttrVal)) (acc : AttrList) (nm : Str) :
    aget (mergeK cfg ks acc) nm =
      if ahas acc nm then (valuesFor nm ks).foldl (joinAV cfg) (aget acc nm)
      else match valuesFor nm ks with
        | [] => aget acc nm
        | v :: vs => vs.foldl (joinAV cfg) v := by
  induction ks generalizing acc with
  | nil => simp [mergeK, valuesFor]
  | cons p ks ih =>
    rw [mergeK_cons, ih, ahas_stepK, aget_stepK, valuesFor_cons]
    by_cases h : p.1 = nm
    · by_cases ha : ahas acc nm = true
      · simp [h, ha]
      · simp only [Bool.not_eq_true] at ha
        simp [h, ha]
    · have hb : (p.1 == nm) = false := beq_false_of_ne h
      by_cases ha : ahas acc nm = true
      · simp [h, ha, hb]
      · simp only [Bool.not_eq_true] at ha
        simp [h, ha, hb]

/-- C15: the value of a name is all its values joined by single spaces in argument order -/
theorem C15_merged_value (cfg : Cfg) (args : ArgDicts) (kw : ArgDict) (nm : Str) :
    (ahas (mergeCall cfg args kw) nm = !(valuesFor nm (kept (pairsOf (callDicts args kw)))).isEmpty) ∧
    (∀ v, joinAll cfg (valuesFor nm (kept (pairsOf (callDicts args kw)))) = some v → aget (mergeCall cfg args kw) nm = v) := by
  rw [mergeCall_eq]
  refine ⟨by rw [mergeK_has]; simp [ahas], ?_⟩
  intro v hv
  rw [mergeK_get]
  simp only [ahas, Bool.false_eq_true, if_false]
  cases hvf : valuesFor nm (kept (pairsOf (callDicts args kw))) with
  | nil => rw [hvf] at hv; simp [joinAll] at hv
  | cons w ws =>
    rw [hvf] at hv
    simp only [joinAll, Option.some.injEq] at hv
    exact hv

/-- for plain values joinAV is literally "a b" -/
theorem C15_join_plain (cfg : Cfg) (s t : Str) : joinAV cfg (.Plain s) (.Plain t) = .Plain (s ++ [32] ++ t) := rfl

/-! ### later update / item assignment replaces rather than appends -/
theorem ahas_aupdate (a m : AttrList) (k : Str) : ahas (aupdate a m) k = (ahas a k || ahas m k) := by
  induction m generalizing a with
  | ANil => simp [aupdate, ahas]
  | ACons k2 v tl ih => simp only [aupdate, ih, ahas_aset, ahas, Bool.or_assoc]

theorem aget_aupdate (a m : AttrList) (k : Str) (hm : (keysOf m).Nodup) :
    aget (aupdate a m) k = if ahas m k then aget m k else aget a k := by
  induction m generalizing a with
  | ANil => simp [aupdate, ahas]
  | ACons k2 v tl ih =>
    simp only [keysOf, List.nodup_cons] at hm
    simp only [aupdate, ih _ hm.2, ahas, aget]
    by_cases h : k2 = k
    · subst h
      have : ahas tl k2 = false := (ahas_false_iff _ _).2 hm.1
      simp [this, aget_aset_same]
    · have hb : (k2 == k) = false := beq_false_of_ne h
      simp only [hb, Bool.false_or, Bool.false_eq_true, if_false, aget_aset_other _ _ _ _ (Ne.symm h)]

theorem C15_update_replaces (a m : AttrList) (k : Str) (hm : (keysOf m).Nodup) :
    (ahas m k = true → aget (aupdate a m) k = aget m k) ∧ (ahas m k = false → aget (aupdate a m) k = aget a k) ∧
    (ahas (aupdate a m) k = (ahas a k || ahas m k)) := by
  refine ⟨?_, ?_, ahas_aupdate a m k⟩
  · intro h; rw [aget_aupdate a m k hm]; simp [h]
  · intro h; rw [aget_aupdate a m k hm]; simp [h]

theorem aupdate_keys (a m : AttrList) (hm : (keysOf m).Nodup) :
    keysOf (aupdate a m) = keysOf a ++ (keysOf m).filter (fun k => !(keysOf a).contains k) := by
  induction m generalizing a with
  | ANil => simp [aupdate, keysOf]
  | ACons k v tl ih =>
    simp only [keysOf, List.nodup_cons] at hm
    simp only [aupdate, ih _ hm.2, keysOf, List.filter_cons]
    by_cases h : k ∈ keysOf a
    · rw [aset_keys_of_mem a k v h]
      simp [h]
    · rw [aset_keys_of_not_mem a k v h]
      simp only [List.contains_eq_mem, h, decide_false, Bool.not_false, if_true, List.append_assoc,
        List.singleton_append]
      congr 2
      apply List.filter_congr
      intro x hx
      have : x ≠ k := fun e => hm.1 (e ▸ hx)
      simp [this]

set_option linter.unusedVariables false in
/-- existing names keep their position, new names are appended in the order of the update -/
theorem C15_update_order (a m : AttrList) (ha : (keysOf a).Nodup) (hm : (keysOf m).Nodup) :
    keysOf (aupdate a m) = keysOf a ++ (keysOf m).filter (fun k => !(keysOf a).contains k) :=
  aupdate_keys a m hm

theorem C15_setitem_replaces (a : AttrList) (name : Str) (x : AttrArg) (v : AttrVal) (h : normVal x = .SomeAV v) :
    aget (setItemSpec a name x) (normName name) = v ∧ ahas (setItemSpec a name x) (normName name) = true := by
  unfold setItemSpec
  simp only [h]
  exact ⟨aget_aset_same _ _ _, by rw [ahas_aset]; simp⟩

theorem C15_setitem_skips_none (a : AttrList) (name : Str) (x : AttrArg) (h : normVal x = .NoAV) : setItemSpec a name x = a := by
  unfold setItemSpec
  simp only [h]

/-! ### consolidate_attrs: rebuilding a tag from its result equals building it directly -/
theorem normVal_thArg (v : AttrVal) : normVal (thArg v) = .SomeAV v := by
  cases v <;> rfl

theorem mergeDict_toArgDict (cfg : Cfg) (m acc : AttrList) (hn : (keysOf acc ++ keysOf m).Nodup)
    (hu : ∀ k ∈ keysOf m, 95 ∉ k) : mergeDict cfg (toArgDict m) acc = aappend acc m := by
  induction m generalizing acc with
  | ANil => simp [toArgDict, mergeDict, aappend_nil]
  | ACons k v tl ih =>
    have hk : k ∉ keysOf acc := by
      intro hm
      rw [List.nodup_append] at hn
      exact hn.2.2 k hm k (by simp [keysOf]) rfl
    have hnn : normName k = k := normName_of_no_us k (hu k (by simp [keysOf]))
    have hh : ahas acc k = false := (ahas_false_iff _ _).2 hk
    simp only [toArgDict, mergeDict]
    have hs : updStep cfg acc k (thArg v) = aappend acc (.ACons k v .ANil) := by
      unfold updStep
      simp only [normVal_thArg, hnn, hh, Bool.false_eq_true, if_false]
      exact aset_new_eq acc k v hk
    rw [hs, ih, aappend_assoc]
    · simp [aappend]
    · rw [aappend_keys]; simpa [keysOf] using hn
    · intro k' hk'; exact hu k' (by simp [keysOf, hk'])

theorem mem_of_mem_firstOcc (l : List Str) (x : Str) (h : x ∈ firstOcc l) : x ∈ l := by
  induction l with
  | nil => simp [firstOcc] at h
  | cons y ys ih =>
    simp only [firstOcc, List.mem_cons, List.mem_filter] at h
    rcases h with h | h
    · simp [h]
    · simp [ih h.1]

/-- every produced name is already normalised (contains no underscore) -/
theorem C15_keys_normalised (cfg : Cfg) (args : ArgDicts) (kw : ArgDict) :
    ∀ k ∈ keysOf (mergeCall cfg args kw), 95 ∉ k := by
  intro k hk
  rw [C15_order_first_appearance] at hk
  have := mem_of_mem_firstOcc _ _ hk
  rw [List.mem_map] at this
  obtain ⟨p, hp, rfl⟩ := this
  unfold kept at hp
  rw [List.mem_filterMap] at hp
  obtain ⟨q, _, hq⟩ := hp
  split at hq
  · simp only [Option.some.injEq] at hq
    subst hq
    exact C15_normName_no_underscore _
  · simp at hq

theorem C15_consolidate_rebuild (cfg : Cfg) (args : ArgDicts) (kw : ArgDict) :
    mergeCall cfg (.DDCons (toArgDict (mergeCall cfg args kw)) .DDNil) .DNil = mergeCall cfg args kw := by
  generalize hM : mergeCall cfg args kw = M
  have hn : (keysOf M).Nodup := hM ▸ mergeCall_nodup cfg args kw
  have hu : ∀ k ∈ keysOf M, 95 ∉ k := hM ▸ C15_keys_normalised cfg args kw
  unfold mergeCall callDicts
  simp only [dictNonEmpty, Bool.false_eq_true, if_false, mergeDicts]
  rw [mergeDict_toArgDict cfg M .ANil (by simpa [keysOf] using hn) hu]
  rfl

#print axioms C15_merged_value
#print axioms C15_order_first_appearance
#print axioms C15_consolidate_rebuild
#print axioms aupdate_nil_mergeCall
end HV
