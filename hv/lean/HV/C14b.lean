/- Bridge between the generated `allAtomChildren` (used as a loop invariant by the VC generator) and
   the `allAtoms` of HV.C14: the flattening contains only atoms. -/
import HV.C14
namespace HV

theorem allAtomChildren_eq_allAtoms : (l : ChildList) → allAtomChildren l = allAtoms l
  | .CNil => by rw [allAtomChildren]; simp [allAtoms]
  | .CCons c r => by
    rw [allAtomChildren, allAtomChildren_eq_allAtoms r]
    cases c <;> simp [isAtomChild, isAtomC, allAtoms]

theorem flatC_atoms (l : ChildList) : allAtomChildren (flatC l) = true := by
  rw [allAtomChildren_eq_allAtoms]; exact allAtoms_flatC l

end HV
